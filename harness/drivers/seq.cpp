// verif driver "seq": executes command scripts against the stateful allocators of the library and
// records every call as one NDJSON event. It records; it does not judge.
//   usage: seq <script> <trace-out> [first-exec-number]
#include <algorithm>
#include <cstdio>
#include <cstring>
#include <fcntl.h>
#include <memory>
#include <string>
#include <vector>

#include <verif/child.hpp>
#include <verif/subject.hpp>
#include <verif/vmhook.hpp>

using namespace verif;

namespace
{
    struct Handle
    {
        int         id;
        void*       p;
        bool        array;
        std::size_t n, sz, al, bytes;
        long        gen; // iteration generation it was born in
    };
    struct Mark
    {
        int       idx; // marker index inside the subject
        int       wm;  // highest handle id at the time
        long long cap;
    };

    struct Runner
    {
        const Exec&           x;
        ISubject*             cur = nullptr;
        ISubject*             sib = nullptr; // sibling allocator of the same kind (foreign pointers, C08)
        std::vector<Handle>   sib_live;
        std::vector<ISubject*> zombies;
        std::vector<ISubject*> others; // live objects left behind by swap
        std::vector<Handle>   live;
        std::vector<Mark>     marks;
        int                   next_id = 0, next_o = 0;
        long                  gen     = 0;
        std::size_t           lo_used = 0, hi_used = 0;
        bool                  fill    = FOONATHAN_MEMORY_DEBUG_FILL != 0;

        Exec                  xt; // how the TARGET of a move assignment is built (header keys tns, tbs, tnodes)

        explicit Runner(const Exec& e) : x(e), xt(e)
        {
            for (const char* k : {"ns", "bs", "nodes"})
                if (e.kv.count(std::string("t") + k))
                    xt.kv[k] = e.kv.at(std::string("t") + k);
        }

        void* slot(bool hi)
        {
            std::size_t& used = hi ? hi_used : lo_used;
            char*        p    = (hi ? world().high_slot : world().low_slot) + used;
            used += 8192;
            if (used > World::slot_size)
                std::abort();
            return p;
        }

        ISubject* create(bool hi, bool target = false)
        {
            const Exec& x = target ? xt : this->x; // (shadows the member on purpose)
            ISubject*   s = nullptr;
            int         src = world().next_src++;
            int         o   = next_o++;
            void*       where = slot(hi);
            auto&       w  = world();
            long        c0 = w.up_calls, f0 = w.up_fails;
            static_size_request() = static_cast<std::size_t>(x.num("ssz", 16384));
            std::string r  = classify([&] { s = make_subject(x, where, src); });
            if (r == "ok" && !s)
                r = "unknown_subject";
            Ev e("new");
            e.i("o", o).i("src", src).s("r", r).s("fam", x.str("fam")).s("type", x.str("type", "-"));
            e.s("srck", x.str("src", "-")).s("bd", x.str("bd", "-")).b("hi", hi);
            e.b("mem", x.num("member") != 0).i("N", x.num("N", 0)).b("acached", x.num("cached", 1) != 0);
            e.i("ups", w.up_calls - c0).i("upf", w.up_fails - f0);
            {
                bool st_src = x.str("src", "-") == "static" && x.str("fam") != "static";
                e.u("ssz", st_src ? (x.num("ssz", 16384) == 2048 ? 2048u : 16384u) : 0u).u("sbs", st_src ? static_cast<std::size_t>(x.num("bs", 0)) : 0u);
            }
            if (s)
            {
                s->o = o;
                object_registry()[s->addr()] = o;
                s->member = x.num("member") != 0;
                Scal sc = s->scal(static_cast<std::size_t>(x.num("ns", 16)));
                std::size_t mn, ma, mal;
                s->maxes(mn, ma, mal);
                e.u("ns", s->node_size()).u("hdr", s->header()).u("link", s->link_bytes()).u("pools", s->pools());
                e.i("cap", sc.cap).ic("ncap", sc.ncap).i("fn", sc.fn);
                e.uc("mxn", mn).uc("mxa", ma).uc("mxal", mal);
                if (s->has_iterations())
                {
                    std::string caps = "[";
                    for (std::size_t i = 0; i < s->iters(); ++i)
                        caps += (i ? "," : "") + std::to_string(s->iter_cap(i));
                    e.raw("caps", caps + "]");
                }
                else
                    e.raw("caps", "[]");
            }
            else
            {
                e.u("ns", 0).u("hdr", 0).u("link", 0).u("pools", 0).i("cap", -1).ic("ncap", -1).i("fn", -1);
                e.uc("mxn", 0).uc("mxa", 0).uc("mxal", 0).raw("caps", "[]");
            }
            return s;
        }

        void alloc(const Cmd& c, bool array, bool tr)
        {
            std::size_t n  = array ? static_cast<std::size_t>(c.arg(0)) : 1;
            std::size_t sz = static_cast<std::size_t>(c.arg(array ? 1 : 0));
            std::size_t al = static_cast<std::size_t>(c.arg(array ? 2 : 1, 1));
            // memory_pool's member functions take no size: what is handed out is whole nodes
            if (cur->member && std::string(cur->family()) == "pool")
                sz = cur->node_size();
            std::size_t mn, ma, mal;
            cur->maxes(mn, ma, mal);
            Scal        s0 = cur->scal(sz);
            auto&       w  = world();
            long        c0 = w.up_calls, f0 = w.up_fails, d0 = w.up_frees;
            void*       p  = nullptr;
            cur->note_top();
            std::string r  = classify(
                [&]
                {
                    if (tr)
                        p = array ? cur->ta(n, sz, al) : cur->tn(sz, al);
                    else
                        p = array ? cur->aa(n, sz, al) : cur->an(sz, al);
                });
            if (r == "ok" && !p)
                r = "null";
            Scal s1 = cur->scal(sz);
            long blk = -1, off = 0;
            long long fresh = -1;
            std::size_t bytes = n * sz;
            int id = 0;
            if (p)
            {
                w.project(p, blk, off);
                // never touch memory we cannot attribute to a live block: report and stop using it
                bool inside = blk >= 0
                              && static_cast<std::size_t>(off) + bytes
                                     <= w.blocks[static_cast<std::size_t>(blk)].size;
                id = ++next_id;
                if (inside)
                {
                    if (fill)
                        fresh = static_cast<long long>(count_not(p, bytes, 0xCD));
                    pat_fill(p, bytes, id);
                    live.push_back(Handle{id, p, array, n, sz, al, bytes, gen});
                }
            }
            Ev e("alloc");
            e.i("o", cur->o).i("id", id).s("op", array ? "a" : "n").b("t", tr).u("n", n).u("sz", sz);
            e.u("al", al).s("r", r).i("b", blk).i("off", off).u("len", bytes);
            e.u("mis", p && al ? reinterpret_cast<std::uintptr_t>(p) % al : 0).i("fresh", fresh);
            e.i("ups", w.up_calls - c0).i("upf", w.up_fails - f0).i("ufs", w.up_frees - d0);
            e.i("cap0", s0.cap).i("cap1", s1.cap).ic("ncap0", s0.ncap).ic("ncap1", s1.ncap);
            e.i("fn0", s0.fn).i("fn1", s1.fn).uc("mxn", mn).uc("mxa", ma).uc("mxal", mal);
            e.i("g", gen).b("mv", cur->top_changed());
        }

        // index of the r-th live handle by age (oldest first) or by address rank
        std::size_t pick(long long r, bool by_addr)
        {
            std::size_t k = static_cast<std::size_t>(r) % live.size();
            if (!by_addr)
                return k;
            std::vector<std::size_t> idx(live.size());
            for (std::size_t i = 0; i < idx.size(); ++i)
                idx[i] = i;
            std::sort(idx.begin(), idx.end(),
                      [&](std::size_t a, std::size_t b) { return live[a].p < live[b].p; });
            return idx[k];
        }

        void dealloc(const Cmd& c, bool by_addr, bool tr)
        {
            if (live.empty())
                return;
            std::size_t k = pick(c.arg(0), by_addr);
            Handle      h = live[k];
            long        first;
            std::size_t bad = pat_check(h.p, h.bytes, h.id, &first);
            Scal        s0  = cur->scal(h.sz);
            auto&       w   = world();
            long        c0 = w.up_calls, d0 = w.up_frees;
            bool        res = true;
            std::string r   = classify(
                [&]
                {
                    if (tr)
                        res = h.array ? cur->tda(h.p, h.n, h.sz, h.al) : cur->tdn(h.p, h.sz, h.al);
                    else
                        h.array ? cur->da(h.p, h.n, h.sz, h.al) : cur->dn(h.p, h.sz, h.al);
                });
            if (r == "ok" && tr)
                r = res ? "true" : "false";
            Scal s1 = cur->scal(h.sz);
            // what a pool left in the freed bytes (link area vs body), only if we can still read it
            long long fdl = -1, fdb = -1;
            std::string fam = cur->family();
            long blk, off;
            w.project(h.p, blk, off);
            if (fill && blk >= 0 && (fam == "pool" || (fam == "coll" && !h.array)) && r != "false")
            {
                std::size_t stride = fam == "pool" ? cur->node_size() : h.bytes;
                std::size_t link   = cur->link_bytes();
                auto        cptr   = static_cast<unsigned char*>(h.p);
                fdl = fdb = 0;
                for (std::size_t i = 0; i < h.bytes; ++i)
                    if (cptr[i] != 0xDD)
                        ((stride && i % stride < link) ? fdl : fdb)++;
            }
            if (r != "false")
                live.erase(live.begin() + static_cast<long>(k));
            Ev e("free");
            e.i("o", cur->o).i("id", h.id).s("op", h.array ? "a" : "n").b("t", tr).u("n", h.n);
            e.u("sz", h.sz).u("al", h.al).s("r", r).u("bad", bad).i("first", first);
            e.i("fdl", fdl).i("fdb", fdb).i("ups", w.up_calls - c0).i("ufs", w.up_frees - d0);
            e.i("cap0", s0.cap).i("cap1", s1.cap).i("fn0", s0.fn).i("fn1", s1.fn);
            e.ic("ncap0", s0.ncap).ic("ncap1", s1.ncap);
        }

        std::string bad_list(long lo_id_exclusive, long max_gen, bool by_gen, std::size_t& nbad,
                             std::size_t& ncheck)
        {
            std::string out = "[";
            nbad = ncheck = 0;
            for (auto& h : live)
            {
                bool sel = by_gen ? h.gen <= max_gen : h.id > lo_id_exclusive;
                if (!sel)
                    continue;
                ++ncheck;
                long first;
                if (pat_check(h.p, h.bytes, h.id, &first))
                {
                    if (nbad < 8)
                        out += (nbad ? "," : "") + std::to_string(h.id);
                    ++nbad;
                }
            }
            return out + "]";
        }

        // ---- memory_arena driven directly -------------------------------------------------------
        void arena_counts(Ev& e, const char* suffix)
        {
            long long u = -1, c = -1, cap = -1, nx = -1;
            cur->arena_counts(u, c, cap, nx);
            std::string s(suffix);
            e.i(("asz" + s).c_str(), u).i(("csz" + s).c_str(), c).i(("acap" + s).c_str(), cap).ic(("nbs" + s).c_str(), nx);
        }
        void arena_alloc()
        {
            if (!cur->is_arena())
                return;
            auto&       w  = world();
            long        c0 = w.up_calls, f0 = w.up_fails;
            void*       mem = nullptr;
            std::size_t size = 0;
            Ev e("ablk");
            e.i("o", cur->o);
            arena_counts(e, "0");
            std::string r = classify([&] { cur->arena_alloc(mem, size); });
            long blk = -1, off = 0;
            if (mem)
                w.project(mem, blk, off);
            e.s("r", r).i("b", blk).i("off", off).u("size", size).i("ups", w.up_calls - c0).i("upf", w.up_fails - f0);
            arena_counts(e, "1");
            e.b("owns", mem ? cur->arena_owns(mem) : false);
        }
        void arena_dealloc()
        {
            if (!cur->is_arena())
                return;
            long long u = 0, c = 0, cap = 0, nx = 0;
            cur->arena_counts(u, c, cap, nx);
            if (u == 0)
                return; // precondition: there is a block in use
            auto& w  = world();
            long  d0 = w.up_frees;
            Ev    e("dblk");
            e.i("o", cur->o);
            arena_counts(e, "0");
            std::string r = classify([&] { cur->arena_dealloc(); });
            e.s("r", r).i("ufs", w.up_frees - d0);
            arena_counts(e, "1");
        }
        void arena_owns(const Cmd& c)
        {
            if (!cur->is_arena())
                return;
            // probe addresses of live upstream blocks of this arena's source: header, first and last
            // usable byte, one past the end
            auto& w = world();
            std::vector<std::size_t> mine;
            for (std::size_t i = 0; i < w.blocks.size(); ++i)
                if (w.blocks[i].live && w.blocks[i].src == cur->src)
                    mine.push_back(i);
            if (mine.empty())
                return;
            std::size_t bi   = mine[static_cast<std::size_t>(c.arg(0)) % mine.size()];
            Block&      b    = w.blocks[bi];
            long        where = static_cast<long>(c.arg(1)) % 4;
            std::size_t off   = where == 0 ? 0 : where == 1 ? cur->header() : where == 2 ? b.size - 1 : b.size;
            bool        res   = cur->arena_owns(b.base + off);
            Ev("aown").i("o", cur->o).i("b", static_cast<long long>(bi)).u("off", off).u("bsize", b.size).b("res", res);
        }
        void arena_swap(const Cmd& c)
        {
            if (!cur->is_arena())
                return;
            ISubject* t = create(c.arg(0) != 0);
            if (!t)
                return;
            std::string r = classify([&] { cur->arena_swap(*t); });
            Ev("swap").i("a", cur->o).i("c", t->o).s("r", r);
            // keep working with the object that now holds our blocks; the other one (holding the fresh
            // state) is destroyed at the end like any other live object
            others.push_back(cur);
            cur = t;
        }

        // take every node the pool reports as free through the composable interface (never grows):
        // the number obtained is what the reported capacity is worth
        // memory_pool_collection::reserve(): capacity bytes of the arena go onto the free list for sz
        void reserve(const Cmd& c)
        {
            if (std::string(cur->family()) != "coll")
                return;
            std::size_t sz = static_cast<std::size_t>(c.arg(0, 1)), req = static_cast<std::size_t>(c.arg(1, 64));
            Scal        s0 = cur->scal(sz);
            auto&       w  = world();
            long        c0 = w.up_calls, f0 = w.up_fails, d0 = w.up_frees;
            bool        has = false;
            std::string r   = classify([&] { has = cur->reserve(sz, req); });
            Scal        s1  = cur->scal(sz);
            Ev("reserve").i("o", cur->o).u("sz", sz).u("req", req).s("r", has || r != "ok" ? r : "unsupported")
                .i("cap0", s0.cap).i("cap1", s1.cap).i("fn0", s0.fn).i("fn1", s1.fn).ic("ncap0", s0.ncap).ic("ncap1", s1.ncap)
                .i("ups", w.up_calls - c0).i("upf", w.up_fails - f0).i("ufs", w.up_frees - d0);
        }

        void drain(const Cmd& c)
        {
            std::string fam = cur->family();
            if (fam != "pool" && fam != "coll")
                return;
            std::size_t sz = static_cast<std::size_t>(c.arg(0, 1));
            if (fam == "pool")
                sz = cur->node_size() < sz ? cur->node_size() : sz;
            Scal        s0 = cur->scal(sz);
            auto&       w  = world();
            long        c0 = w.up_calls;
            long long   got = 0;
            std::vector<void*> taken;
            std::string r = "ok";
            while (got <= s0.fn + 2)
            {
                void* p = nullptr;
                r       = classify([&] { p = cur->tn(sz, 1); });
                if (r != "ok" || !p)
                    break;
                taken.push_back(p);
                ++got;
            }
            long long inside = 0;
            for (void* p : taken)
            {
                long blk, off;
                w.project(p, blk, off);
                if (blk >= 0)
                    ++inside;
            }
            Scal s1 = cur->scal(sz);
            // give them back the way they were obtained (composable interface: no leak accounting)
            for (auto it = taken.rbegin(); it != taken.rend(); ++it)
                classify([&] { (void)cur->tdn(*it, sz, 1); });
            Scal s2 = cur->scal(sz);
            Ev("drain").i("o", cur->o).u("sz", sz).i("fn0", s0.fn).i("got", got).i("inside", inside).i("fn1", s1.fn).i(
                "fn2", s2.fn).i("ups", w.up_calls - c0).s("r", r);
        }

        void sib_alloc(const Cmd& c)
        {
            if (!sib)
                return;
            std::size_t sz = static_cast<std::size_t>(c.arg(0));
            std::size_t al = static_cast<std::size_t>(c.arg(1, 1));
            void*       p  = nullptr;
            std::string r  = classify([&] { p = sib->an(sz, al); });
            long blk = -1, off = 0;
            int  id = 0;
            if (p)
            {
                world().project(p, blk, off);
                id = ++next_id;
                if (blk >= 0)
                {
                    pat_fill(p, sz, id);
                    sib_live.push_back(Handle{id, p, false, 1, sz, al, sz, gen});
                }
            }
            Ev("salloc").i("o", sib->o).i("id", id).s("r", r).u("sz", sz).u("al", al).i("b", blk).i("off", off).u(
                "len", sz);
        }

        // foreign memory taken directly from the world: in carve mode it starts exactly one past the
        // end of the block handed out last
        void raw_foreign(const Cmd& c)
        {
            std::size_t sz = static_cast<std::size_t>(c.arg(0, 8));
            std::size_t gap;
            char*       p   = world().take(sz, 1, gap);
            int         blk = world().add_block(p, sz, 1, 999, true, gap);
            world().blocks[static_cast<std::size_t>(blk)].guarded = false;
            Ev("ua").i("s", 999).i("b", blk).u("sz", sz).u("al", 1).u("mis", 0).u("gap", gap).b("st", true).b("out", false);
            int id = ++next_id;
            pat_fill(p, sz, id);
            sib_live.push_back(Handle{id, p, false, 1, sz, 1, sz, -1});
            Ev("salloc").i("o", -1).i("id", id).s("r", "ok").u("sz", sz).u("al", 1).i("b", blk).i("off", 0).u("len", sz);
        }

        // offer a pointer the subject does not own to its composable deallocation
        void try_dealloc_foreign(const Cmd& c)
        {
            if (sib_live.empty())
                return;
            Handle      h  = c.arg(0) < 0 ? sib_live.back() : sib_live[static_cast<std::size_t>(c.arg(0)) % sib_live.size()];
            Scal        s0 = cur->scal(h.sz);
            bool        res = false;
            std::string r   = classify([&] { res = cur->tdn(h.p, h.sz, h.al); });
            if (r == "ok")
                r = res ? "true" : "false";
            Scal s1 = cur->scal(h.sz);
            long first;
            std::size_t bad = pat_check(h.p, h.bytes, h.id, &first);
            long blk = -1, off = 0;
            world().project(h.p, blk, off);
            Ev("tdx").i("o", cur->o).i("so", sib ? sib->o : -1).i("id", h.id).s("r", r).i("b", blk).i("off", off).i(
                "cap0", s0.cap).i("cap1", s1.cap).i("fn0", s0.fn).i("fn1", s1.fn).u("bad", bad);
        }

        void sweep()
        {
            std::size_t nbad, ncheck;
            std::string bl = bad_list(-1, 0, false, nbad, ncheck);
            // guard zones around upstream blocks
            auto&       w  = world();
            std::size_t gd = w.healed_damage;
            for (auto& b : w.blocks)
            {
                if (b.is_static || !b.guarded)
                    continue;
                gd += count_not(b.base - b.gap, b.gap, World::guard_byte);
                gd += count_not(b.base + b.size, b.tail, World::guard_byte);
            }
            // blocks that went back to the upstream were poisoned and are never handed out again:
            // any other byte in them was written after the return
            std::size_t dd = 0;
            for (auto& b : w.blocks)
                if (!b.live && !b.is_static && b.poisoned)
                    dd += count_not(b.base, b.size, World::dead_byte);
            for (auto& h : sib_live)
            {
                long first;
                ++ncheck;
                if (pat_check(h.p, h.bytes, h.id, &first))
                    ++nbad;
            }
            Ev("sweep").i("o", cur ? cur->o : -1).u("checked", ncheck).u("nbad", nbad).raw("bad", bl).u(
                "gd", gd).u("dd", dd);
        }

        void do_mark()
        {
            if (!cur->has_markers())
                return;
            int  idx = cur->mark();
            Scal s   = cur->scal(1);
            marks.push_back(Mark{idx, next_id, s.cap});
            Ev("mark").i("o", cur->o).i("m", idx).i("wm", next_id).i("cap", s.cap).ic("ncap", s.ncap);
        }

        void do_unwind(const Cmd& c)
        {
            if (!cur->has_markers() || marks.empty())
                return;
            std::size_t k = static_cast<std::size_t>(c.arg(0)) % marks.size();
            Mark        m = marks[k];
            std::size_t nbad, ncheck;
            std::string bl = bad_list(m.wm, 0, false, nbad, ncheck);
            auto&       w  = world();
            long        c0 = w.up_calls, d0 = w.up_frees;
            int         raii = static_cast<int>(c.arg(1, -1)); // uwr k mode: through memory_stack_raii_unwind
            if (c.op == "rd")
            {
                // the kept unwinder dies: it unwinds to the marker it was made for
                if (kept_mark < 0 || static_cast<std::size_t>(kept_mark) >= marks.size())
                    return;
                k = static_cast<std::size_t>(kept_mark);
                m = marks[k];
                bl = bad_list(m.wm, 0, false, nbad, ncheck);
            }
            std::string r = classify(
                [&]
                {
                    if (c.op == "rd")
                        cur->drop_raii();
                    else if (c.op == "uwr")
                        cur->unwind_raii(m.idx, raii < 0 ? 0 : raii);
                    else
                        cur->unwind(m.idx);
                });
            if (c.op == "rd")
                kept_mark = -1;
            else if (kept_mark > static_cast<long>(k))
            {
                // the marker the kept unwinder refers to is gone: defuse it (unwinding above the top is not allowed)
                cur->drop_raii_released();
                kept_mark = -1;
            }
            live.erase(std::remove_if(live.begin(), live.end(),
                                      [&](const Handle& h) { return h.id > m.wm; }),
                       live.end());
            marks.resize(k + 1);
            Scal s = cur->scal(1);
            Ev("unwind")
                .i("o", cur->o)
                .i("m", m.idx)
                .i("wm", m.wm)
                .s("r", r)
                .u("nbad", nbad)
                .raw("bad", bl)
                .i("cap", s.cap)
                .ic("ncap", s.ncap)
                .i("ups", w.up_calls - c0)
                .i("ufs", w.up_frees - d0);
        }

        long kept_mark = -1;
        void do_keep(const Cmd& c)
        {
            if (!cur->has_markers() || marks.empty() || kept_mark >= 0)
                return;
            std::size_t k = static_cast<std::size_t>(c.arg(0)) % marks.size();
            if (cur->keep_raii(marks[k].idx))
                kept_mark = static_cast<long>(k);
        }

        void do_cmp()
        {
            if (!cur->has_markers() || marks.size() < 1)
                return;
            // compare every valid marker with every other one (order of acquisition = index order)
            std::string out = "[";
            bool        first = true;
            for (std::size_t i = 0; i < marks.size(); ++i)
                for (std::size_t j = 0; j < marks.size(); ++j)
                {
                    int bits = cur->cmp(marks[i].idx, marks[j].idx);
                    out += std::string(first ? "" : ",") + "[" + std::to_string(marks[i].idx) + ","
                           + std::to_string(marks[j].idx) + "," + std::to_string(bits) + ","
                           + std::to_string(marks[i].wm) + "," + std::to_string(marks[j].wm) + "]";
                    first = false;
                }
            Ev("cmp").i("o", cur->o).raw("rows", out + "]");
        }

        void do_shrink()
        {
            auto& w  = world();
            long  d0 = w.up_frees;
            cur->shrink();
            Scal s = cur->scal(1);
            Ev("shrink").i("o", cur->o).i("ufs", w.up_frees - d0).i("cap", s.cap).ic("ncap", s.ncap);
        }

        void do_next_iter()
        {
            if (!cur->has_iterations())
                return;
            long        N = static_cast<long>(cur->iters());
            std::size_t nbad, ncheck;
            // allocations born N-1 generations ago or earlier die with this switch
            std::string bl = bad_list(0, gen + 1 - N, true, nbad, ncheck);
            std::string r  = classify([&] { cur->next_iter(); });
            ++gen;
            live.erase(std::remove_if(live.begin(), live.end(),
                                      [&](const Handle& h) { return h.gen <= gen - N; }),
                       live.end());
            std::string caps = "[";
            for (std::size_t i = 0; i < cur->iters(); ++i)
                caps += (i ? "," : "") + std::to_string(cur->iter_cap(i));
            Ev("ni")
                .i("o", cur->o)
                .i("g", gen)
                .i("cur", static_cast<long long>(cur->cur_iter()))
                .s("r", r)
                .u("nbad", nbad)
                .raw("bad", bl)
                .raw("caps", caps + "]");
        }

        void do_move(const Cmd& c, bool assign, bool zombie_target = false)
        {
            if (kept_mark >= 0)
            {
                // an unwinder refers to the stack object that is about to be moved from: give it up first
                cur->drop_raii_released();
                kept_mark = -1;
            }
            bool  hi = c.arg(0) != 0;
            auto& w  = world();
            if (!assign)
            {
                void*     where = slot(hi);
                int       o     = next_o++;
                long      d0 = w.up_frees, c0 = w.up_calls;
                ISubject* n     = nullptr;
                std::string r   = classify([&] { n = cur->move_to(where); });
                n->o = o;
                object_registry()[n->addr()] = o;
                Ev("move").s("k", "ctor").i("from", cur->o).i("to", o).s("r", r).b("hi", hi).i(
                    "ufs", w.up_frees - d0).i("ups", w.up_calls - c0);
                zombies.push_back(cur);
                cur = n;
            }
            else
            {
                // mz: the target is the most recent moved-from object that is still alive ("the moved-from object can be
                // assigned to"); without one, like ma: a fresh object built from the target header
                ISubject* t = nullptr;
                if (zombie_target && !zombies.empty())
                {
                    t = zombies.back();
                    zombies.pop_back();
                }
                else
                    t = create(hi, true);
                if (!t)
                    return;
                long        d0 = w.up_frees, c0 = w.up_calls;
                std::string r  = classify([&] { t->assign_from(*cur); });
                Ev("move").s("k", "assign").i("from", cur->o).i("to", t->o).s("r", r).b("hi", hi).i(
                    "ufs", w.up_frees - d0).i("ups", w.up_calls - c0);
                zombies.push_back(cur);
                cur = t;
            }
        }

        void destroy(ISubject* s, bool moved_from)
        {
            auto&       w  = world();
            long        d0 = w.up_frees;
            std::string r  = classify([&] { s->destroy(); });
            Ev("destroy").i("o", s->o).s("r", r).b("mf", moved_from).i("ufs", w.up_frees - d0);
            object_registry().erase(s->addr());
        }

        void kill_zombies()
        {
            for (auto z : zombies)
                destroy(z, true);
            zombies.clear();
        }

        void run()
        {
            world().fail_in = static_cast<long>(x.num("failat", 0));
            cur = create(x.str("place", "hi") == "hi");
            if (cur && x.num("sib"))
                sib = create(x.str("place", "hi") != "hi");
            if (cur)
            {
                for (auto& c : x.cmds)
                {
                    const std::string& op = c.op;
                    if (op == "anc" || op == "anr" || op == "tnc")
                    {
                        // size relative to what the subject reports: capacity_left() - d (anc, tnc) or
                        // next_capacity() - d (anr): requests at and around the end of a block
                        Scal      sc   = cur->scal(1);
                        long long base = op == "anr" ? sc.ncap : sc.cap;
                        long long sz   = base - c.arg(0);
                        if (base < 0 || base > (1 << 24) || sz < 1)
                            continue;
                        Cmd c2;
                        c2.op = op == "tnc" ? "tn" : "an";
                        c2.a  = {sz, c.arg(1, 1)};
                        alloc(c2, false, op == "tnc");
                    }
                    else if (op == "anm" || op == "aam" || op == "anl")
                    {
                        // requests at and around the maxima the traits report (C03, C18): max_node_size + d,
                        // an array of max_array_size / sz + d elements, alignment max_alignment << k
                        if (cur->member)
                            continue;
                        std::size_t mn, ma, mal;
                        cur->maxes(mn, ma, mal);
                        Cmd  c2;
                        bool array = op == "aam";
                        if (op == "anm")
                        {
                            long long sz = static_cast<long long>(mn) + c.arg(0);
                            if (mn == 0 || mn > (1u << 24) || sz < 1)
                                continue;
                            c2.op = "an";
                            c2.a  = {sz, c.arg(1, 1)};
                        }
                        else if (op == "aam")
                        {
                            long long sz  = c.arg(0);
                            long long cnt = sz > 0 ? static_cast<long long>(ma) / sz + c.arg(1) : 0;
                            if (ma == 0 || ma > (1u << 24) || sz < 1 || cnt < 1)
                                continue;
                            c2.op = "aa";
                            c2.a  = {cnt, sz, c.arg(2, 1)};
                        }
                        else
                        {
                            if (mal == 0 || mal > (1u << 16))
                                continue;
                            c2.op = "an";
                            c2.a  = {c.arg(0), static_cast<long long>(mal) << c.arg(1, 1)};
                        }
                        alloc(c2, array, false);
                    }
                    else if (op == "an")
                        alloc(c, false, false);
                    else if (op == "aa")
                        alloc(c, true, false);
                    else if (op == "tn")
                        alloc(c, false, true);
                    else if (op == "ta")
                        alloc(c, true, true);
                    else if (op == "d")
                        dealloc(c, false, false);
                    else if (op == "da")
                        dealloc(c, true, false);
                    else if (op == "td")
                        dealloc(c, false, true);
                    else if (op == "tda")
                        dealloc(c, true, true);
                    else if (op == "mk")
                        do_mark();
                    else if (op == "uw" || op == "uwr" || op == "rd")
                        do_unwind(c);
                    else if (op == "rk")
                        do_keep(c);
                    else if (op == "cmp")
                        do_cmp();
                    else if (op == "sh")
                        do_shrink();
                    else if (op == "ni")
                        do_next_iter();
                    else if (op == "mv")
                        do_move(c, false);
                    else if (op == "ma")
                        do_move(c, true);
                    else if (op == "mz")
                        do_move(c, true, true);
                    else if (op == "kz")
                        kill_zombies();
                    else if (op == "ab")
                        arena_alloc();
                    else if (op == "db")
                        arena_dealloc();
                    else if (op == "own")
                        arena_owns(c);
                    else if (op == "sw")
                        arena_swap(c);
                    else if (op == "sweep")
                        sweep();
                    else if (op == "drain")
                        drain(c);
                    else if (op == "rsv")
                        reserve(c);
                    else if (op == "san")
                        sib_alloc(c);
                    else if (op == "tdx")
                        try_dealloc_foreign(c);
                    else if (op == "sraw")
                        raw_foreign(c);
                    else if (op == "hnull" || op == "hset")
                    {
                        // hnull: the documented way back to the library's default handlers; hset: the harness' ones
                        if (op == "hnull")
                        {
                            fm::out_of_memory::set_handler(nullptr);
                            fm::bad_allocation_size::set_handler(nullptr);
                        }
                        else
                            install_handlers();
                        Ev("hmode").b("def", op == "hnull").b("nonnull", fm::out_of_memory::get_handler() != nullptr
                                                                             && fm::bad_allocation_size::get_handler() != nullptr);
                    }
                    else if (op == "fail")
                        world().fail_in = static_cast<long>(c.arg(0));
                    else if (op == "nofail")
                        world().fail_in = 0;
                    else
                        Ev("badcmd").s("op", op);
                }
                world().fail_in = 0;
                sweep();
                // release everything still live unless the script asks for a leak (C15)
                if (!x.num("leak"))
                {
                    std::string fam = cur->family();
                    while (!live.empty())
                    {
                        Cmd c;
                        c.op = "d";
                        c.a.push_back(static_cast<long long>(live.size()) - 1);
                        dealloc(c, false, false);
                    }
                }
                while (!sib_live.empty())
                {
                    Handle h = sib_live.back();
                    sib_live.pop_back();
                    std::string r = "ok";
                    if (h.gen >= 0 && sib)
                        r = classify([&] { sib->dn(h.p, h.sz, h.al); });
                    Ev("sfree").i("o", sib ? sib->o : -1).i("id", h.id).s("r", r);
                }
                if (sib)
                    destroy(sib, false);
                destroy(cur, false);
                for (auto o : others)
                    destroy(o, false);
                others.clear();
                kill_zombies();
                cur = nullptr;
                live.clear(); // whatever the script leaked on purpose went away with the allocator
                sweep();
            }
            Ev("end").i("blocks", static_cast<long long>(world().blocks.size()));
        }
    };

} // namespace

int main(int argc, char** argv)
{
    if (argc < 3)
    {
        std::fprintf(stderr, "usage: seq <script> <trace-out> [first-exec-number]\n");
        return 2;
    }
    auto execs = load_script(argv[1]);
    int  fd    = ::open(argv[2], O_WRONLY | O_CREAT | O_APPEND, 0644);
    if (fd < 0)
        return 2;
    trace_fd() = fd;
    long xn    = argc > 3 ? std::atol(argv[3]) : 0;
    install_handlers();
    emit_cfg("seq");
    for (auto& x : execs)
    {
        Ev("x").i("n", xn++).s("hdr", x.header).emit();
        run_child(
            [&]
            {
                world().init();
                vm_hooked()   = true; // from here on the library's reservations are observed
                world().carve = x.num("carve") != 0;
                world().down  = x.num("down") != 0;
                Runner r(x);
                r.run();
            });
    }
    return 0;
}
