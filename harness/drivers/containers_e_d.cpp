#include "containers_box.hpp"
namespace vc {
using E32_16 = E<32,16>;
VC_REGISTER_ELEM(E32_16, E32_16)
using E64_8 = E<64,8>;
VC_REGISTER_ELEM(E64_8, E64_8)
using E128_16 = E<128,16>;
VC_REGISTER_ELEM(E128_16, E128_16)
using E7_1 = E<7,1>;
VC_REGISTER_ELEM(E7_1, E7_1)
}
