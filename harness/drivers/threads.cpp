// verif driver "threads": thread_safe_allocator / allocator_storage with a real mutex (C13).
// An instrumented Mutex logs lock (after acquisition) and unlock (before release); an instrumented
// allocator logs entry and exit of every member function; allocations are logged after the call
// returned, releases before the call is made, so that the order of the log is a valid
// linearisation.  It records; it does not judge.
//   usage: threads <script> <trace-out>
#include <atomic>
#include <cstdio>
#include <cstdlib>
#include <fcntl.h>
#include <mutex>
#include <random>
#include <string>
#include <thread>
#include <vector>

#include <foonathan/memory/allocator_storage.hpp>
#include <foonathan/memory/heap_allocator.hpp>
#include <foonathan/memory/malloc_allocator.hpp>
#include <foonathan/memory/memory_pool.hpp>
#include <foonathan/memory/new_allocator.hpp>

#include <verif/child.hpp>
#include <verif/observe.hpp>
#include <verif/script.hpp>

using namespace verif;

namespace
{
    thread_local int t_id = 0;

    // serialises the harness' own bookkeeping (world, log order); never held across a library call
    std::mutex g_log;

    struct imutex
    {
        std::mutex m;
        void       lock()
        {
            m.lock();
            std::lock_guard<std::mutex> g(g_log);
            Ev("lock").i("t", t_id);
        }
        bool try_lock()
        {
            if (!m.try_lock())
                return false;
            std::lock_guard<std::mutex> g(g_log);
            Ev("lock").i("t", t_id);
            return true;
        }
        void unlock()
        {
            {
                std::lock_guard<std::mutex> g(g_log);
                Ev("unlock").i("t", t_id);
            }
            m.unlock();
        }
    };

    struct Scope
    {
        const char* op;
        explicit Scope(const char* o) : op(o)
        {
            std::lock_guard<std::mutex> g(g_log);
            Ev("enter").i("t", t_id).s("op", op);
        }
        ~Scope()
        {
            std::lock_guard<std::mutex> g(g_log);
            Ev("exit").i("t", t_id).s("op", op);
        }
    };

    // stateful, composable allocator: a real array pool of the library over plain malloc (the pool
    // is NOT thread safe: only the mutex under test protects it)
    struct malloc_up
    {
        using is_stateful = std::true_type;
        int   dummy       = 0;
        void* allocate_node(std::size_t size, std::size_t)
        {
            return std::malloc(size);
        }
        void deallocate_node(void* p, std::size_t, std::size_t) noexcept
        {
            std::free(p);
        }
    };
    using inner_pool = fm::memory_pool<fm::array_pool, malloc_up>;

    struct tleaf
    {
        using is_stateful = std::true_type;
        using traits      = fm::allocator_traits<inner_pool>;
        using ctraits     = fm::composable_allocator_traits<inner_pool>;
        inner_pool* pool;
        explicit tleaf(inner_pool& p) : pool(&p) {}

        void* allocate_node(std::size_t sz, std::size_t al)
        {
            Scope s("allocate_node");
            return traits::allocate_node(*pool, sz, al);
        }
        void* allocate_array(std::size_t n, std::size_t sz, std::size_t al)
        {
            Scope s("allocate_array");
            return traits::allocate_array(*pool, n, sz, al);
        }
        void deallocate_node(void* p, std::size_t sz, std::size_t al) noexcept
        {
            Scope s("deallocate_node");
            traits::deallocate_node(*pool, p, sz, al);
        }
        void deallocate_array(void* p, std::size_t n, std::size_t sz, std::size_t al) noexcept
        {
            Scope s("deallocate_array");
            traits::deallocate_array(*pool, p, n, sz, al);
        }
        void* try_allocate_node(std::size_t sz, std::size_t al) noexcept
        {
            Scope s("try_allocate_node");
            return ctraits::try_allocate_node(*pool, sz, al);
        }
        void* try_allocate_array(std::size_t n, std::size_t sz, std::size_t al) noexcept
        {
            Scope s("try_allocate_array");
            return ctraits::try_allocate_array(*pool, n, sz, al);
        }
        bool try_deallocate_node(void* p, std::size_t sz, std::size_t al) noexcept
        {
            Scope s("try_deallocate_node");
            return ctraits::try_deallocate_node(*pool, p, sz, al);
        }
        bool try_deallocate_array(void* p, std::size_t n, std::size_t sz, std::size_t al) noexcept
        {
            Scope s("try_deallocate_array");
            return ctraits::try_deallocate_array(*pool, p, n, sz, al);
        }
        std::size_t max_node_size() const
        {
            Scope s("max_node_size");
            return traits::max_node_size(*pool);
        }
        std::size_t max_array_size() const
        {
            Scope s("max_array_size");
            return traits::max_array_size(*pool);
        }
        std::size_t max_alignment() const
        {
            Scope s("max_alignment");
            return traits::max_alignment(*pool);
        }
    };

    // stateless allocator: needs and must take no lock
    struct sleaf
    {
        using is_stateful = std::false_type;
        void* allocate_node(std::size_t sz, std::size_t)
        {
            Scope s("allocate_node");
            return std::malloc(sz);
        }
        void deallocate_node(void* p, std::size_t, std::size_t) noexcept
        {
            Scope s("deallocate_node");
            std::free(p);
        }
    };

    // an EMPTY allocator type that declares itself stateful (its state lives elsewhere: here a bump region shared
    // by all objects of the type, deliberately without any synchronisation of its own): it needs the mutex
    struct esleaf
    {
        using is_stateful = std::true_type;
        static char*& cur()
        {
            static char  region[1 << 20];
            static char* c = region;
            return c;
        }
        void* allocate_node(std::size_t sz, std::size_t)
        {
            Scope s("allocate_node");
            char* p = cur();
            cur()   = p + ((sz + 15) / 16) * 16;
            return p;
        }
        void deallocate_node(void*, std::size_t, std::size_t) noexcept
        {
            Scope s("deallocate_node");
        }
    };
    static_assert(std::is_empty<esleaf>::value, "");

    // ---- uniform access to the storage under test ---------------------------------------------
    struct IStore
    {
        virtual ~IStore()                                                        = default;
        virtual void* an(std::size_t sz, std::size_t al)                         = 0;
        virtual void* aa(std::size_t n, std::size_t sz, std::size_t al)          = 0;
        virtual void  dn(void* p, std::size_t sz, std::size_t al)                = 0;
        virtual void  da(void* p, std::size_t n, std::size_t sz, std::size_t al) = 0;
        virtual void* tn(std::size_t sz, std::size_t al)                         = 0;
        virtual void* ta(std::size_t n, std::size_t sz, std::size_t al)          = 0;
        virtual bool  tdn(void* p, std::size_t sz, std::size_t al)               = 0;
        virtual bool  tda(void* p, std::size_t n, std::size_t sz, std::size_t al) = 0;
        virtual void  queries()                                                  = 0;
        virtual void* proxy_an(std::size_t sz, std::size_t al)                   = 0;
        virtual void  proxy_dn(void* p, std::size_t sz, std::size_t al)          = 0;
        virtual void* proxy_moved_an(std::size_t sz, std::size_t al)             = 0;
        virtual bool  composable()                                               = 0;
    };
    template <class S>
    struct Store : IStore
    {
        S s;
        template <class... A>
        explicit Store(A&&... a) : s(std::forward<A>(a)...)
        {
        }
        static constexpr bool comp = fm::is_composable_allocator<typename S::allocator_type>::value;
        bool composable() override
        {
            return comp;
        }
        void* an(std::size_t sz, std::size_t al) override
        {
            return s.allocate_node(sz, al);
        }
        void* aa(std::size_t n, std::size_t sz, std::size_t al) override
        {
            return s.allocate_array(n, sz, al);
        }
        void dn(void* p, std::size_t sz, std::size_t al) override
        {
            s.deallocate_node(p, sz, al);
        }
        void da(void* p, std::size_t n, std::size_t sz, std::size_t al) override
        {
            s.deallocate_array(p, n, sz, al);
        }
        void* tn(std::size_t sz, std::size_t al) override
        {
            if constexpr (comp)
                return s.try_allocate_node(sz, al);
            else
                return nullptr;
        }
        void* ta(std::size_t n, std::size_t sz, std::size_t al) override
        {
            if constexpr (comp)
                return s.try_allocate_array(n, sz, al);
            else
                return nullptr;
        }
        bool tdn(void* p, std::size_t sz, std::size_t al) override
        {
            if constexpr (comp)
                return s.try_deallocate_node(p, sz, al);
            else
                return false;
        }
        bool tda(void* p, std::size_t n, std::size_t sz, std::size_t al) override
        {
            if constexpr (comp)
                return s.try_deallocate_array(p, n, sz, al);
            else
                return false;
        }
        void queries() override
        {
            (void)s.max_node_size();
            (void)s.max_array_size();
            (void)s.max_alignment();
        }
        void* proxy_an(std::size_t sz, std::size_t al) override
        {
            auto l = s.lock();
            return fm::allocator_traits<typename S::allocator_type>::allocate_node(*l, sz, al);
        }
        // the proxy is handed on by move (returned from a helper): the moved-to proxy must keep the lock
        void* proxy_moved_an(std::size_t sz, std::size_t al) override
        {
            using proxy = decltype(s.lock());
            auto l2     = [&]
            {
                auto l = s.lock();
                return proxy(std::move(l)); // l dies here, l2 lives on
            }();
            return fm::allocator_traits<typename S::allocator_type>::allocate_node(*l2, sz, al);
        }
        void proxy_dn(void* p, std::size_t sz, std::size_t al) override
        {
            auto l = s.lock();
            fm::allocator_traits<typename S::allocator_type>::deallocate_node(*l, p, sz, al);
        }
    };

    constexpr std::size_t node = 32;

    struct Live
    {
        int         id;
        void*       p;
        bool        array;
        std::size_t n;
    };
    std::atomic<int> g_next_id{0};

    void log_alloc(void* p, bool array, std::size_t n, const char* how, std::vector<Live>& mine)
    {
        if (!p)
            return;
        int id = ++g_next_id;
        pat_fill(p, n * node, id);
        mine.push_back(Live{id, p, array, n});
        std::lock_guard<std::mutex> g(g_log);
        // the address is logged as an offset relative to nothing: split at bit 28 (both words stay far below the 10^9 clamp of the trace writer)
        auto a = reinterpret_cast<std::uintptr_t>(p);
        Ev("talloc").i("t", t_id).i("id", id).s("how", how).i("hi", static_cast<long long>(a >> 28)).i(
            "lo", static_cast<long long>(a & ((1u << 28) - 1))).u("len", n * node);
    }
    void log_free(const Live& l)
    {
        long        first;
        std::size_t bad = pat_check(l.p, l.n * node, l.id, &first);
        std::lock_guard<std::mutex> g(g_log);
        Ev("tfree").i("t", t_id).i("id", l.id).u("bad", bad);
    }

    void single_pass(IStore& st)
    {
        // every forwarding member at least once, arrays also with count == 1, every release member on memory of
        // every allocation member
        std::vector<Live> mine;
        for (int round = 0; round < 3; ++round)
        {
            log_alloc(st.an(node, 8), false, 1, "an", mine);
            log_alloc(st.aa(3, node, 8), true, 3, "aa", mine);
            log_alloc(st.aa(1, node, 8), true, 1, "aa1", mine);
            if (st.composable())
            {
                log_alloc(st.tn(node, 8), false, 1, "tn", mine);
                log_alloc(st.ta(2, node, 8), true, 2, "ta", mine);
                log_alloc(st.ta(1, node, 8), true, 1, "ta1", mine);
            }
            st.queries();
            log_alloc(st.proxy_an(node, 8), false, 1, "proxy", mine);
            log_alloc(st.proxy_moved_an(node, 8), false, 1, "proxy_moved", mine);
            bool use_try = st.composable();
            int  k       = round; // rotates which release member meets which allocation
            while (!mine.empty())
            {
                Live l = mine.back();
                mine.pop_back();
                log_free(l);
                int how = k++ % 3;
                if (use_try && how == 0)
                    l.array ? (void)st.tda(l.p, l.n, node, 8) : (void)st.tdn(l.p, node, 8);
                else if (!l.array && how == 1)
                    st.proxy_dn(l.p, node, 8);
                else
                    l.array ? st.da(l.p, l.n, node, 8) : st.dn(l.p, node, 8);
            }
        }
    }

    void stress(IStore& st, int threads, int ops, unsigned seed)
    {
        std::vector<std::thread> ts;
        for (int t = 1; t <= threads; ++t)
            ts.emplace_back(
                [&, t]
                {
                    t_id = t;
                    std::mt19937      rng(seed * 977u + static_cast<unsigned>(t));
                    std::vector<Live> mine;
                    for (int i = 0; i < ops; ++i)
                    {
                        unsigned r = rng() % 100;
                        if (r < 50 || mine.empty())
                        {
                            unsigned k = rng() % 10;
                            if (k < 5)
                                log_alloc(st.an(node, 8), false, 1, "an", mine);
                            else if (k < 7)
                                log_alloc(st.aa(2, node, 8), true, 2, "aa", mine);
                            else if (k < 8 && st.composable())
                                log_alloc(st.tn(node, 8), false, 1, "tn", mine);
                            else if (k < 9)
                                log_alloc(rng() % 2 ? st.proxy_an(node, 8) : st.proxy_moved_an(node, 8), false, 1, "proxy", mine);
                            else
                                st.queries();
                        }
                        else
                        {
                            std::size_t k = rng() % mine.size();
                            Live        l = mine[k];
                            mine.erase(mine.begin() + static_cast<long>(k));
                            log_free(l);
                            if (l.array)
                                st.da(l.p, l.n, node, 8);
                            else if (st.composable() && rng() % 4 == 0)
                                (void)st.tdn(l.p, node, 8);
                            else
                                st.dn(l.p, node, 8);
                        }
                    }
                    for (auto& l : mine)
                    {
                        log_free(l);
                        l.array ? st.da(l.p, l.n, node, 8) : st.dn(l.p, node, 8);
                    }
                });
        for (auto& t : ts)
            t.join();
    }

    // stateless low-level allocators hammered without any lock: the process-wide leak counter must
    // come out at zero (no leak report at exit)
    template <class A>
    void lowlevel_stress(int threads, int ops)
    {
        std::vector<std::thread> ts;
        for (int t = 1; t <= threads; ++t)
            ts.emplace_back(
                [ops]
                {
                    A                  a;
                    std::vector<void*> mine;
                    // the size queries are part of "safe to use concurrently as they are"
                    using traits = fm::allocator_traits<A>;
                    volatile std::size_t sink = traits::max_node_size(a) + traits::max_array_size(a) + traits::max_alignment(a);
                    (void)sink;
                    for (int i = 0; i < ops; ++i)
                    {
                        mine.push_back(a.allocate_node(24, 8));
                        if (mine.size() > 8)
                        {
                            a.deallocate_node(mine.front(), 24, 8);
                            mine.erase(mine.begin());
                        }
                    }
                    for (auto p : mine)
                        a.deallocate_node(p, 24, 8);
                });
        for (auto& t : ts)
            t.join();
    }

    void run_exec(const Exec& x)
    {
        std::string kind = x.str("store", "direct");
        std::string mode = x.str("mode", "single");
        int         T    = static_cast<int>(x.num("threads", 4));
        int         M    = static_cast<int>(x.num("ops", 200));
        // obs: the mutex of the storage is the harness' instrumented one (its lock / unlock are events)
        Ev("tcfg").s("store", kind).s("mode", mode).i("threads", T).i("ops", M).b(
            "stateful", kind != "stateless" && kind.rfind("low", 0) != 0).b("obs", kind != "factory");
        if (kind.rfind("low", 0) == 0)
        {
            // child of the child: static destructors (the global leak report) run at exit()
            std::fflush(nullptr);
            if (kind == "low_heap")
                lowlevel_stress<fm::heap_allocator>(T, M);
            else if (kind == "low_malloc")
                lowlevel_stress<fm::malloc_allocator>(T, M);
            else
                lowlevel_stress<fm::new_allocator>(T, M);
            Ev("tend").i("x", 0);
            std::exit(0); // run static destructors: a non-zero net is reported through the leak handler
        }
        inner_pool              pool(node, inner_pool::min_block_size(node, 64));
        tleaf                   leaf(pool);
        std::unique_ptr<IStore> st;
        if (kind == "direct")
            st.reset(new Store<fm::allocator_storage<fm::direct_storage<tleaf>, imutex>>(tleaf(pool)));
        else if (kind == "ref")
            st.reset(new Store<fm::allocator_storage<fm::reference_storage<tleaf>, imutex>>(leaf));
        else if (kind == "anyref")
            st.reset(new Store<fm::allocator_storage<fm::any_reference_storage, imutex>>(leaf));
        else if (kind == "stateless")
            st.reset(new Store<fm::allocator_storage<fm::direct_storage<sleaf>, imutex>>(sleaf{}));
        else if (kind == "emptystateful")
            st.reset(new Store<fm::allocator_storage<fm::direct_storage<esleaf>, imutex>>(esleaf{}));
        // what the factory functions build (whatever type that is): with the instrumented mutex, and with the
        // library's default mutex, whose locking shows only in what happens inside the leaf
        else if (kind == "factory_m")
            st.reset(new Store<decltype(fm::make_thread_safe_allocator<imutex>(tleaf(pool)))>(
                fm::make_thread_safe_allocator<imutex>(tleaf(pool))));
        else if (kind == "factory")
            st.reset(new Store<decltype(fm::make_thread_safe_allocator(tleaf(pool)))>(
                fm::make_thread_safe_allocator(tleaf(pool))));
        else
        {
            Ev("badcmd").s("op", kind);
            return;
        }
        if (mode == "single")
            single_pass(*st);
        else
            stress(*st, T, M, static_cast<unsigned>(x.num("seed", 1)));
        st.reset();
        Ev("tend").i("x", 0);
    }
} // namespace

int main(int argc, char** argv)
{
    if (argc < 3)
    {
        std::fprintf(stderr, "usage: threads <script> <trace-out>\n");
        return 2;
    }
    auto execs = load_script(argv[1]);
    int  fd    = ::open(argv[2], O_WRONLY | O_CREAT | O_APPEND, 0644);
    if (fd < 0)
        return 2;
    trace_fd() = fd;
    install_handlers();
    emit_cfg("threads");
    long xn = 0;
    for (auto& x : execs)
    {
        Ev("x").i("n", xn++).s("hdr", x.header).emit();
        run_child([&] { run_exec(x); }, 60);
    }
    return 0;
}
