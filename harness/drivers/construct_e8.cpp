// verif driver "construct": instantiation for Elem<8, 8>
#include "construct_typed.hpp"
namespace vc
{
    ITyped* make_typed_e8()
    {
        return new Typed<Elem<8, 8>>();
    }
} // namespace vc
