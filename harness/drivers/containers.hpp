// verif driver "containers" (C10): shared declarations.
#ifndef VERIF_CONTAINERS_HPP
#define VERIF_CONTAINERS_HPP
#include <cstddef>
#include <cstdint>
#include <functional>
#include <map>
#include <memory>
#include <string>

#include <foonathan/memory/container.hpp>
#include <foonathan/memory/std_allocator.hpp>

#include <verif/observe.hpp>
#include <verif/script.hpp>

namespace vc
{
    namespace fm = foonathan::memory;
    using verif::Ev;

    // ---- instrumented stateful RawAllocator: identity = the object (tag), not the type ---------------
    struct Shape
    {
        bool        array;
        std::size_t n, sz, al;
        int         blk;
    };
    struct vleaf
    {
        using is_stateful = std::true_type;
        int                    tag;
        std::map<void*, Shape> live;
        std::size_t            max_node_req = 0; // largest single node request seen
        explicit vleaf(int t) : tag(t) {}
        vleaf(const vleaf&)            = delete;
        vleaf& operator=(const vleaf&) = delete;

        void  log(const char* op, std::size_t n, std::size_t sz, std::size_t al, const char* r, const void* p);
        void* take(bool array, std::size_t n, std::size_t sz, std::size_t al, const char* op);
        void  give(void* p, bool array, std::size_t n, std::size_t sz, std::size_t al, const char* op);

        void* allocate_node(std::size_t sz, std::size_t al)
        {
            if (sz > max_node_req)
                max_node_req = sz;
            return take(false, 1, sz, al, "an");
        }
        void* allocate_array(std::size_t n, std::size_t sz, std::size_t al)
        {
            return take(true, n, sz, al, "aa");
        }
        void deallocate_node(void* p, std::size_t sz, std::size_t al) noexcept
        {
            give(p, false, 1, sz, al, "dn");
        }
        void deallocate_array(void* p, std::size_t n, std::size_t sz, std::size_t al) noexcept
        {
            give(p, true, n, sz, al, "da");
        }
    };
    vleaf* leaf_by_tag(int tag);

    // the same allocator with user-specialised propagation traits: containers keep their allocator on
    // copy and move assignment and exchange it on swap
    struct vleaf_np : vleaf
    {
        using vleaf::vleaf;
    };
    vleaf_np* np_leaf_by_tag(int tag);
    template <class Leaf>
    Leaf& leaf_ref(int tag);
    template <>
    inline vleaf& leaf_ref<vleaf>(int tag)
    {
        return *leaf_by_tag(tag);
    }
    template <>
    inline vleaf_np& leaf_ref<vleaf_np>(int tag)
    {
        return *np_leaf_by_tag(tag);
    }

    // ---- element type: Size bytes, alignment Align, value in the first bytes -------------------
    template <std::size_t Size, std::size_t Align>
    struct alignas(Align) E
    {
        unsigned char b[Size];
        E()
        {
            set(0);
        }
        E(int v)
        {
            set(v);
        }
        void set(int v)
        {
            for (std::size_t i = 0; i < Size; ++i)
                b[i] = static_cast<unsigned char>((v >> (8 * (i % 4))) & 0xff);
        }
        // the value as far as it fits into the element
        long key() const
        {
            long v = 0;
            for (std::size_t i = 0; i < Size && i < 4; ++i)
                v |= static_cast<long>(b[i]) << (8 * i);
            return v;
        }
        friend bool operator<(const E& a, const E& c)
        {
            return a.key() < c.key();
        }
        friend bool operator==(const E& a, const E& c)
        {
            return a.key() == c.key();
        }
    };
    static_assert(sizeof(E<3, 1>) == 3 && sizeof(E<17, 1>) == 17 && alignof(E<32, 16>) == 16, "");

    struct IBoxSet // three container slots of one container kind / element type
    {
        virtual ~IBoxSet()                               = default;
        virtual void        make(int slot, int tag)      = 0; // fresh empty container bound to leaf tag
        virtual void        ins(int slot, int k, int& v) = 0;
        virtual void        era(int slot)                = 0;
        virtual void        clr(int slot)                = 0;
        virtual void        cpy(int from, int to)        = 0; // copy construction
        virtual void        mov(int from, int to)        = 0; // move construction
        virtual void        cas(int from, int to)        = 0; // copy assignment
        virtual void        mas(int from, int to)        = 0; // move assignment
        virtual void        swp(int a, int c)            = 0;
        virtual bool        spl(int from, int to)        = 0; // splice (lists), false if unsupported
        virtual void        del(int slot)                = 0;
        virtual bool        has(int slot)                = 0;
        virtual int         bound(int slot)              = 0; // tag of the leaf get_allocator() refers to
        virtual long        size(int slot)               = 0;
        virtual bool        twin_ok(int slot)            = 0; // same contents as the std::allocator twin
        virtual int         eq(int a, int c)             = 0; // get_allocator() == get_allocator()
        virtual std::size_t node_constant()              = 0; // the library's X_node_size<T>::value (0 = none)
        virtual int         propagation()                = 0; // bit0 copy assignment, bit1 move assignment, bit2 swap (as the allocator's traits declare)
    };

    using Factory = std::function<IBoxSet*()>;
    std::map<std::string, Factory>& registry();
    struct Reg
    {
        Reg(const std::string& name, Factory f)
        {
            registry()[name] = std::move(f);
        }
    };
} // namespace vc

namespace foonathan
{
    namespace memory
    {
        template <>
        struct propagation_traits<vc::vleaf_np>
        {
            using propagate_on_container_swap            = std::true_type;
            using propagate_on_container_move_assignment = std::false_type;
            using propagate_on_container_copy_assignment = std::false_type;
            template <class AllocReference>
            static AllocReference select_on_container_copy_construction(const AllocReference& alloc)
            {
                return alloc;
            }
        };
    } // namespace memory
} // namespace foonathan
#endif
