// verif driver "temp": temporary_allocator / temporary stack list (C14).
// Managed threads execute API-level steps one at a time (sequential steps) or concurrently under a
// seeded scheduler that switches threads at the verification hook points inside the stack list
// (every access to its atomics).  Records; does not judge.
//   usage: temp <script> <trace-out>
#include <condition_variable>
#include <cstdio>
#include <cstdlib>
#include <fcntl.h>
#include <map>
#include <memory>
#include <mutex>
#include <random>
#include <string>
#include <thread>
#include <vector>

#include <foonathan/memory/temporary_allocator.hpp>

#include <verif/child.hpp>
#include <verif/observe.hpp>
#include <verif/script.hpp>

using namespace verif;

#if FOONATHAN_MEMORY_TEMPORARY_STACK_MODE >= 1
namespace
{
    constexpr int max_threads = 8;
    thread_local int t_id = -1; // trivially destructible: valid during TLS destruction

    struct Sched
    {
        std::mutex              m;
        std::condition_variable cv;
        bool                    fine = false; // switch threads at hook points
        int                     turn = -1;    // thread allowed to run in fine mode
        std::vector<int>        active;       // threads in the middle of an op (fine mode)
        std::mt19937            rng;
        long                    switches = 0, points = 0;
    } g_s;

    std::mutex g_log; // order of the log; never held across a library call
    bool       g_at_enabled = false; // atomic-step events: set in the child that runs an execution, never in the parent

    // pick who runs next among the active threads
    void pick_locked()
    {
        if (g_s.active.empty())
            g_s.turn = -1;
        else
            g_s.turn = g_s.active[g_s.rng() % g_s.active.size()];
        g_s.cv.notify_all();
    }

    void yield_point(int kind)
    {
        if (t_id < 0)
            return;
        std::unique_lock<std::mutex> l(g_s.m);
        if (!g_s.fine)
            return;
        ++g_s.points;
        (void)kind;
        int before = g_s.turn;
        pick_locked();
        if (g_s.turn != before)
            ++g_s.switches;
        g_s.cv.wait(l, [&] { return !g_s.fine || g_s.turn == t_id; });
    }

    void op_begin()
    {
        std::unique_lock<std::mutex> l(g_s.m);
        if (!g_s.fine)
            return;
        g_s.cv.wait(l, [&] { return !g_s.fine || g_s.turn == t_id; });
    }
    void op_end()
    {
        std::unique_lock<std::mutex> l(g_s.m);
        if (!g_s.fine)
            return;
        for (auto it = g_s.active.begin(); it != g_s.active.end(); ++it)
            if (*it == t_id)
            {
                g_s.active.erase(it);
                break;
            }
        pick_locked();
    }

    // ---- stack identities -------------------------------------------------------------------
    std::vector<const void*> g_stacks;
    int stack_id(const void* s, bool& fresh)
    {
        for (std::size_t i = 0; i < g_stacks.size(); ++i)
            if (g_stacks[i] == s)
            {
                fresh = false;
                return static_cast<int>(i);
            }
        g_stacks.push_back(s);
        fresh = true;
        return static_cast<int>(g_stacks.size()) - 1;
    }

    // ---- per-thread state and the op interpreter ------------------------------------------------
    struct Alloc
    {
        int         id;
        void*       p;
        std::size_t len;
        int         depth;
    };
    std::atomic<int> g_next_id{0};

    struct Worker
    {
        int                     id;
        std::thread             th;
        std::mutex              m;
        std::condition_variable cv;
        std::vector<Cmd>        queue;
        bool                    quit = false, busy = false, exited = false;
    };
    Worker g_w[max_threads];

    struct Sentinel
    {
        // constructed first in each managed thread, hence destroyed last: the thread is gone
        ~Sentinel()
        {
            {
                std::lock_guard<std::mutex> g(g_log);
                Ev("tls_done").i("t", t_id);
            }
            op_end();
            Worker&                     w = g_w[t_id];
            std::lock_guard<std::mutex> l(w.m);
            w.exited = true;
            w.busy   = false;
            w.cv.notify_all();
        }
    };

    // where the next byte of the stack would come from (a nested scope that is closed again)
    void* probe(fm::temporary_stack& s)
    {
        fm::temporary_allocator a(s);
        return a.allocate(1, 1);
    }

    void do_op(const Cmd& c, std::vector<std::unique_ptr<fm::temporary_allocator>>& scopes,
               std::vector<void*>& marks, std::vector<Alloc>& allocs,
               std::unique_ptr<fm::temporary_stack_initializer>& init)
    {
        const std::string& op = c.raw[1];
        if (op == "get")
        {
            auto& s = fm::get_temporary_stack();
            std::lock_guard<std::mutex> g(g_log);
            bool fresh;
            int  sid = stack_id(&s, fresh);
            Ev("got").i("t", t_id).i("s", sid).b("fresh", fresh).s("via", "get");
        }
        else if (op == "init")
        {
            init.reset(new fm::temporary_stack_initializer());
            auto& s = fm::get_temporary_stack();
            std::lock_guard<std::mutex> g(g_log);
            bool fresh;
            int  sid = stack_id(&s, fresh);
            Ev("got").i("t", t_id).i("s", sid).b("fresh", fresh).s("via", "init");
        }
        else if (op == "uninit")
        {
            if (!init)
                return;
            {
                std::lock_guard<std::mutex> g(g_log);
                Ev("release").i("t", t_id).s("via", "uninit"); // logged before the stack is marked free
            }
            init.reset();
        }
        else if (op == "push")
        {
            auto& s = fm::get_temporary_stack();
            marks.push_back(probe(s));
            scopes.emplace_back(new fm::temporary_allocator(s));
            std::lock_guard<std::mutex> g(g_log);
            bool fresh;
            int  sid = stack_id(&s, fresh);
            Ev("scope_begin").i("t", t_id).i("depth", static_cast<long long>(scopes.size())).i("s", sid).b("fresh", fresh);
        }
        else if (op == "alloc")
        {
            if (scopes.empty())
                return;
            std::size_t sz = static_cast<std::size_t>(c.arg(2, 16));
            std::size_t al = static_cast<std::size_t>(c.arg(3, 8));
            // mode 0: member allocate(); 1: allocator_traits node; 2: allocator_traits array of cnt elements
            long long   mode = c.arg(4, 0);
            std::size_t cnt  = static_cast<std::size_t>(c.arg(5, 1));
            void*       p  = nullptr;
            using ttraits  = fm::allocator_traits<fm::temporary_allocator>;
            std::string r  = classify(
                [&]
                {
                    if (mode == 1)
                        p = ttraits::allocate_node(*scopes.back(), sz, al);
                    else if (mode == 2)
                    {
                        p = ttraits::allocate_array(*scopes.back(), cnt, sz, al);
                        sz *= cnt; // the whole array is filled and checked
                    }
                    else
                        p = scopes.back()->allocate(sz, al);
                });
            int         id = 0;
            if (p)
            {
                id = ++g_next_id;
                pat_fill(p, sz, id);
                allocs.push_back(Alloc{id, p, sz, static_cast<int>(scopes.size())});
            }
            auto a = reinterpret_cast<std::uintptr_t>(p);
            std::lock_guard<std::mutex> g(g_log);
            Ev("talloc").i("t", t_id).i("id", id).s("r", r).i("hi", static_cast<long long>(a >> 30)).i(
                "lo", static_cast<long long>(a & ((1u << 30) - 1))).u("len", sz).u("mis", p && al ? a % al : 0).i(
                "depth", static_cast<long long>(scopes.size()));
        }
        else if (op == "check" || op == "pop")
        {
            bool        pop   = op == "pop";
            int         depth = static_cast<int>(scopes.size());
            std::size_t bad = 0, n = 0;
            std::string ids = "[";
            for (auto& a : allocs)
                if (!pop || a.depth == depth)
                {
                    long first;
                    ++n;
                    if (pat_check(a.p, a.len, a.id, &first))
                        ++bad;
                    if (pop)
                        ids += (ids.size() > 1 ? "," : "") + std::to_string(a.id);
                }
            if (!pop)
            {
                std::lock_guard<std::mutex> g(g_log);
                Ev("tcheck").i("t", t_id).u("n", n).u("bad", bad);
                return;
            }
            if (scopes.empty())
                return;
            {
                std::lock_guard<std::mutex> g(g_log);
                Ev("scope_closing").i("t", t_id).i("depth", depth).u("bad", bad).raw("ids", ids + "]");
            }
            auto& s = fm::get_temporary_stack();
            scopes.pop_back();
            bool same = probe(s) == marks.back();
            marks.pop_back();
            while (!allocs.empty() && allocs.back().depth == depth)
                allocs.pop_back();
            std::lock_guard<std::mutex> g(g_log);
            Ev("scope_end").i("t", t_id).i("depth", depth).b("same", same);
        }
    }

    void worker_main(int id)
    {
        t_id = id;
        static thread_local Sentinel sentinel;
        (void)sentinel;
        std::vector<std::unique_ptr<fm::temporary_allocator>> scopes;
        std::vector<void*>                                   marks;
        std::vector<Alloc>                                    allocs;
        std::unique_ptr<fm::temporary_stack_initializer>      init;
        Worker&                                               w = g_w[id];
        for (;;)
        {
            Cmd c;
            {
                std::unique_lock<std::mutex> l(w.m);
                w.cv.wait(l, [&] { return !w.queue.empty() || w.quit; });
                if (w.queue.empty())
                    break;
                c = w.queue.front();
                w.queue.erase(w.queue.begin());
            }
            if (c.raw[1] == "exit")
            {
                // leave scopes properly nested, then return: thread-local destructors run
                while (!scopes.empty())
                {
                    scopes.pop_back();
                }
                {
                    std::lock_guard<std::mutex> g(g_log);
                    Ev("release").i("t", t_id).s("via", "exit");
                }
                op_begin();
                return; // Sentinel destructor reports completion
            }
            op_begin();
            do_op(c, scopes, marks, allocs, init);
            op_end();
            {
                std::lock_guard<std::mutex> l(w.m);
                w.busy = false;
                w.cv.notify_all();
            }
        }
    }

    void submit(int t, const Cmd& c)
    {
        Worker& w = g_w[t];
        if (!w.th.joinable() && !w.exited)
        {
            w.id = t;
            w.th = std::thread(worker_main, t);
            std::lock_guard<std::mutex> g(g_log);
            Ev("tstart").i("t", t);
        }
        std::lock_guard<std::mutex> l(w.m);
        w.busy = true;
        w.queue.push_back(c);
        w.cv.notify_all();
    }
    void wait_idle(int t)
    {
        Worker&                      w = g_w[t];
        std::unique_lock<std::mutex> l(w.m);
        w.cv.wait(l, [&] { return !w.busy; });
    }

    void run_exec(const Exec& x)
    {
        g_s.rng.seed(static_cast<unsigned>(x.num("sched", 1)));
        g_at_enabled = true;
        Ev("tmpcfg").i("sched", x.num("sched", 0)).s("mode", "2");
        for (auto& c : x.cmds)
        {
            if (c.op == "s" && c.raw.size() >= 2)
            {
                int t = static_cast<int>(c.arg(0));
                if (t < 0 || t >= max_threads || g_w[t].exited)
                    continue;
                submit(t, c);
                wait_idle(t);
                if (c.raw[1] == "exit")
                {
                    g_w[t].th.join();
                    std::lock_guard<std::mutex> g(g_log);
                    Ev("texit").i("t", t);
                }
            }
            else if (c.op == "par")
            {
                // par t1 op1 [a b] | t2 op2 ...   (tokens separated by '|')
                std::vector<Cmd> cmds;
                Cmd              cur;
                for (std::size_t i = 0; i <= c.raw.size(); ++i)
                {
                    if (i == c.raw.size() || c.raw[i] == "|")
                    {
                        if (cur.raw.size() >= 2)
                            cmds.push_back(cur);
                        cur = Cmd();
                        continue;
                    }
                    cur.raw.push_back(c.raw[i]);
                    cur.a.push_back(std::atoll(c.raw[i].c_str()));
                }
                std::vector<int> ts;
                {
                    std::lock_guard<std::mutex> l(g_s.m);
                    g_s.fine = true;
                    g_s.active.clear();
                    for (auto& k : cmds)
                    {
                        int t = static_cast<int>(k.arg(0));
                        if (t >= 0 && t < max_threads && !g_w[t].exited)
                            g_s.active.push_back(t);
                    }
                    g_s.turn = -1;
                }
                {
                    std::lock_guard<std::mutex> g(g_log);
                    Ev("par_begin").i("n", static_cast<long long>(cmds.size()));
                }
                for (auto& k : cmds)
                {
                    int t = static_cast<int>(k.arg(0));
                    if (t < 0 || t >= max_threads || g_w[t].exited)
                        continue;
                    k.op = "s";
                    submit(t, k);
                    ts.push_back(t);
                }
                {
                    std::lock_guard<std::mutex> l(g_s.m);
                    pick_locked();
                }
                for (std::size_t i = 0; i < ts.size(); ++i)
                {
                    wait_idle(ts[i]);
                    if (cmds[i].raw[1] == "exit")
                    {
                        g_w[ts[i]].th.join();
                        std::lock_guard<std::mutex> g(g_log);
                        Ev("texit").i("t", ts[i]);
                    }
                }
                {
                    std::lock_guard<std::mutex> l(g_s.m);
                    g_s.fine = false;
                    g_s.cv.notify_all();
                }
                std::lock_guard<std::mutex> g(g_log);
                Ev("par_end").i("points", g_s.points).i("switches", g_s.switches);
            }
        }
        // finish: every thread still running exits (in order), then the process exits normally so
        // that static destructors (nifty counter, leak report) run
        for (int t = 0; t < max_threads; ++t)
            if (g_w[t].th.joinable() && !g_w[t].exited)
            {
                Cmd c;
                c.op  = "s";
                c.raw = {std::to_string(t), "exit"};
                c.a   = {t, 0};
                submit(t, c);
                wait_idle(t);
                g_w[t].th.join();
                std::lock_guard<std::mutex> g(g_log);
                Ev("texit").i("t", t);
            }
        Ev("pexit").i("stacks", static_cast<long long>(g_stacks.size()));
        std::exit(0);
    }
} // namespace

namespace
{
    // ---- atomic steps of the stack list, for the design-level trace specification TempListTrace -----
    // object numbers: 0 = the list head (the only pointer-sized atomic), h >= 1 = a stack node in the
    // order this harness first saw it.  The in_use_ flag lies behind the node's next_ pointer, a
    // temporary_stack starts with its list node.
    std::vector<const void*> g_nodes;
    thread_local bool        t_cas_head = false;
    int node_number(const void* base)
    {
        for (std::size_t i = 0; i < g_nodes.size(); ++i)
            if (g_nodes[i] == base)
                return static_cast<int>(i) + 1;
        g_nodes.push_back(base);
        return static_cast<int>(g_nodes.size());
    }
    void log_at(int kind, const void* obj, long arg)
    {
        if (!g_at_enabled)
            return;
        std::lock_guard<std::mutex> g(g_log);
        int  o = -1;
        long w = arg;
        if (kind >= 1 && kind <= 4)
        {
            bool head = arg == static_cast<long>(sizeof(void*));
            if (kind == 4)
                t_cas_head = head;
            o = head ? 0 : node_number(static_cast<const char*>(obj) - sizeof(void*));
        }
        else if (kind == 5)
            o = t_cas_head ? 0 : node_number(static_cast<const char*>(obj) - sizeof(void*));
        else if (kind == 10 || kind == 11)
        {
            o = obj ? node_number(obj) : -1;
            w = 0;
        }
        else
            w = 0;
        Ev("at").i("t", t_id).i("k", kind).i("o", o).i("w", w);
    }
} // namespace

// strong definition of the verification hook (the library provides a weak no-op)
extern "C" void foonathan_memory_verif_point(int kind, const void* obj, long arg)
{
    if (kind == 5)
    {
        // the compare-exchange has just happened: its result belongs directly behind the "about to" event
        log_at(kind, obj, arg);
        yield_point(kind);
    }
    else
    {
        // everything else takes effect right after this point: log when the thread is let through
        yield_point(kind);
        log_at(kind, obj, arg);
    }
}
#else
namespace
{
    void run_exec(const Exec&)
    {
        Ev("tmpcfg").i("sched", 0).s("mode", "0");
    }
} // namespace
#endif

int main(int argc, char** argv)
{
    if (argc < 3)
    {
        std::fprintf(stderr, "usage: temp <script> <trace-out>\n");
        return 2;
    }
    auto execs = load_script(argv[1]);
    int  fd    = ::open(argv[2], O_WRONLY | O_CREAT | O_APPEND, 0644);
    if (fd < 0)
        return 2;
    trace_fd() = fd;
    install_handlers();
    emit_cfg("temp");
    long xn = 0;
    for (auto& x : execs)
    {
        Ev("x").i("n", xn++).s("hdr", x.header).emit();
        run_child([&] { run_exec(x); }, 30);
    }
    return 0;
}
