#include <verif/subject.hpp>
namespace verif
{
    template <class PT, class BD>
    static ISubject* coll_src(const Exec& x, void* where, int src)
    {
        std::string s     = x.str("src", "grow");
        auto        maxns = static_cast<std::size_t>(x.num("ns", 64));
        auto        bs    = static_cast<std::size_t>(x.num("bs", 4096));
        if (s == "grow")
            return new CollSubj<PT, BD, src_grow>(where, src, maxns, bs);
        if (s == "fixed")
            return new CollSubj<PT, BD, src_fixed>(where, src, maxns, bs);
        if (s == "static")
            return new CollSubj<PT, BD, src_static>(where, src, maxns, bs);
        if (s == "virtual")
            return new CollSubj<PT, BD, src_virtual>(where, src, maxns, bs);
        return nullptr;
    }
    template <class PT>
    static ISubject* coll_bd(const Exec& x, void* where, int src)
    {
        if (x.str("bd", "identity") == "log2")
            return coll_src<PT, fm::log2_buckets>(x, where, src);
        return coll_src<PT, fm::identity_buckets>(x, where, src);
    }
    ISubject* make_coll(const Exec& x, void* where, int src)
    {
        std::string t = x.str("type", "node");
        if (t == "node")
            return coll_bd<fm::node_pool>(x, where, src);
        if (t == "array")
            return coll_bd<fm::array_pool>(x, where, src);
        if (t == "small")
            return coll_bd<fm::small_node_pool>(x, where, src);
        return nullptr;
    }
} // namespace verif
