// verif driver "construct": instantiation for Elem<3, 1>
#include "construct_typed.hpp"
namespace vc
{
    ITyped* make_typed_e3()
    {
        return new Typed<Elem<3, 1>>();
    }
} // namespace vc
