// verif driver "construct": instantiation for Elem<8, 8, true> (noexcept constructors)
#include "construct_typed.hpp"
namespace vc
{
    ITyped* make_typed_e8n()
    {
        return new Typed<Elem<8, 8, true>>();
    }
} // namespace vc
