// verif driver "construct": object-creating helpers (allocate_unique, allocate_unique<T[]>,
// allocate_shared, joint_ptr creation, clone_joint, joint_array constructors) with a constructor
// failure injected at a chosen construction, and joint allocations (pieces inside the single
// block, release parameters). It records; it does not judge.
//   usage: construct <script> <trace-out> [first-exec-number]
// One execution = one scenario:
//   X alloc=leaf|pool|stack et=e1|e3|e4|e8|e12|e16 skew=<0/1 pattern>
//   followed by commands (see construct_typed.hpp).
#include <cstdio>
#include <cstring>
#include <fcntl.h>

#include <foonathan/memory/memory_pool.hpp>
#include <foonathan/memory/memory_stack.hpp>

#include <verif/child.hpp>

#include "construct.hpp"

namespace vc
{
    Globals& G()
    {
        static Globals g;
        return g;
    }

    static void proj(const void* p, long& blk, long& off)
    {
        world().project(p, blk, off);
        if (blk == -1)
            off = 0; // not in any block of the world (driver-owned storage): the address means nothing
    }

    void elem_construct(const void* self, const char* kind, const void* src, std::size_t sz)
    {
        Globals& g = G();
        long     blk, off;
        proj(self, blk, off);
        if (g.countdown > 0 && --g.countdown == 0)
        {
            int id = g.next_inj++;
            Ev("throwpt").s("k", kind).i("id", id).i("b", blk).i("off", off).emit();
            throw verif_injected{id, injected_magic};
        }
        int  serial = g.next_serial++;
        auto it     = g.elems.find(self);
        int  dup    = it == g.elems.end() ? -1 : it->second;
        int  srcid  = -1;
        if (src)
        {
            auto s = g.elems.find(src);
            srcid  = s == g.elems.end() ? -2 : s->second;
        }
        g.elems[self] = serial;
        Ev("ctor").s("k", kind).i("id", serial).i("src", srcid).i("dup", dup).i("b", blk).i("off", off).u(
            "sz", sz);
    }

    void elem_construct_nt(const void* self, const char* kind, const void* src, std::size_t sz) noexcept
    {
        Globals& g    = G();
        long     keep = g.countdown;
        g.countdown   = 0; // this element type cannot throw
        elem_construct(self, kind, src, sz);
        g.countdown = keep;
    }

    void elem_destroy(const void* self, bool intact) noexcept
    {
        Globals& g  = G();
        auto     it = g.elems.find(self);
        int      id = -1;
        if (it != g.elems.end())
        {
            id = it->second;
            g.elems.erase(it);
        }
        long blk, off;
        proj(self, blk, off);
        Ev("dtor").i("id", id).i("b", blk).i("off", off).b("intact", intact);
    }

    int elem_serial(const void* self)
    {
        auto it = G().elems.find(self);
        return it == G().elems.end() ? -1 : it->second;
    }

    // ---- joint object registration ---------------------------------------------------------------
    JReg::JReg(const void* obj, std::size_t osz, std::size_t oal, int copyof, std::size_t cap)
    {
        Globals& g = G();
        id         = g.next_j++;
        g.jobjs[obj] = id;
        long blk, off;
        proj(obj, blk, off);
        Ev("jctor")
            .i("j", id)
            .i("copyof", copyof)
            .i("b", blk)
            .i("off", off)
            .u("osz", osz)
            .u("oal", oal)
            .u("omis", reinterpret_cast<std::uintptr_t>(obj) % oal)
            .u("cap", cap);
    }
    JReg::~JReg()
    {
        Globals& g = G();
        for (auto it = g.jobjs.begin(); it != g.jobjs.end(); ++it)
            if (it->second == id)
            {
                g.jobjs.erase(it);
                break;
            }
        Ev("jdtor").i("j", id);
    }
    int joint_serial(const void* obj)
    {
        if (!obj)
            return -1;
        auto it = G().jobjs.find(obj);
        return it == G().jobjs.end() ? -2 : it->second;
    }

    // ---- backends -----------------------------------------------------------------------------------
    namespace
    {
        // instrumented leaf: every allocation is its own numbered block with guard zones; the base
        // is aligned to the requested alignment and is an even (skew 0) or odd (skew 1) multiple of it
        struct LeafBackend : Backend
        {
            std::string skew;
            std::size_t count = 0;
            int         src;
            explicit LeafBackend(const std::string& s) : skew(s.empty() ? "1" : s), src(world().next_src++)
            {
            }

            void* place(std::size_t size, std::size_t al)
            {
                World& w = world();
                if (al == 0)
                    al = 1;
                bool odd = skew[count++ % skew.size()] != '0';
                auto a   = reinterpret_cast<std::uintptr_t>(w.cur) + 64;
                a        = World::up_to(a, 2 * al);
                if (odd)
                    a += al;
                char* base = reinterpret_cast<char*>(a);
                if (base + size + 64 > w.end)
                    std::abort();
                std::size_t gap = static_cast<std::size_t>(base - w.cur);
                // the zone behind the previous block is about to be filled again: count what was written there
                if (w.taken_before)
                    for (std::size_t i = 0; i < 64 && i < gap; ++i)
                        if (static_cast<unsigned char>(w.cur[i]) != World::guard_byte)
                            ++w.healed_damage;
                w.taken_before = true;
                std::memset(w.cur, World::guard_byte, gap);
                w.cur = base + size;
                std::memset(w.cur, World::guard_byte, 64);
                int id = w.add_block(base, size, al, src, false, gap);
                ++w.up_calls;
                ++w.up_allocs;
                Ev("ua")
                    .i("s", src)
                    .i("b", id)
                    .u("sz", size)
                    .u("al", al)
                    .u("mis", reinterpret_cast<std::uintptr_t>(base) % al)
                    .u("gap", gap)
                    .b("st", false).b("out", false)
                    .u("m16", reinterpret_cast<std::uintptr_t>(base) % 16);
                return base;
            }
            std::size_t next_base_mod(std::size_t al) const override
            {
                return skew[count % skew.size()] != '0' ? al : 0;
            }
            void* an(std::size_t size, std::size_t al) override
            {
                return place(size, al);
            }
            void* aa(std::size_t n, std::size_t size, std::size_t al) override
            {
                return place(n * size, al);
            }
            void dn(void* p, std::size_t size, std::size_t al) noexcept override
            {
                raw_up(src).deallocate_node(p, size, al); // logs "uf", retires the block
            }
            void da(void* p, std::size_t n, std::size_t size, std::size_t al) noexcept override
            {
                raw_up(src).deallocate_node(p, n * size, al);
            }
        };

        template <class A>
        struct RealBackend : Backend
        {
            using traits = fm::allocator_traits<A>;
            A a;
            template <typename... Args>
            explicit RealBackend(Args&&... args) : a(static_cast<Args&&>(args)...)
            {
            }
            void* an(std::size_t size, std::size_t al) override
            {
                return traits::allocate_node(a, size, al);
            }
            void* aa(std::size_t n, std::size_t size, std::size_t al) override
            {
                return traits::allocate_array(a, n, size, al);
            }
            void dn(void* p, std::size_t size, std::size_t al) noexcept override
            {
                traits::deallocate_node(a, p, size, al);
            }
            void da(void* p, std::size_t n, std::size_t size, std::size_t al) noexcept override
            {
                traits::deallocate_array(a, p, n, size, al);
            }
        };
    } // namespace

    Backend* make_backend(const std::string& kind, const std::string& skew)
    {
        if (kind == "leaf")
            return new LeafBackend(skew);
        if (kind == "pool")
            return new RealBackend<fm::memory_pool<fm::array_pool, raw_up>>(std::size_t(1024),
                                                                          std::size_t(48 * 1024),
                                                                          raw_up());
        if (kind == "stack")
            return new RealBackend<fm::memory_stack<raw_up>>(std::size_t(32 * 1024), raw_up());
        return nullptr;
    }

    // ---- LogAlloc ---------------------------------------------------------------------------------------
    void* LogAlloc::alloc(char kind, std::size_t n, std::size_t size, std::size_t al)
    {
        void* p  = nullptr;
        int   id = next_id()++;
        char  ks[2] = {kind, 0};
        try
        {
            p = kind == 'n' ? be_->an(size, al) : be_->aa(n, size, al);
        }
        catch (...)
        {
            Ev("la").i("id", id).s("k", ks).u("n", n).u("sz", size).u("al", al).s("r", "throw").i("b", -1).i(
                "off", 0).u("len", n * size).u("mis", 0);
            throw;
        }
        long blk = -1, off = 0;
        if (p)
            proj(p, blk, off);
        live_[p] = LiveAlloc{id, kind, n, size, al};
        Ev("la")
            .i("id", id)
            .s("k", ks)
            .u("n", n)
            .u("sz", size)
            .u("al", al)
            .s("r", p ? "ok" : "null")
            .i("b", blk)
            .i("off", off)
            .u("len", n * size)
            .u("mis", p && al ? reinterpret_cast<std::uintptr_t>(p) % al : 0);
        return p;
    }

    void LogAlloc::dealloc(char kind, void* p, std::size_t n, std::size_t size, std::size_t al) noexcept
    {
        auto it = live_.find(p);
        int       id = -1;
        LiveAlloc rec{-1, kind, n, size, al};
        if (it != live_.end())
        {
            rec = it->second;
            id  = rec.id;
            live_.erase(it);
        }
        long blk, off;
        proj(p, blk, off);
        char ks[2] = {kind, 0};
        Ev("lf").i("id", id).s("k", ks).u("n", n).u("sz", size).u("al", al).i("b", blk).i("off", off).emit();
        // The backend gets the block back with the parameters it was obtained with (what the caller
        // passed is in the event above), so a wrong release cannot corrupt a real allocator; an
        // unknown pointer is never handed on.
        if (id >= 0)
        {
            if (rec.kind == 'n')
                be_->dn(p, rec.sz, rec.al);
            else
                be_->da(p, rec.n, rec.sz, rec.al);
        }
    }

    LogAlloc*& slog_target()
    {
        static LogAlloc* t = nullptr;
        return t;
    }
    void* SLog::allocate_node(std::size_t size, std::size_t alignment)
    {
        return slog_target()->allocate_node(size, alignment);
    }
    void SLog::deallocate_node(void* p, std::size_t size, std::size_t alignment) noexcept
    {
        slog_target()->deallocate_node(p, size, alignment);
    }

    void* LogAlloc::allocate_node(std::size_t size, std::size_t alignment)
    {
        return alloc('n', 1, size, alignment);
    }
    void* LogAlloc::allocate_array(std::size_t count, std::size_t size, std::size_t alignment)
    {
        return alloc('a', count, size, alignment);
    }
    void LogAlloc::deallocate_node(void* p, std::size_t size, std::size_t alignment) noexcept
    {
        dealloc('n', p, 1, size, alignment);
    }
    void LogAlloc::deallocate_array(void* p, std::size_t count, std::size_t size,
                                    std::size_t alignment) noexcept
    {
        dealloc('a', p, count, size, alignment);
    }

    // ---- call / ret ---------------------------------------------------------------------------------------
    void emit_call(long c, const char* op, long s, long s2, long form, long n, long k, long add)
    {
        Ev("call").i("c", c).s("op", op).i("s", s).i("s2", s2).i("form", form).i("n", n).i("k", k).i("add",
                                                                                                 add);
    }
    void emit_ret(long c, const char* op, const Ret& rt)
    {
        Ev("op")
            .i("c", c)
            .s("op", op)
            .s("r", rt.r)
            .i("inj", rt.inj)
            .i("cnt", rt.cnt)
            .i("j", rt.j)
            .i("g1", rt.g1)
            .i("g2", rt.g2)
            .i("cl0", rt.cl0)
            .i("cl1", rt.cl1)
            .i("vs0", rt.vs0)
            .i("vs1", rt.vs1);
    }

    namespace
    {
        std::size_t guard_damage()
        {
            std::size_t gd = world().healed_damage;
            for (auto& b : world().blocks)
            {
                if (b.is_static || !b.guarded)
                    continue;
                gd += count_not(b.base - b.gap, b.gap, World::guard_byte);
                gd += count_not(b.base + b.size, b.tail, World::guard_byte);
            }
            return gd;
        }

        // commands that do not depend on the element type
        bool generic_cmd(Ctx& cx, const Cmd& c)
        {
            if (c.op == "ualloc")
            {
                // the following creating commands use the k-th allocator OBJECT (same backend): what is
                // created with one must come back to that one, whatever moves and swaps happen in between
                cx.alloc = cx.allocs[c.arg(0, 0) != 0 ? 1 : 0];
                return true;
            }
            if (c.op == "use")
            {
                // a plain valid request on the allocator (C20 "allocator remains usable")
                std::size_t sz = static_cast<std::size_t>(c.arg(0, 24));
                std::size_t al = static_cast<std::size_t>(c.arg(1, 8));
                emit_call(cx.c, "use", -1, -1, -1, static_cast<long>(sz), 0, -1);
                Ret rt;
                guarded(rt, 0,
                        [&]
                        {
                            void* p = cx.alloc->allocate_node(sz, al);
                            if (!p)
                                rt.r = "null";
                            else
                                cx.alloc->deallocate_node(p, sz, al);
                        });
                emit_ret(cx.c, "use", rt);
                return true;
            }
            auto slot = [&](std::size_t i) -> Holder*
            {
                long s = static_cast<long>(c.arg(i, -1));
                if (s < 0 || s >= static_cast<long>(cx.slots.size()))
                    return nullptr;
                return cx.slots[static_cast<std::size_t>(s)].get();
            };
            if (c.op == "reset" || c.op == "drop")
            {
                Holder* h = slot(0);
                emit_call(cx.c, c.op.c_str(), c.arg(0, -1), -1, -1, -1, 0, -1);
                Ret rt;
                if (!h)
                    rt.r = "empty";
                else if (c.op == "reset")
                {
                    h->reset();
                    rt.g1 = h->owner_j();
                }
                else
                {
                    cx.slots[static_cast<std::size_t>(c.arg(0))].reset();
                    rt.g1 = -1;
                }
                emit_ret(cx.c, c.op.c_str(), rt);
                return true;
            }
            if (c.op == "movec")
            {
                Holder* h = slot(0);
                long    s2 = static_cast<long>(cx.slots.size());
                emit_call(cx.c, "movec", c.arg(0, -1), s2, -1, -1, 0, -1);
                Ret rt;
                if (!h)
                {
                    rt.r = "empty";
                    cx.slots.emplace_back();
                }
                else
                {
                    cx.slots.emplace_back(h->move_construct());
                    rt.g1 = h->owner_j();
                    rt.g2 = cx.slots.back()->owner_j();
                }
                emit_ret(cx.c, "movec", rt);
                return true;
            }
            if (c.op == "movea" || c.op == "swap")
            {
                Holder* a = slot(0);
                Holder* b = slot(1);
                emit_call(cx.c, c.op.c_str(), c.arg(0, -1), c.arg(1, -1), -1, -1, 0, -1);
                Ret rt;
                if (!a || !b || a == b)
                    rt.r = "empty";
                else
                {
                    bool done = c.op == "movea" ? a->move_assign(*b) : a->swap_with(*b);
                    if (!done)
                        rt.r = "kind";
                    rt.g1 = a->owner_j();
                    rt.g2 = b->owner_j();
                }
                emit_ret(cx.c, c.op.c_str(), rt);
                return true;
            }
            return false;
        }

        void run_exec(const Exec& x)
        {
            std::string kind = x.str("alloc", "leaf");
            std::string et   = x.str("et", "e4");
            std::unique_ptr<Backend> be(make_backend(kind, x.str("skew", "1")));
            std::unique_ptr<ITyped>  typed(et == "e1"    ? make_typed_e1() :
                                           et == "e3"    ? make_typed_e3() :
                                           et == "e4"    ? make_typed_e4() :
                                           et == "e8"    ? make_typed_e8() :
                                           et == "e12"   ? make_typed_e12() :
                                           et == "e16"   ? make_typed_e16() :
                                           et == "e8n"   ? make_typed_e8n() :
                                                           nullptr);
            if (!be || !typed)
            {
                Ev("badcmd").s("op", "header");
                return;
            }
            {
                LogAlloc alloc(be.get()), alloc2(be.get());
                Ctx      cx;
                cx.alloc     = &alloc;
                cx.allocs[0] = &alloc;
                slog_target() = &alloc;
                cx.allocs[1] = &alloc2;
                for (auto& c : x.cmds)
                {
                    if (!generic_cmd(cx, c) && !typed->cmd(cx, c))
                        Ev("badcmd").s("op", c.op);
                    ++cx.c;
                }
                // destroy whatever the script left, youngest first; each one is an ordinary "drop"
                for (int rank = 0; rank < 2; ++rank)
                for (std::size_t i = cx.slots.size(); i-- > 0;)
                    if (cx.slots[i] && cx.slots[i]->rank() == rank)
                    {
                        Cmd d;
                        d.op = "drop";
                        d.a.push_back(static_cast<long long>(i));
                        generic_cmd(cx, d);
                        ++cx.c;
                    }
            }
            Ev("fin")
                .i("elive", static_cast<long long>(G().elems.size()))
                .i("jlive", static_cast<long long>(G().jobjs.size()))
                .u("gd", guard_damage());
            be.reset(); // real allocators return their arena now
            Ev("end").i("blocks", static_cast<long long>(world().blocks.size()));
        }
    } // namespace
} // namespace vc

int main(int argc, char** argv)
{
    using namespace verif;
    if (argc < 3)
    {
        std::fprintf(stderr, "usage: construct <script> <trace-out> [first-exec-number]\n");
        return 2;
    }
    auto execs = load_script(argv[1]);
    int  fd    = ::open(argv[2], O_WRONLY | O_CREAT | O_APPEND, 0644);
    if (fd < 0)
        return 2;
    trace_fd() = fd;
    long xn    = argc > 3 ? std::atol(argv[3]) : 0;
    install_handlers();
    emit_cfg("construct");
    for (auto& x : execs)
    {
        Ev("x").i("n", xn++).s("hdr", x.header).emit();
        run_child(
            [&]
            {
                world().init();
                vc::run_exec(x);
            });
    }
    return 0;
}
