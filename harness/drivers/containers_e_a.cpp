#include "containers_box.hpp"
namespace vc {
using E1_1 = E<1,1>;
VC_REGISTER_ELEM(E1_1, E1_1)
using E2_2 = E<2,2>;
VC_REGISTER_ELEM(E2_2, E2_2)
using E3_1 = E<3,1>;
VC_REGISTER_ELEM(E3_1, E3_1)
}
namespace vc
{
    static Reg r_string("string:char", [] {
        return new BoxSet<std::basic_string<char, std::char_traits<char>, SA<char>>, std::string, kind_string, 0>();
    });
}
