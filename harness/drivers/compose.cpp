// verif driver "compose": wrapper / adapter compositions over instrumented leaf allocators.
// Records every top-level request (call ... ret), every call that reaches a leaf in between and
// every tracker callback.  It records; it does not judge.
//   usage: compose <script> <trace-out>
#include <algorithm>
#include <cstdio>
#include <fcntl.h>
#include <map>
#include <memory>
#include <mutex>
#include <string>
#include <vector>

#include <foonathan/memory/aligned_allocator.hpp>
#include <foonathan/memory/allocator_storage.hpp>
#include <foonathan/memory/fallback_allocator.hpp>
#include <foonathan/memory/memory_pool.hpp>
#include <foonathan/memory/memory_pool_collection.hpp>
#include <foonathan/memory/memory_resource_adapter.hpp>
#include <foonathan/memory/memory_stack.hpp>
#include <foonathan/memory/segregator.hpp>
#include <foonathan/memory/smart_ptr.hpp>
#include <foonathan/memory/std_allocator.hpp>
#include <functional>
#include <foonathan/memory/tracking.hpp>

#include <verif/child.hpp>
#include <verif/observe.hpp>
#include <verif/script.hpp>

using namespace verif;

namespace
{
    // ---- instrumented leaves --------------------------------------------------------------------
    struct Shape
    {
        bool        array;
        std::size_t n, sz, al;
        int         blk;
    };
    struct LeafState
    {
        long long               cap  = -1; // bytes the leaf may hold at most (-1 = unbounded)
        long long               used = 0;
        bool                    shrinking_max = false; // max_node_size() = remaining capacity
        std::map<void*, Shape>  live;
    };
    LeafState g_leaf[8];

    void log_leaf(int tag, const char* op, std::size_t n, std::size_t sz, std::size_t al, const char* r,
                  const void* p)
    {
        long blk = -1, off = 0;
        if (p)
            world().project(p, blk, off);
        Ev("leaf").i("L", tag).s("op", op).u("n", n).u("sz", sz).u("al", al).s("r", r).i("b", blk).i(
            "off", off);
    }

    void* leaf_take(int tag, bool array, std::size_t n, std::size_t sz, std::size_t al, bool can_throw,
                    const char* op)
    {
        LeafState&  st    = g_leaf[tag];
        std::size_t bytes = n * sz;
        if (st.cap >= 0 && st.used + static_cast<long long>(bytes) > st.cap)
        {
            log_leaf(tag, op, n, sz, al, can_throw ? "throw" : "null", nullptr);
            if (can_throw)
                throw injected_oom();
            return nullptr;
        }
        std::size_t gap;
        char*       p   = world().take(bytes ? bytes : 1, al, gap);
        int         blk = world().add_block(p, bytes ? bytes : 1, al, 100 + tag, false, gap);
        st.used += static_cast<long long>(bytes);
        st.live[p] = Shape{array, n, sz, al, blk};
        log_leaf(tag, op, n, sz, al, "ok", p);
        return p;
    }

    // returns true if p was a live allocation of this leaf
    bool leaf_give(int tag, void* p, std::size_t n, std::size_t sz, std::size_t al, bool is_try,
                   const char* op)
    {
        LeafState& st = g_leaf[tag];
        auto       it = st.live.find(p);
        if (it == st.live.end())
        {
            log_leaf(tag, op, n, sz, al, is_try ? "false" : "unknown", p);
            return false;
        }
        log_leaf(tag, op, n, sz, al, is_try ? "true" : "ok", p);
        st.used -= static_cast<long long>(it->second.n * it->second.sz);
        world().blocks[static_cast<std::size_t>(it->second.blk)].live = false;
        st.live.erase(it);
        return true;
    }

    std::size_t leaf_max_node(int tag)
    {
        LeafState& st = g_leaf[tag];
        if (st.shrinking_max && st.cap >= 0)
            return static_cast<std::size_t>(st.cap - st.used);
        return std::size_t(1) << 20;
    }

    // full leaf: node + array, throwing + composable
    template <int Tag>
    struct leaf
    {
        using is_stateful = std::true_type;
        int tag           = Tag;
        void* allocate_node(std::size_t sz, std::size_t al)
        {
            return leaf_take(Tag, false, 1, sz, al, true, "an");
        }
        void* allocate_array(std::size_t n, std::size_t sz, std::size_t al)
        {
            return leaf_take(Tag, true, n, sz, al, true, "aa");
        }
        void deallocate_node(void* p, std::size_t sz, std::size_t al) noexcept
        {
            leaf_give(Tag, p, 1, sz, al, false, "dn");
        }
        void deallocate_array(void* p, std::size_t n, std::size_t sz, std::size_t al) noexcept
        {
            leaf_give(Tag, p, n, sz, al, false, "da");
        }
        void* try_allocate_node(std::size_t sz, std::size_t al) noexcept
        {
            return leaf_take(Tag, false, 1, sz, al, false, "tan");
        }
        void* try_allocate_array(std::size_t n, std::size_t sz, std::size_t al) noexcept
        {
            return leaf_take(Tag, true, n, sz, al, false, "taa");
        }
        bool try_deallocate_node(void* p, std::size_t sz, std::size_t al) noexcept
        {
            return leaf_give(Tag, p, 1, sz, al, true, "tdn");
        }
        bool try_deallocate_array(void* p, std::size_t n, std::size_t sz, std::size_t al) noexcept
        {
            return leaf_give(Tag, p, n, sz, al, true, "tda");
        }
        std::size_t max_node_size() const
        {
            return leaf_max_node(Tag);
        }
        std::size_t max_array_size() const
        {
            return std::size_t(1) << 22;
        }
        std::size_t max_alignment() const
        {
            return 4096;
        }
    };

    // stateless leaf: an empty class, every object is as good as any other (like heap_allocator)
    template <int Tag>
    struct sleaf
    {
        void* allocate_node(std::size_t sz, std::size_t al)
        {
            return leaf_take(Tag, false, 1, sz, al, true, "an");
        }
        void* allocate_array(std::size_t n, std::size_t sz, std::size_t al)
        {
            return leaf_take(Tag, true, n, sz, al, true, "aa");
        }
        void deallocate_node(void* p, std::size_t sz, std::size_t al) noexcept
        {
            leaf_give(Tag, p, 1, sz, al, false, "dn");
        }
        void deallocate_array(void* p, std::size_t n, std::size_t sz, std::size_t al) noexcept
        {
            leaf_give(Tag, p, n, sz, al, false, "da");
        }
        void* try_allocate_node(std::size_t sz, std::size_t al) noexcept
        {
            return leaf_take(Tag, false, 1, sz, al, false, "tan");
        }
        void* try_allocate_array(std::size_t n, std::size_t sz, std::size_t al) noexcept
        {
            return leaf_take(Tag, true, n, sz, al, false, "taa");
        }
        bool try_deallocate_node(void* p, std::size_t sz, std::size_t al) noexcept
        {
            return leaf_give(Tag, p, 1, sz, al, true, "tdn");
        }
        bool try_deallocate_array(void* p, std::size_t n, std::size_t sz, std::size_t al) noexcept
        {
            return leaf_give(Tag, p, n, sz, al, true, "tda");
        }
    };
    static_assert(!fm::allocator_traits<sleaf<1>>::is_stateful::value, "sleaf must be stateless");

    // stateful leaf that knows whether the harness created it: requests that reach a default constructed
    // object (instance 0) are strays
    template <int Tag>
    struct ileaf : leaf<Tag>
    {
        int inst = 0;
        ileaf() = default;
        explicit ileaf(int i) : inst(i) {}
        void stray(const char* op)
        {
            if (inst == 0)
                log_leaf(Tag, op, 0, 0, 0, "stray", nullptr);
        }
        void* allocate_node(std::size_t sz, std::size_t al)
        {
            stray("an");
            return leaf<Tag>::allocate_node(sz, al);
        }
        void* allocate_array(std::size_t n, std::size_t sz, std::size_t al)
        {
            stray("aa");
            return leaf<Tag>::allocate_array(n, sz, al);
        }
        void* try_allocate_node(std::size_t sz, std::size_t al) noexcept
        {
            stray("tan");
            return leaf<Tag>::try_allocate_node(sz, al);
        }
        void* try_allocate_array(std::size_t n, std::size_t sz, std::size_t al) noexcept
        {
            stray("taa");
            return leaf<Tag>::try_allocate_array(n, sz, al);
        }
    };

    // node-only leaf (the traits map arrays onto nodes), composable
    template <int Tag>
    struct leaf_n
    {
        using is_stateful = std::true_type;
        int tag           = Tag;
        void* allocate_node(std::size_t sz, std::size_t al)
        {
            return leaf_take(Tag, false, 1, sz, al, true, "an");
        }
        void deallocate_node(void* p, std::size_t sz, std::size_t al) noexcept
        {
            leaf_give(Tag, p, 1, sz, al, false, "dn");
        }
        void* try_allocate_node(std::size_t sz, std::size_t al) noexcept
        {
            return leaf_take(Tag, false, 1, sz, al, false, "tan");
        }
        bool try_deallocate_node(void* p, std::size_t sz, std::size_t al) noexcept
        {
            return leaf_give(Tag, p, 1, sz, al, true, "tdn");
        }
        std::size_t max_node_size() const
        {
            return leaf_max_node(Tag);
        }
    };

    // plain leaf: node + array, not composable
    template <int Tag>
    struct leaf_p
    {
        using is_stateful = std::true_type;
        int tag           = Tag;
        void* allocate_node(std::size_t sz, std::size_t al)
        {
            return leaf_take(Tag, false, 1, sz, al, true, "an");
        }
        void* allocate_array(std::size_t n, std::size_t sz, std::size_t al)
        {
            return leaf_take(Tag, true, n, sz, al, true, "aa");
        }
        void deallocate_node(void* p, std::size_t sz, std::size_t al) noexcept
        {
            leaf_give(Tag, p, 1, sz, al, false, "dn");
        }
        void deallocate_array(void* p, std::size_t n, std::size_t sz, std::size_t al) noexcept
        {
            leaf_give(Tag, p, n, sz, al, false, "da");
        }
        std::size_t max_node_size() const
        {
            return leaf_max_node(Tag);
        }
    };

    // ---- tracker that logs ------------------------------------------------------------------------
    struct log_tracker
    {
        // a callback that reaches a tracker object that no longer exists (stale pointer kept by a deeply
        // tracked block allocator across a move) shows as alive = false
        unsigned magic = 0xA11CEu;
        // a tracker the harness created carries a non-zero instance number; a default constructed one (as a
        // reference adapter that wrongly takes the tracked allocator for stateless would conjure up) does not
        int inst = 0;
        log_tracker() = default;
        explicit log_tracker(int i) : inst(i) {}
        log_tracker(const log_tracker& o) noexcept : magic(0xA11CEu), inst(o.inst) {}
        log_tracker& operator=(const log_tracker& o) noexcept
        {
            inst = o.inst;
            return *this;
        }
        ~log_tracker()
        {
            magic = 0xDEADu;
        }
        bool alive() const noexcept
        {
            return magic == 0xA11CEu && inst != 0;
        }
        void on_node_allocation(void*, std::size_t sz, std::size_t al) noexcept
        {
            Ev("trk").s("op", "na").u("n", 1).u("sz", sz).u("al", al).b("alive", alive());
        }
        void on_array_allocation(void*, std::size_t n, std::size_t sz, std::size_t al) noexcept
        {
            Ev("trk").s("op", "aa").u("n", n).u("sz", sz).u("al", al).b("alive", alive());
        }
        void on_node_deallocation(void*, std::size_t sz, std::size_t al) noexcept
        {
            Ev("trk").s("op", "nd").u("n", 1).u("sz", sz).u("al", al).b("alive", alive());
        }
        void on_array_deallocation(void*, std::size_t n, std::size_t sz, std::size_t al) noexcept
        {
            Ev("trk").s("op", "ad").u("n", n).u("sz", sz).u("al", al).b("alive", alive());
        }
        void on_allocator_growth(void*, std::size_t sz) noexcept
        {
            Ev("trk").s("op", "gr").u("n", 1).u("sz", sz).u("al", 0).b("alive", alive());
        }
        void on_allocator_shrinking(void*, std::size_t sz) noexcept
        {
            Ev("trk").s("op", "sh").u("n", 1).u("sz", sz).u("al", 0).b("alive", alive());
        }
    };

    // ---- type-erased composition under test --------------------------------------------------------
    struct IComp
    {
        virtual ~IComp()                                                      = default;
        virtual bool  composable()                                            = 0;
        virtual void* an(std::size_t sz, std::size_t al)                      = 0;
        virtual void* aa(std::size_t n, std::size_t sz, std::size_t al)       = 0;
        virtual void  dn(void* p, std::size_t sz, std::size_t al)             = 0;
        virtual void  da(void* p, std::size_t n, std::size_t sz, std::size_t al) = 0;
        virtual void* tn(std::size_t sz, std::size_t al)                      = 0;
        virtual void* ta(std::size_t n, std::size_t sz, std::size_t al)       = 0;
        virtual bool  tdn(void* p, std::size_t sz, std::size_t al)            = 0;
        virtual bool  tda(void* p, std::size_t n, std::size_t sz, std::size_t al) = 0;
        // object-creating helpers on top of the composition (deleters, unique_ptr, shared_ptr):
        // creates the object, returns its address, shape of the request and a function that releases it
        virtual bool smart(const std::string&, int, std::size_t, void*&, std::size_t&, std::size_t&, std::size_t&,
                           std::function<void()>&)
        {
            return false;
        }
        // move assignment into a differently configured object of the same type and move construction
        // back: the composition must behave as before (its configuration and referenced allocators travel)
        virtual bool xfer()
        {
            return false;
        }
        // what allocator_traits reports as maxima for the composition
        virtual void maxes(std::size_t& mn, std::size_t& ma, std::size_t& mal) = 0;
        // shrink_to_fit of a library stack inside the composition
        virtual bool shrink()
        {
            return false;
        }
        // free capacity of the library pool inside a mixed composition, for the bucket serving sz
        virtual long long pool_free(std::size_t)
        {
            return -1;
        }
    };

    // value types for the smart pointer helpers
    struct PBase
    {
        virtual ~PBase() {}
        int tag = 7;
    };
    template <std::size_t Size, std::size_t Align>
    struct alignas(Align) PObj : PBase
    {
        unsigned char pad[Size];
        PObj()
        {
            pad[0] = 1;
        }
    };
    template <std::size_t Size, std::size_t Align>
    struct alignas(Align) Plain
    {
        unsigned char pad[Size];
    };

    template <class T, class A>
    bool make_smart(A& a, const std::string& kind, std::size_t n, void*& p, std::size_t& cnt, std::size_t& sz, std::size_t& al,
                    std::function<void()>& rel)
    {
        sz  = sizeof(T);
        al  = alignof(T);
        cnt = 1;
        if (kind == "uq")
        {
            auto sp = std::make_shared<decltype(fm::allocate_unique<T>(a))>(fm::allocate_unique<T>(a));
            p       = sp->get();
            rel     = [sp] { sp->reset(); };
            return true;
        }
        if (kind == "ua")
        {
            auto sp = std::make_shared<decltype(fm::allocate_unique<T[]>(a, n))>(fm::allocate_unique<T[]>(a, n));
            p       = sp->get();
            cnt     = n;
            rel     = [sp] { sp->reset(); };
            return true;
        }
        if (kind == "sa")
        {
            // std_allocator used directly: allocate(n) is a node for n == 1 and an array otherwise, and
            // deallocate(p, n) has to repeat that decision
            auto sa = std::make_shared<fm::std_allocator<T, A>>(a);
            T*   q  = sa->allocate(n);
            p       = q;
            cnt     = n;
            rel     = [sa, q, n] { sa->deallocate(q, n); };
            return true;
        }
        if (kind == "sy")
        {
            // type-erased std_allocator, rebound from another value type: the copy is made through the
            // type-erased base class (reference_storage<any_allocator>'s constructor from its base_allocator)
            fm::any_allocator_reference r1(a);
            fm::any_allocator_reference r2(r1.get_allocator()); // no double nesting: built from the type-erased base
            fm::any_std_allocator<char> s0(r2);
            auto                        sa = std::make_shared<fm::any_std_allocator<T>>(s0);
            T*                          q  = sa->allocate(n);
            p                              = q;
            cnt                            = n;
            rel                            = [sa, q, n] { sa->deallocate(q, n); };
            return true;
        }
        if (kind == "sh")
        {
            auto sp = std::make_shared<std::shared_ptr<T>>(fm::allocate_shared<T>(a));
            p       = sp->get();
            sz      = 0; // the control block is bigger than T: only "at least" can be said
            rel     = [sp] { sp->reset(); };
            return true;
        }
        return false;
    }
    template <class D, class A>
    bool make_base(A& a, void*& p, std::size_t& cnt, std::size_t& sz, std::size_t& al, std::function<void()>& rel)
    {
        sz  = sizeof(D);
        al  = alignof(D);
        cnt = 1;
        // unique_ptr<Derived> converted to unique_base_ptr<Base>: the deleter has to remember size and alignment
        fm::unique_base_ptr<PBase, A> b = fm::allocate_unique<D>(a);
        auto sp = std::make_shared<fm::unique_base_ptr<PBase, A>>(std::move(b));
        p       = dynamic_cast<D*>(sp->get());
        rel     = [sp] { sp->reset(); };
        return true;
    }

    template <class A, bool AllowComposable = true, bool Smart = false>
    struct Comp : IComp
    {
        using traits  = fm::allocator_traits<A>;
        using ctraits = fm::composable_allocator_traits<A>;
        static constexpr bool is_comp = AllowComposable && fm::is_composable_allocator<A>::value;
        A a;
        std::function<A()> mk_spare; // a second, differently configured object
        template <class... Args>
        explicit Comp(Args&&... args) : a(std::forward<Args>(args)...)
        {
        }
        bool xfer() override
        {
            if constexpr (std::is_move_assignable<A>::value && std::is_move_constructible<A>::value)
            {
                if (!mk_spare)
                    return false;
                A spare(mk_spare());
                spare = std::move(a);
                a.~A();
                ::new (static_cast<void*>(&a)) A(std::move(spare));
                return true;
            }
            else
                return false;
        }
        bool composable() override
        {
            return is_comp;
        }
        void maxes(std::size_t& mn, std::size_t& ma, std::size_t& mal) override
        {
            mn  = traits::max_node_size(a);
            ma  = traits::max_array_size(a);
            mal = traits::max_alignment(a);
        }
        bool smart(const std::string& kind, int cls, std::size_t n, void*& p, std::size_t& cnt, std::size_t& sz,
                   std::size_t& al, std::function<void()>& rel) override
        {
            return smart_impl(std::integral_constant<bool, Smart>{}, kind, cls, n, p, cnt, sz, al, rel);
        }
        bool smart_impl(std::false_type, const std::string&, int, std::size_t, void*&, std::size_t&, std::size_t&, std::size_t&,
                        std::function<void()>&)
        {
            return false;
        }
        bool smart_impl(std::true_type, const std::string& kind, int cls, std::size_t n, void*& p, std::size_t& cnt,
                        std::size_t& sz, std::size_t& al, std::function<void()>& rel)
        {
            if (kind == "ub")
            {
                switch (cls)
                {
                case 0:
                    return make_base<PObj<8, 8>>(a, p, cnt, sz, al, rel);
                case 1:
                    return make_base<PObj<100, 16>>(a, p, cnt, sz, al, rel);
                case 2:
                    return make_base<PObj<4096, 8>>(a, p, cnt, sz, al, rel);
                case 3:
                    return make_base<PObj<70000, 8>>(a, p, cnt, sz, al, rel);
                default:
                    return make_base<PObj<40, 32>>(a, p, cnt, sz, al, rel);
                }
            }
            switch (cls)
            {
            case 0:
                return make_smart<Plain<1, 1>>(a, kind, n, p, cnt, sz, al, rel);
            case 1:
                return make_smart<Plain<24, 8>>(a, kind, n, p, cnt, sz, al, rel);
            case 2:
                return make_smart<Plain<100, 4>>(a, kind, n, p, cnt, sz, al, rel);
            case 3:
                return make_smart<Plain<70000, 16>>(a, kind, n, p, cnt, sz, al, rel);
            default:
                return make_smart<Plain<48, 16>>(a, kind, n, p, cnt, sz, al, rel);
            }
        }
        void* an(std::size_t sz, std::size_t al) override
        {
            return traits::allocate_node(a, sz, al);
        }
        void* aa(std::size_t n, std::size_t sz, std::size_t al) override
        {
            return traits::allocate_array(a, n, sz, al);
        }
        void dn(void* p, std::size_t sz, std::size_t al) override
        {
            traits::deallocate_node(a, p, sz, al);
        }
        void da(void* p, std::size_t n, std::size_t sz, std::size_t al) override
        {
            traits::deallocate_array(a, p, n, sz, al);
        }
        void* tn(std::size_t sz, std::size_t al) override
        {
            if constexpr (is_comp)
                return ctraits::try_allocate_node(a, sz, al);
            else
                return nullptr;
        }
        void* ta(std::size_t n, std::size_t sz, std::size_t al) override
        {
            if constexpr (is_comp)
                return ctraits::try_allocate_array(a, n, sz, al);
            else
                return nullptr;
        }
        bool tdn(void* p, std::size_t sz, std::size_t al) override
        {
            if constexpr (is_comp)
                return ctraits::try_deallocate_node(a, p, sz, al);
            else
                return false;
        }
        bool tda(void* p, std::size_t n, std::size_t sz, std::size_t al) override
        {
            if constexpr (is_comp)
                return ctraits::try_deallocate_array(a, p, n, sz, al);
            else
                return false;
        }
    };

    // mixed compositions: a library pool as default allocator, a leaf as fallback
    using fixed_pool = fm::memory_pool<fm::node_pool, fm::fixed_block_allocator<raw_up>>;
    using fixed_apool = fm::memory_pool<fm::array_pool, fm::fixed_block_allocator<raw_up>>;
    using fixed_coll = fm::memory_pool_collection<fm::node_pool, fm::log2_buckets, fm::fixed_block_allocator<raw_up>>;
    template <class Pool>
    struct PoolFb : Comp<fm::fallback_allocator<Pool, leaf<3>>>
    {
        using Base = Comp<fm::fallback_allocator<Pool, leaf<3>>>;
        using Base::Base;
        long long pool_free(std::size_t sz) override
        {
            return free_of(this->a.get_default_allocator(), sz);
        }
        template <class P>
        static long long free_of(P& p, std::size_t)
        {
            return static_cast<long long>(p.capacity_left());
        }
        static long long free_of(fixed_coll& p, std::size_t sz)
        {
            return sz >= 1 && sz <= p.max_node_size() ? static_cast<long long>(p.pool_capacity_left(sz)) : -1;
        }
    };

    // deeply tracked library allocators: the tracker also sees the blocks the arena takes and returns
    using deep_pool  = fm::deeply_tracked_allocator<log_tracker, fm::memory_pool<fm::node_pool, raw_up>>;
    using deep_apool = fm::deeply_tracked_allocator<log_tracker, fm::memory_pool<fm::array_pool, raw_up>>;
    using deep_coll  = fm::deeply_tracked_allocator<log_tracker, fm::memory_pool_collection<fm::node_pool, fm::log2_buckets, raw_up>>;
    using deep_stack = fm::deeply_tracked_allocator<log_tracker, fm::memory_stack<raw_up>>;
    template <class A>
    struct DeepComp : Comp<A>
    {
        using Base = Comp<A>;
        using Base::Base;
        long long pool_free(std::size_t sz) override
        {
            return free_of(this->a.get_allocator(), sz);
        }
        bool shrink() override
        {
            return shrink_of(this->a.get_allocator());
        }
        template <class P>
        static long long free_of(P& p, std::size_t)
        {
            return static_cast<long long>(p.capacity_left());
        }
        template <class P>
        static auto free_of_coll(P& p, std::size_t sz) -> decltype(p.pool_capacity_left(sz), 0ll)
        {
            return sz >= 1 && sz <= p.max_node_size() ? static_cast<long long>(p.pool_capacity_left(sz)) : -1;
        }
        template <class T, class D, class B>
        static long long free_of(fm::memory_pool_collection<T, D, B>& p, std::size_t sz)
        {
            return free_of_coll(p, sz);
        }
        template <class P>
        static bool shrink_of(P&)
        {
            return false;
        }
        template <class B>
        static bool shrink_of(fm::memory_stack<B>& st)
        {
            st.shrink_to_fit();
            return true;
        }
    };

    // objects referenced by reference-storage compositions must outlive them
    leaf<1>   g_l1;
    leaf<2>   g_l2;
    leaf<3>   g_l3;
    leaf_n<1> g_n1;
    leaf_p<1> g_p1;

    struct Made
    {
        std::unique_ptr<IComp> c;
        bool                   fallback = false, tracker = false, mixed = false, stk = false, deep = false;
        std::shared_ptr<void>  keep; // referenced objects
    };

    template <class C, class F>
    C* spare(C* c, F f)
    {
        c->mk_spare = f;
        return c;
    }
    leaf<2> g_l2b;

    Made make_comp(const std::string& name)
    {
        Made m;
        using namespace fm;
        if (name == "leaf")
            m.c.reset(new Comp<leaf<1>, true, true>());
        else if (name == "leaf_n")
            m.c.reset(new Comp<leaf_n<1>, true, true>());
        else if (name == "leaf_p")
            m.c.reset(new Comp<leaf_p<1>>());
        else if (name == "direct")
            m.c.reset(spare(new Comp<allocator_adapter<leaf<1>>, true, true>(leaf<1>{}), [] { return allocator_adapter<leaf<1>>(leaf<1>{}); }));
        else if (name == "direct_n")
            m.c.reset(new Comp<allocator_adapter<leaf_n<1>>>(leaf_n<1>{}));
        else if (name == "ref")
            m.c.reset(new Comp<allocator_reference<leaf<1>>, true, true>(g_l1));
        else if (name == "ref_p")
            m.c.reset(new Comp<allocator_reference<leaf_p<1>>>(g_p1));
        else if (name == "anyref")
            m.c.reset(spare(new Comp<any_allocator_reference>(g_l1), [] { return any_allocator_reference(g_l2b); }));
        else if (name == "anyref_n")
            m.c.reset(spare(new Comp<any_allocator_reference>(g_n1), [] { return any_allocator_reference(g_l2b); }));
        else if (name == "anyref_p")
            m.c.reset(new Comp<any_allocator_reference, false>(g_p1)); // is_composable() is false at run time
        else if (name == "ts")
            m.c.reset(new Comp<thread_safe_allocator<leaf<1>>, true, true>(leaf<1>{}));
        else if (name == "ts_ref")
            m.c.reset(new Comp<allocator_storage<reference_storage<leaf<1>>, std::mutex>>(g_l1));
        else if (name == "aligned")
            m.c.reset(spare(new Comp<aligned_allocator<leaf<1>>, true, true>(32u, leaf<1>{}), [] { return aligned_allocator<leaf<1>>(8u, leaf<1>{}); }));
        else if (name == "aligned_n")
            m.c.reset(spare(new Comp<aligned_allocator<leaf_n<1>>>(16u, leaf_n<1>{}), [] { return aligned_allocator<leaf_n<1>>(4u, leaf_n<1>{}); }));
        else if (name == "tracked")
        {
            m.c.reset(spare(new Comp<tracked_allocator<log_tracker, leaf<1>>, true, true>(log_tracker{1}, leaf<1>{}),
                             [] { return tracked_allocator<log_tracker, leaf<1>>(log_tracker{1}, leaf<1>{}); }));
            m.tracker = true;
        }
        else if (name == "tracked_n")
        {
            m.c.reset(new Comp<tracked_allocator<log_tracker, leaf_n<1>>>(log_tracker{1}, leaf_n<1>{}));
            m.tracker = true;
        }
        else if (name == "tracked_p")
        {
            m.c.reset(new Comp<tracked_allocator<log_tracker, leaf_p<1>>, false>(log_tracker{1}, leaf_p<1>{}));
            m.tracker = true;
        }
        else if (name == "seg2")
            m.c.reset(spare(new Comp<binary_segregator<threshold_segregatable<leaf<1>>, leaf<2>>, true, true>(
                                threshold(32u, leaf<1>{}), leaf<2>{}),
                            [] { return binary_segregator<threshold_segregatable<leaf<1>>, leaf<2>>(threshold(8u, leaf<1>{}), leaf<2>{}); }));
        else if (name == "seg3")
            m.c.reset(spare(new Comp<segregator<threshold_segregatable<leaf<1>>, threshold_segregatable<leaf<2>>, leaf<3>>>(
                                make_segregator(threshold(16u, leaf<1>{}), threshold(64u, leaf<2>{}), leaf<3>{})),
                            [] { return make_segregator(threshold(4u, leaf<1>{}), threshold(200u, leaf<2>{}), leaf<3>{}); }));
        else if (name == "seg_n")
            m.c.reset(new Comp<binary_segregator<threshold_segregatable<leaf_n<1>>, leaf<2>>>(
                threshold(24u, leaf_n<1>{}), leaf<2>{}));
        else if (name == "fb")
        {
            m.c.reset(spare(new Comp<fallback_allocator<leaf<1>, leaf<2>>, true, true>(leaf<1>{}, leaf<2>{}),
                            [] { return fallback_allocator<leaf<1>, leaf<2>>(leaf<1>{}, leaf<2>{}); }));
            m.fallback = true;
        }
        else if (name == "fb_n")
        {
            m.c.reset(new Comp<fallback_allocator<leaf_n<1>, leaf<2>>>(leaf_n<1>{}, leaf<2>{}));
            m.fallback = true;
        }
        else if (name == "fb_nest")
        {
            using inner = fallback_allocator<leaf<1>, leaf<2>>;
            m.c.reset(new Comp<fallback_allocator<inner, leaf<3>>>(inner(leaf<1>{}, leaf<2>{}), leaf<3>{}));
            m.fallback = true;
        }
        else if (name == "fb_nest2")
        {
            using inner = fallback_allocator<leaf<2>, leaf<3>>;
            m.c.reset(new Comp<fallback_allocator<leaf<1>, inner>>(leaf<1>{}, inner(leaf<2>{}, leaf<3>{})));
            m.fallback = true;
        }
        else if (name == "fb_aligned")
        {
            using inner = aligned_allocator<leaf<1>>;
            m.c.reset(spare(new Comp<fallback_allocator<inner, leaf<2>>>(inner(16u, leaf<1>{}), leaf<2>{}),
                            [] { return fallback_allocator<inner, leaf<2>>(inner(64u, leaf<1>{}), leaf<2>{}); }));
            m.fallback = true;
        }
        else if (name == "fb_tracked")
        {
            using inner = tracked_allocator<log_tracker, leaf<1>>;
            m.c.reset(new Comp<fallback_allocator<inner, leaf<2>>>(inner(log_tracker{1}, leaf<1>{}), leaf<2>{}));
            m.fallback = true; // the tracker sees only what the default allocator serves
        }
        else if (name == "tracked_fb")
        {
            using inner = fallback_allocator<leaf<1>, leaf<2>>;
            m.c.reset(new Comp<tracked_allocator<log_tracker, inner>>(log_tracker{1}, inner(leaf<1>{}, leaf<2>{})));
            m.fallback = m.tracker = true;
        }
        else if (name == "aligned_tracked")
        {
            using inner = tracked_allocator<log_tracker, leaf<1>>;
            m.c.reset(spare(new Comp<aligned_allocator<inner>>(32u, inner(log_tracker{1}, leaf<1>{})),
                            [] { return aligned_allocator<inner>(4u, inner(log_tracker{1}, leaf<1>{})); }));
        }
        else if (name == "ts_fb")
        {
            using inner = fallback_allocator<leaf<1>, leaf<2>>;
            m.c.reset(new Comp<thread_safe_allocator<inner>>(inner(leaf<1>{}, leaf<2>{})));
            m.fallback = true;
        }
        else if (name == "anyref_seg")
        {
            using seg = binary_segregator<threshold_segregatable<leaf<1>>, leaf<2>>;
            auto s    = std::make_shared<seg>(threshold(32u, leaf<1>{}), leaf<2>{});
            m.c.reset(new Comp<any_allocator_reference, false>(*s)); // a segregator is not composable
            m.keep = s;
        }
        else if (name == "ref_aligned")
        {
            using al = aligned_allocator<leaf<1>>;
            auto s   = std::make_shared<std::pair<al, al>>(al(64u, leaf<1>{}), al(8u, leaf<1>{}));
            al*  other = &s->second;
            m.c.reset(spare(new Comp<allocator_reference<al>>(s->first), [other] { return allocator_reference<al>(*other); }));
            m.keep = s;
        }
        else if (name == "seg_fb")
        {
            using inner = fallback_allocator<leaf<2>, leaf<3>>;
            m.c.reset(new Comp<binary_segregator<threshold_segregatable<leaf<1>>, inner>>(
                threshold(32u, leaf<1>{}), inner(leaf<2>{}, leaf<3>{})));
            m.fallback = true;
        }
        else if (name == "mra")
        {
            auto res = std::make_shared<memory_resource_adapter<leaf<1>>>(leaf<1>{});
            auto res2 = std::make_shared<memory_resource_adapter<leaf<2>>>(leaf<2>{});
            auto r2   = res2.get();
            m.c.reset(spare(new Comp<memory_resource_allocator, true, true>(res.get()), [r2] { return memory_resource_allocator(r2); }));
            m.keep = std::make_shared<std::pair<decltype(res), decltype(res2)>>(res, res2);
        }
        else if (name == "mra_shrinking")
        {
            auto res = std::make_shared<memory_resource_adapter<leaf<1>>>(leaf<1>{});
            m.c.reset(new Comp<memory_resource_allocator>(res.get()));
            m.keep                   = res;
            g_leaf[1].shrinking_max = true;
            g_leaf[1].cap           = 1024;
        }
        else if (name == "tracked_sl")
        {
            // stateful tracker over a stateless allocator: the adapter is stateful as a whole
            m.c.reset(new Comp<tracked_allocator<log_tracker, sleaf<1>>, true, true>(log_tracker{1}, sleaf<1>{}));
            m.tracker = true;
        }
        else if (name == "ref_tracked_sl")
        {
            using ta = tracked_allocator<log_tracker, sleaf<1>>;
            auto s   = std::make_shared<ta>(log_tracker{1}, sleaf<1>{});
            m.c.reset(new Comp<allocator_reference<ta>>(*s));
            m.keep    = s;
            m.tracker = true;
        }
        else if (name == "fb_sl")
        {
            // stateful default, stateless fallback
            m.c.reset(new Comp<fallback_allocator<ileaf<1>, sleaf<2>>, true, true>(ileaf<1>(1), sleaf<2>{}));
            m.fallback = true;
        }
        else if (name == "ref_fb_sl")
        {
            using fa = fallback_allocator<ileaf<1>, sleaf<2>>;
            auto s   = std::make_shared<fa>(ileaf<1>(1), sleaf<2>{});
            m.c.reset(new Comp<allocator_reference<fa>>(*s));
            m.keep     = s;
            m.fallback = true;
        }
        else if (name == "ref_seg_sl")
        {
            using sg = binary_segregator<threshold_segregatable<ileaf<1>>, sleaf<2>>;
            auto s   = std::make_shared<sg>(threshold(32u, ileaf<1>(1)), sleaf<2>{});
            m.c.reset(new Comp<allocator_reference<sg>>(*s));
            m.keep = s;
        }
        else if (name == "deep_pool")
        {
            m.c.reset(spare(new DeepComp<deep_pool>(fm::make_deeply_tracked_allocator<fm::memory_pool<fm::node_pool, raw_up>>(
                                log_tracker{1}, 16u, fm::memory_pool<fm::node_pool, raw_up>::min_block_size(16, 3), raw_up())),
                            []
                            {
                                return fm::make_deeply_tracked_allocator<fm::memory_pool<fm::node_pool, raw_up>>(
                                    log_tracker{1}, 32u, fm::memory_pool<fm::node_pool, raw_up>::min_block_size(32, 2), raw_up());
                            }));
            m.tracker = m.mixed = m.deep = true;
        }
        else if (name == "deep_apool")
        {
            m.c.reset(new DeepComp<deep_apool>(fm::make_deeply_tracked_allocator<fm::memory_pool<fm::array_pool, raw_up>>(
                log_tracker{1}, 16u, fm::memory_pool<fm::array_pool, raw_up>::min_block_size(16, 4), raw_up())));
            m.tracker = m.mixed = m.deep = true;
        }
        else if (name == "deep_coll")
        {
            m.c.reset(new DeepComp<deep_coll>(
                fm::make_deeply_tracked_allocator<fm::memory_pool_collection<fm::node_pool, fm::log2_buckets, raw_up>>(
                    log_tracker{1}, 64u, 1200u, raw_up())));
            m.tracker = m.mixed = m.deep = true;
        }
        else if (name == "deep_stack")
        {
            // (make_deeply_tracked_allocator<memory_stack<...>> does not compile: it list-initialises the
            // allocator from its arguments and memory_stack's constructor is explicit)
            m.c.reset(spare(new DeepComp<deep_stack>(log_tracker{1}, deep_stack::allocator_type(200u, raw_up())),
                            [] { return deep_stack(log_tracker{1}, deep_stack::allocator_type(333u, raw_up())); }));
            m.tracker = m.mixed = m.deep = m.stk = true;
        }
        else if (name == "fb_pool")
        {
            m.c.reset(spare(new PoolFb<fixed_pool>(fixed_pool(16, fixed_pool::min_block_size(16, 6), raw_up()), leaf<3>{}),
                            [] { return fallback_allocator<fixed_pool, leaf<3>>(fixed_pool(32, fixed_pool::min_block_size(32, 3), raw_up()), leaf<3>{}); }));
            m.fallback = m.mixed = true;
        }
        else if (name == "fb_apool")
        {
            m.c.reset(new PoolFb<fixed_apool>(fixed_apool(16, fixed_apool::min_block_size(16, 8), raw_up()), leaf<3>{}));
            m.fallback = m.mixed = true;
        }
        else if (name == "fb_coll")
        {
            m.c.reset(spare(new PoolFb<fixed_coll>(fixed_coll(32, 600, raw_up()), leaf<3>{}),
                            [] { return fallback_allocator<fixed_coll, leaf<3>>(fixed_coll(16, 400, raw_up()), leaf<3>{}); }));
            m.fallback = m.mixed = true;
        }
        return m;
    }

    struct Handle
    {
        int         id;
        void*       p;
        bool        array, tried;
        std::size_t n, sz, al;
    };

    void run_exec(const Exec& x)
    {
        for (auto& st : g_leaf)
            st = LeafState();
        Made m = make_comp(x.str("comp"));
        std::size_t mxn = 0, mxa = 0, mxal = 0;
        if (m.c)
            m.c->maxes(mxn, mxa, mxal);
        Ev("comp")
            .uc("mxn", mxn)
            .uc("mxa", mxa)
            .uc("mxal", mxal)
            .s("name", x.str("comp"))
            .b("ok", m.c != nullptr)
            .b("fb", m.fallback)
            .b("trk", m.tracker)
            .b("mixed", m.mixed)
            .b("stk", m.stk)
            .b("deep", m.deep)
            .b("composable", m.c ? m.c->composable() : false);
        if (!m.c)
            return;
        IComp&              c = *m.c;
        struct SmartHandle
        {
            int                   id;
            std::function<void()> rel;
            bool                  array;
            std::size_t           n, sz, al;
        };
        std::vector<SmartHandle> smart_live;
        std::vector<Handle> live;
        int                 next_id = 0, call = 0;
        for (auto& cmd : x.cmds)
        {
            const std::string& op = cmd.op;
            if (op == "fill")
            {
                g_leaf[cmd.arg(0)].cap = cmd.arg(1);
                Ev("fill").i("L", cmd.arg(0)).i("cap", cmd.arg(1));
                continue;
            }
            if (op == "uq" || op == "ua" || op == "sh" || op == "ub" || op == "sa" || op == "sy")
            {
                int         cls = static_cast<int>(cmd.arg(0));
                std::size_t n   = static_cast<std::size_t>(cmd.arg(1, 3));
                int         id  = ++call;
                void*       p   = nullptr;
                std::size_t cnt = 1, sz = 0, al = 1;
                std::function<void()> rel;
                // the request as the helper must make it is only known after the call: log it with the ret
                bool as_array = op == "ua" || ((op == "sa" || op == "sy") && n != 1);
                Ev("call").i("id", id).s("op", as_array ? "aa" : "an").u("n", 0).u("sz", 0).u("al", 0).i("h", 0);
                bool        did = false;
                std::string r   = classify([&] { did = c.smart(op, cls, n, p, cnt, sz, al, rel); });
                if (r == "ok" && !did)
                    r = "unsupported";
                long blk = -1, off = 0;
                int  h = 0;
                if (p)
                {
                    world().project(p, blk, off);
                    h = ++next_id;
                    smart_live.push_back(SmartHandle{h, rel, as_array, cnt, sz, al});
                }
                Ev("sret").i("id", id).s("r", r).i("h", h).i("b", blk).i("off", off).u("n", cnt).u("sz", sz).u("al", al).u(
                    "mis", p && al ? reinterpret_cast<std::uintptr_t>(p) % al : 0);
                continue;
            }
            if (op == "shr")
            {
                bool        did = false;
                std::string r   = classify([&] { did = c.shrink(); });
                Ev("cshrink").s("r", r).b("did", did);
                continue;
            }
            if (op == "xm")
            {
                bool        did = false;
                std::string r   = classify([&] { did = c.xfer(); });
                Ev("xfer").s("r", r).b("did", did);
                continue;
            }
            if (op == "rs")
            {
                if (smart_live.empty())
                    continue;
                std::size_t k  = static_cast<std::size_t>(cmd.arg(0)) % smart_live.size();
                SmartHandle h  = smart_live[k];
                smart_live.erase(smart_live.begin() + static_cast<long>(k));
                int id = ++call;
                Ev("call").i("id", id).s("op", h.array ? "da" : "dn").u("n", h.n).u("sz", h.sz).u("al", h.al).i("h", h.id);
                std::string r = classify([&] { h.rel(); });
                Ev("ret").i("id", id).s("r", r).i("h", h.id).i("b", -1).i("off", 0).u("len", 0).u("mis", 0).i("fn0", -1).i(
                    "fn1", -1).i("bad", 0);
                continue;
            }
            bool is_alloc = op == "an" || op == "aa" || op == "tn" || op == "ta";
            if (is_alloc)
            {
                bool        array = op == "aa" || op == "ta";
                bool        tr    = op[0] == 't';
                if (tr && !c.composable())
                    continue;
                std::size_t n  = array ? static_cast<std::size_t>(cmd.arg(0)) : 1;
                std::size_t sz = static_cast<std::size_t>(cmd.arg(array ? 1 : 0));
                std::size_t al = static_cast<std::size_t>(cmd.arg(array ? 2 : 1, 1));
                int         id = ++call;
                long long   f0 = c.pool_free(sz);
                Ev("call").i("id", id).s("op", op).u("n", n).u("sz", sz).u("al", al).i("h", 0);
                void*       p = nullptr;
                std::string r = classify(
                    [&]
                    {
                        if (tr)
                            p = array ? c.ta(n, sz, al) : c.tn(sz, al);
                        else
                            p = array ? c.aa(n, sz, al) : c.an(sz, al);
                    });
                if (r == "ok" && !p)
                    r = "null";
                long blk = -1, off = 0;
                int  h = 0;
                if (p)
                {
                    world().project(p, blk, off);
                    h = ++next_id;
                    live.push_back(Handle{h, p, array, tr, n, sz, al});
                    if (blk >= 0)
                        pat_fill(p, n * sz, h);
                }
                Ev("ret").i("id", id).s("r", r).i("h", h).i("b", blk).i("off", off).u("len", n * sz).u(
                    "mis", p && al ? reinterpret_cast<std::uintptr_t>(p) % al : 0).i("fn0", f0).i("fn1", c.pool_free(sz)).i("bad", 0);
            }
            else if (op == "tdf")
            {
                // composable release of memory nobody in the composition handed out (a block of the harness' own)
                if (!c.composable())
                    continue;
                static char* foreign = nullptr;
                if (!foreign)
                {
                    std::size_t gap;
                    foreign = world().take(512, 64, gap);
                    world().add_block(foreign, 512, 64, -2, false, gap);
                }
                bool        array = cmd.arg(0) != 0;
                std::size_t n = array ? 2 : 1, sz = static_cast<std::size_t>(cmd.arg(1, 16)), al = 8;
                int         id = ++call;
                Ev("call").i("id", id).s("op", array ? "tdfa" : "tdfn").u("n", n).u("sz", sz).u("al", al).i("h", -1);
                bool        res = false;
                std::string r   = classify([&] { res = array ? c.tda(foreign + 64, n, sz, al) : c.tdn(foreign + 64, sz, al); });
                if (r == "ok")
                    r = res ? "true" : "false";
                Ev("ret").i("id", id).s("r", r).i("h", -1).i("b", -1).i("off", 0).u("len", 0).u("mis", 0).i("fn0", -1).i(
                    "fn1", -1).i("bad", 0);
            }
            else if (op == "d" || op == "td")
            {
                if (live.empty())
                    continue;
                bool tr = op == "td";
                if (tr && !c.composable())
                    continue;
                std::size_t k  = static_cast<std::size_t>(cmd.arg(0)) % live.size();
                Handle      h  = live[k];
                int         id = ++call;
                long        first;
                long blk = -1, off = 0;
                world().project(h.p, blk, off);
                std::size_t bad = blk >= 0 ? pat_check(h.p, h.n * h.sz, h.id, &first) : 0;
                long long   f0  = c.pool_free(h.sz);
                Ev("call").i("id", id).s("op", std::string(tr ? "td" : "d") + (h.array ? "a" : "n")).u("n", h.n).u(
                    "sz", h.sz).u("al", h.al).i("h", h.id);
                bool        res = true;
                std::string r   = classify(
                    [&]
                    {
                        if (tr)
                            res = h.array ? c.tda(h.p, h.n, h.sz, h.al) : c.tdn(h.p, h.sz, h.al);
                        else
                            h.array ? c.da(h.p, h.n, h.sz, h.al) : c.dn(h.p, h.sz, h.al);
                    });
                if (r == "ok" && tr)
                    r = res ? "true" : "false";
                if (r != "false")
                    live.erase(live.begin() + static_cast<long>(k));
                Ev("ret").i("id", id).s("r", r).i("h", h.id).i("b", blk).i("off", off).u("len", h.n * h.sz).u(
                    "mis", 0).i("fn0", f0).i("fn1", c.pool_free(h.sz)).i("bad", static_cast<long long>(bad));
            }
            else
                Ev("badcmd").s("op", op);
        }
        while (!smart_live.empty())
        {
            SmartHandle h = smart_live.back();
            smart_live.pop_back();
            int id = ++call;
            Ev("call").i("id", id).s("op", h.array ? "da" : "dn").u("n", h.n).u("sz", h.sz).u("al", h.al).i("h", h.id);
            std::string r = classify([&] { h.rel(); });
            Ev("ret").i("id", id).s("r", r).i("h", h.id).i("b", -1).i("off", 0).u("len", 0).u("mis", 0).i("fn0", -1).i(
                "fn1", -1).i("bad", 0);
        }
        // release everything, the way it was obtained
        while (!live.empty())
        {
            Handle h  = live.back();
            int    id = ++call;
            long blk = -1, off = 0;
            world().project(h.p, blk, off);
            long long f0 = c.pool_free(h.sz);
            Ev("call").i("id", id).s("op", std::string("d") + (h.array ? "a" : "n")).u("n", h.n).u("sz", h.sz).u(
                "al", h.al).i("h", h.id);
            std::string r = classify([&] { h.array ? c.da(h.p, h.n, h.sz, h.al) : c.dn(h.p, h.sz, h.al); });
            live.pop_back();
            Ev("ret").i("id", id).s("r", r).i("h", h.id).i("b", blk).i("off", off).u("len", h.n * h.sz).u("mis", 0).i(
                "fn0", f0).i("fn1", c.pool_free(h.sz)).i("bad", 0);
        }
        m.c.reset();
        std::size_t left = 0;
        for (auto& st : g_leaf)
            left += st.live.size();
        Ev("end").u("leaf_live", left);
    }
} // namespace

int main(int argc, char** argv)
{
    if (argc < 3)
    {
        std::fprintf(stderr, "usage: compose <script> <trace-out>\n");
        return 2;
    }
    auto execs = load_script(argv[1]);
    int  fd    = ::open(argv[2], O_WRONLY | O_CREAT | O_APPEND, 0644);
    if (fd < 0)
        return 2;
    trace_fd() = fd;
    install_handlers();
    emit_cfg("compose");
    long xn = 0;
    for (auto& x : execs)
    {
        Ev("x").i("n", xn++).s("hdr", x.header).emit();
        run_child(
            [&]
            {
                world().init();
                run_exec(x);
            });
    }
    return 0;
}
