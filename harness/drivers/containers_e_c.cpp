#include "containers_box.hpp"
namespace vc {
using E16_16 = E<16,16>;
VC_REGISTER_ELEM(E16_16, E16_16)
using E17_1 = E<17,1>;
VC_REGISTER_ELEM(E17_1, E17_1)
using E24_8 = E<24,8>;
VC_REGISTER_ELEM(E24_8, E24_8)
VC_REGISTER_ELEM_NP(E17_1, E17_1)
}
