// verif driver "construct": the part that depends on the element type. Included by
// construct_e*.cpp, each of which instantiates Typed<E> for one element type.
//
// Commands (every creating command appends one result slot, also when it fails):
//   uniq form k                      allocate_unique<E>(alloc, args)   form 0 default 1 value 2 copy 3 move
//   arr n k                          allocate_unique<E[]>(alloc, n)
//   shared form k                    allocate_shared<E>(alloc, args)
//   joint am av k fa na fb nb fc nc vres nv
//                                    allocate_joint<JT<E>>(alloc, joint_size(add), layout);
//                                    add = av (am 0) or exact need + av (am 1);
//                                    members a:E b:B1 c:E built with form f* (0 size, 1 size+value,
//                                    2 initializer_list, 3 iterator range, -1 absent), v: vector with
//                                    joint_allocator, reserve(vres) then nv elements (vres -1: untouched)
//   clone s k                        clone_joint(alloc, *slot s)
//   jmove s am av k                  allocate_joint<JT<E>>(alloc, joint_size(add), std::move(*slot s))
//   ja s form n k s2                 stand-alone joint_array<E> on the joint object of slot s; forms as
//                                    above plus 4 copy / 5 move of the array in slot s2 (a stand-alone
//                                    array or member a of a joint object)
//   jraw s sz al / jrawfree s i      joint_allocator(*slot s).allocate_node / deallocate_node of piece i
//   vpush s cnt k                    cnt x emplace_back on the vector member
//   pieces s                         snapshot of the pieces handed to members of the object of slot s
//   k = which construction from the start of the call throws (0: none)
#ifndef VERIF_CONSTRUCT_TYPED_HPP
#define VERIF_CONSTRUCT_TYPED_HPP
#include <initializer_list>

#include <foonathan/memory/container.hpp>
#include <foonathan/memory/joint_allocator.hpp>
#include <foonathan/memory/smart_ptr.hpp>

#include "construct.hpp"

namespace vc
{
    enum
    {
        F_ABSENT = -1,
        F_SIZE   = 0,
        F_VALUE  = 1,
        F_ILIST  = 2,
        F_RANGE  = 3,
        F_COPY   = 4,
        F_MOVE   = 5
    };

    // a genuine input iterator (no arithmetic, no difference) over prototype elements
    template <class T>
    struct InIt
    {
        const T* p;
        const T& operator*() const
        {
            return *p;
        }
        InIt& operator++()
        {
            ++p;
            return *this;
        }
        InIt operator++(int)
        {
            InIt old = *this;
            ++p;
            return old;
        }
        friend bool operator==(const InIt& a, const InIt& b)
        {
            return a.p == b.p;
        }
        friend bool operator!=(const InIt& a, const InIt& b)
        {
            return a.p != b.p;
        }
    };

#define VC_R1 v
#define VC_R2 v, v
#define VC_R3 v, v, v
#define VC_R4 VC_R2, VC_R2
#define VC_R5 VC_R4, v
#define VC_R6 VC_R4, VC_R2
#define VC_R7 VC_R4, VC_R3
#define VC_R8 VC_R4, VC_R4
#define VC_R9 VC_R8, v
#define VC_R10 VC_R8, VC_R2
#define VC_R11 VC_R8, VC_R3
#define VC_R12 VC_R8, VC_R4
#define VC_R13 VC_R8, VC_R5
#define VC_R14 VC_R8, VC_R6
#define VC_R15 VC_R8, VC_R7
#define VC_R16 VC_R8, VC_R8
#define VC_IL(N)                                                                                   \
    case N:                                                                                        \
    {                                                                                              \
        std::initializer_list<T> il = {VC_R##N};                                                   \
        return f(il);                                                                              \
    }

    // calls f with an initializer_list of n copies of v (n <= 16); the backing array lives until f
    // returns
    template <class T, class F>
    auto with_ilist(long n, const T& v, F&& f) -> decltype(f(std::initializer_list<T>{}))
    {
        switch (n)
        {
            VC_IL(1)
            VC_IL(2)
            VC_IL(3)
            VC_IL(4)
            VC_IL(5)
            VC_IL(6)
            VC_IL(7)
            VC_IL(8)
            VC_IL(9)
            VC_IL(10)
            VC_IL(11)
            VC_IL(12)
            VC_IL(13)
            VC_IL(14)
            VC_IL(15)
            VC_IL(16)
        default:
        {
            std::initializer_list<T> il = {};
            return f(il);
        }
        }
    }

    // member arrays are built through a function returning a prvalue (guaranteed elision):
    // joint_array can neither be copied nor moved
    template <class T, class JTy>
    fm::joint_array<T> make_arr(int form, long n, const T* proto, JTy& j)
    {
        switch (form)
        {
        case F_SIZE:
            return fm::joint_array<T>(static_cast<std::size_t>(n), j);
        case F_VALUE:
            return fm::joint_array<T>(static_cast<std::size_t>(n), proto[0], j);
        case F_ILIST:
            return with_ilist<T>(n, proto[0], [&](std::initializer_list<T> il)
                                 { return fm::joint_array<T>(il, j); });
        case F_RANGE:
            return fm::joint_array<T>(InIt<T>{proto}, InIt<T>{proto + n}, j);
        default:
            return fm::joint_array<T>(InIt<T>{proto}, InIt<T>{proto}, j); // allocates nothing
        }
    }

    template <class E>
    struct Layout
    {
        int       fa, fb, fc;
        long      na, nb, nc, vres, nv;
        const E*  pe;
        const B1* pb;
    };

    template <class T>
    std::size_t up_to_al(std::size_t pos)
    {
        return (pos + alignof(T) - 1) / alignof(T) * alignof(T);
    }

    // ---- the joint test type -------------------------------------------------------------------------
    // the joint test type over the noexcept element is over-aligned (16) although its base class joint_type<T> and all
    // its members need 8 only: block allocation and release have to use alignof(T), not that of the base
    // (an empty base for the other element types: their layout stays as it was)
    template <class E>
    struct jt_pad
    {
    };
    template <std::size_t S, std::size_t A>
    struct jt_pad<Elem<S, A, true>>
    {
        alignas(16) unsigned char over_ = 0;
    };
    template <class E>
    struct JT : fm::joint_type<JT<E>>, jt_pad<E>
    {
        using vec = fm::vector<E, fm::joint_allocator>;
        JReg               reg;
        fm::joint_array<E>  a;
        fm::joint_array<B1> b;
        fm::joint_array<E>  c;
        vec                 v;

        std::size_t cap_left() const
        {
            return fm::detail::get_stack(*this).capacity_left();
        }
        std::size_t cap_used() const
        {
            return fm::detail::get_stack(*this).capacity_used(fm::detail::get_memory(*this));
        }

        JT(fm::joint t, const Layout<E>& L)
        : fm::joint_type<JT<E>>(t),
          reg(this, sizeof(JT), alignof(JT), -1, cap_left()),
          a(make_arr<E>(L.fa, L.na, L.pe, *this)),
          b(make_arr<B1>(L.fb, L.nb, L.pb, *this)),
          c(make_arr<E>(L.fc, L.nc, L.pe, *this)),
          v(*this)
        {
            if (L.vres >= 0)
                v.reserve(static_cast<std::size_t>(L.vres));
            for (long i = 0; i < L.nv; ++i)
                v.emplace_back(static_cast<int>(40 + i));
        }
        // "copy constructor" used by clone_joint: every member is copied with the new joint memory
        JT(fm::joint t, const JT& o)
        : fm::joint_type<JT<E>>(t),
          reg(this, sizeof(JT), alignof(JT), o.reg.id, cap_left()),
          a(o.a, *this),
          b(o.b, *this),
          c(o.c, *this),
          v(o.v, fm::joint_allocator(*this))
        {
        }
        // move with allocator
        JT(fm::joint t, JT&& o)
        : fm::joint_type<JT<E>>(t),
          reg(this, sizeof(JT), alignof(JT), o.reg.id, cap_left()),
          a(std::move(o.a), *this),
          b(std::move(o.b), *this),
          c(std::move(o.c), *this),
          v(std::move(o.v), fm::joint_allocator(*this))
        {
        }

        long count() const
        {
            return static_cast<long>(a.size() + b.size() + c.size() + v.size());
        }
        long value_sum() const
        {
            long s = 0;
            for (auto& e : a)
                s += e.val();
            for (auto& e : b)
                s += e.val();
            for (auto& e : c)
                s += e.val();
            for (auto& e : v)
                s += e.val();
            return s;
        }
    };

    struct RawPiece
    {
        void*       p;
        std::size_t sz, al;
        bool        live;
    };

    template <class E>
    struct Typed : ITyped
    {
        using J  = JT<E>;
        using UP = std::unique_ptr<E, fm::allocator_deleter<E, LogAlloc>>;
        using UA = std::unique_ptr<E[], fm::allocator_deleter<E[], LogAlloc>>;
        using SP = std::shared_ptr<E>;
        using JP = fm::joint_ptr<J, LogAlloc>;

        template <class P, class Self>
        struct PtrHolder : Holder
        {
            P p;
            explicit PtrHolder(P&& r) : p(std::move(r)) {}
            void reset() override
            {
                p.reset();
            }
            Holder* move_construct() override
            {
                return new Self(std::move(p));
            }
            bool move_assign(Holder& from) override
            {
                auto* o = dynamic_cast<Self*>(&from);
                if (!o)
                    return false;
                p = std::move(o->p);
                return true;
            }
            bool swap_with(Holder& other) override
            {
                auto* o = dynamic_cast<Self*>(&other);
                if (!o)
                    return false;
                using std::swap;
                swap(p, o->p);
                return true;
            }
        };
        struct HU : PtrHolder<UP, HU>
        {
            using PtrHolder<UP, HU>::PtrHolder;
        };
        struct HA : PtrHolder<UA, HA>
        {
            using PtrHolder<UA, HA>::PtrHolder;
        };
        struct HS : PtrHolder<SP, HS>
        {
            using PtrHolder<SP, HS>::PtrHolder;
        };
        struct HJ : PtrHolder<JP, HJ>
        {
            using PtrHolder<JP, HJ>::PtrHolder;
            long owner_j() const override
            {
                return joint_serial(static_cast<const void*>(this->p.get()));
            }
        };
        // a stand-alone joint_array (the array object itself lives on the ordinary heap)
        struct HArr : Holder
        {
            fm::joint_array<E>* arr;
            const J*            owner;
            HArr(fm::joint_array<E>* a, const J* o) : arr(a), owner(o) {}
            ~HArr() override
            {
                delete arr;
            }
            void reset() override
            {
                delete arr;
                arr = nullptr;
            }
            Holder* move_construct() override
            {
                auto* h = new HArr(arr, owner);
                arr     = nullptr;
                return h;
            }
            bool move_assign(Holder&) override
            {
                return false;
            }
            bool swap_with(Holder&) override
            {
                return false;
            }
            int rank() const override
            {
                return 0;
            }
        };

        std::map<const void*, std::vector<RawPiece>> raws; // raw pieces by joint object

        template <class H>
        static H* at(Ctx& cx, long s)
        {
            if (s < 0 || s >= static_cast<long>(cx.slots.size()))
                return nullptr;
            return dynamic_cast<H*>(cx.slots[static_cast<std::size_t>(s)].get());
        }
        static J* obj(Ctx& cx, long s)
        {
            HJ* h = at<HJ>(cx, s);
            return h ? h->p.get() : nullptr;
        }

        // additional size that exactly fits the pieces (lengths/alignments in order) when the block
        // base has the residue the backend announces; only used to choose the *input* add
        static std::size_t exact_need(Ctx& cx, const std::vector<std::pair<std::size_t, std::size_t>>& ps)
        {
            std::size_t start = cx.alloc->next_base_mod(alignof(J)) + sizeof(J);
            std::size_t pos   = start;
            for (auto& p : ps)
            {
                pos = (pos + p.second - 1) / p.second * p.second;
                pos += p.first;
            }
            return pos - start;
        }
        static long pick_add(Ctx& cx, long am, long av,
                             const std::vector<std::pair<std::size_t, std::size_t>>& ps)
        {
            long add = am == 0 ? av : static_cast<long>(exact_need(cx, ps)) + av;
            return add < 0 ? 0 : add;
        }

        void log_pieces(Ctx& cx, const J* o)
        {
            std::string ps  = "[";
            bool        any = false;
            auto        put = [&](int tag, const void* p, std::size_t len, std::size_t al)
            {
                long long rel = static_cast<const char*>(p) - reinterpret_cast<const char*>(o);
                if (rel > 2000000000LL || rel < -2000000000LL)
                    rel = rel > 0 ? 2000000000LL : -2000000000LL;
                ps += std::string(any ? "," : "") + "[" + std::to_string(tag) + "," + std::to_string(rel)
                      + "," + std::to_string(len) + "," + std::to_string(al) + ","
                      + std::to_string(reinterpret_cast<std::uintptr_t>(p) % al) + "]";
                any = true;
            };
            if (o->a.data())
                put(0, o->a.data(), o->a.size() * sizeof(E), alignof(E));
            if (o->b.data())
                put(1, o->b.data(), o->b.size() * sizeof(B1), alignof(B1));
            if (o->c.data())
                put(2, o->c.data(), o->c.size() * sizeof(E), alignof(E));
            if (o->v.capacity())
                put(3, o->v.data(), o->v.capacity() * sizeof(E), alignof(E));
            auto it = raws.find(o);
            if (it != raws.end())
                for (std::size_t i = 0; i < it->second.size(); ++i)
                    if (it->second[i].live)
                        put(100 + static_cast<int>(i), it->second[i].p, it->second[i].sz,
                            it->second[i].al);
            for (std::size_t i = 0; i < cx.slots.size(); ++i)
            {
                auto* h = dynamic_cast<HArr*>(cx.slots[i].get());
                if (h && h->arr && h->owner == o && h->arr->data())
                    put(1000 + static_cast<int>(i), h->arr->data(), h->arr->size() * sizeof(E),
                        alignof(E));
            }
            Ev("pieces").i("j", o->reg.id).raw("ps", ps + "]").i("vs", o->value_sum()).u("left",
                                                                                          o->cap_left());
        }

        std::vector<std::pair<std::size_t, std::size_t>> pieces_of(const Layout<E>& L)
        {
            std::vector<std::pair<std::size_t, std::size_t>> ps;
            auto arr = [&](int f, long n, std::size_t sz, std::size_t al)
            {
                if (f == F_ABSENT || (f == F_RANGE && n == 0))
                    return;
                ps.emplace_back(static_cast<std::size_t>(n) * sz, al);
            };
            arr(L.fa, L.na, sizeof(E), alignof(E));
            arr(L.fb, L.nb, sizeof(B1), alignof(B1));
            arr(L.fc, L.nc, sizeof(E), alignof(E));
            if (L.vres > 0)
                ps.emplace_back(static_cast<std::size_t>(L.vres) * sizeof(E), alignof(E));
            return ps;
        }
        std::vector<std::pair<std::size_t, std::size_t>> pieces_of(const J& o)
        {
            std::vector<std::pair<std::size_t, std::size_t>> ps;
            if (o.a.data())
                ps.emplace_back(o.a.size() * sizeof(E), alignof(E));
            if (o.b.data())
                ps.emplace_back(o.b.size() * sizeof(B1), alignof(B1));
            if (o.c.data())
                ps.emplace_back(o.c.size() * sizeof(E), alignof(E));
            if (o.v.size())
                ps.emplace_back(o.v.size() * sizeof(E), alignof(E));
            return ps;
        }

        // result of a creating joint command
        using JPS = fm::joint_ptr<J, SLog>;
        struct HJS : PtrHolder<JPS, HJS>
        {
            using PtrHolder<JPS, HJS>::PtrHolder;
            long owner_j() const override
            {
                return joint_serial(static_cast<const void*>(this->p.get()));
            }
        };
        template <class HX>
        void joint_done(Ret& rt, std::unique_ptr<HX>& h)
        {
            if (h && h->p.get())
            {
                rt.j   = h->p->reg.id;
                rt.cnt = h->p->count();
                rt.cl1 = static_cast<long>(h->p->cap_left());
                rt.g1  = h->owner_j();
            }
        }

        bool cmd(Ctx& cx, const Cmd& c) override
        {
            LogAlloc&   alloc = *cx.alloc;
            const long  s_new = static_cast<long>(cx.slots.size());
            const auto& op    = c.op;
            if (op == "uniq" || op == "shared")
            {
                long form = c.arg(0), k = c.arg(1);
                E    proto(7); // source of the copy / move forms (driver-owned)
                emit_call(cx.c, op.c_str(), s_new, -1, form, 1, k, -1);
                Ret                     rt;
                std::unique_ptr<Holder> h;
                bool                    u = op == "uniq";
                guarded(rt, k,
                        [&]
                        {
                            switch (form)
                            {
                            case 0:
                                if (u)
                                    h.reset(new HU(fm::allocate_unique<E>(alloc)));
                                else
                                    h.reset(new HS(fm::allocate_shared<E>(alloc)));
                                break;
                            case 1:
                                if (u)
                                    h.reset(new HU(fm::allocate_unique<E>(alloc, 5)));
                                else
                                    h.reset(new HS(fm::allocate_shared<E>(alloc, 5)));
                                break;
                            case 2:
                                if (u)
                                    h.reset(new HU(
                                        fm::allocate_unique<E>(alloc, static_cast<const E&>(proto))));
                                else
                                    h.reset(new HS(
                                        fm::allocate_shared<E>(alloc, static_cast<const E&>(proto))));
                                break;
                            default:
                                if (u)
                                    h.reset(new HU(fm::allocate_unique<E>(alloc, std::move(proto))));
                                else
                                    h.reset(new HS(fm::allocate_shared<E>(alloc, std::move(proto))));
                                break;
                            }
                        });
                if (h)
                    rt.cnt = 1;
                cx.slots.push_back(std::move(h));
                emit_ret(cx.c, op.c_str(), rt);
                return true;
            }
            if (op == "arr")
            {
                long n = c.arg(0), k = c.arg(1);
                emit_call(cx.c, "arr", s_new, -1, 0, n, k, -1);
                Ret                     rt;
                std::unique_ptr<Holder> h;
                guarded(rt, k,
                        [&]
                        {
                            h.reset(new HA(fm::allocate_unique<E[]>(alloc, static_cast<std::size_t>(n))));
                        });
                if (h)
                    rt.cnt = n;
                cx.slots.push_back(std::move(h));
                emit_ret(cx.c, "arr", rt);
                return true;
            }
            if (op == "joint")
            {
                long      am = c.arg(0), av = c.arg(1), k = c.arg(2);
                Layout<E> L;
                L.fa   = static_cast<int>(c.arg(3));
                L.na   = c.arg(4);
                L.fb   = static_cast<int>(c.arg(5, F_ABSENT));
                L.nb   = c.arg(6);
                L.fc   = static_cast<int>(c.arg(7, F_ABSENT));
                L.nc   = c.arg(8);
                L.vres = c.arg(9, -1);
                L.nv   = c.arg(10, 0);
                // prototypes for the value / initializer_list / range forms (driver-owned)
                long need_e = 1, need_b = 1;
                if (L.fa == F_RANGE && L.na > need_e)
                    need_e = L.na;
                if (L.fc == F_RANGE && L.nc > need_e)
                    need_e = L.nc;
                if (L.fb == F_RANGE && L.nb > need_b)
                    need_b = L.nb;
                std::vector<E>  pe;
                std::vector<B1> pb;
                pe.reserve(static_cast<std::size_t>(need_e));
                pb.reserve(static_cast<std::size_t>(need_b));
                for (long i = 0; i < need_e; ++i)
                    pe.emplace_back(static_cast<int>(10 + i));
                for (long i = 0; i < need_b; ++i)
                    pb.emplace_back(static_cast<int>(30 + i));
                L.pe     = pe.data();
                L.pb     = pb.data();
                long add = pick_add(cx, am, av, pieces_of(L));
                emit_call(cx.c, "joint", s_new, -1, L.fa, L.na, k, add);
                Ret                 rt;
                std::unique_ptr<HJ> h;
                guarded(rt, k,
                        [&]
                        {
                            h.reset(new HJ(fm::allocate_joint<J>(
                                alloc, fm::joint_size(static_cast<std::size_t>(add)),
                                static_cast<const Layout<E>&>(L))));
                        });
                joint_done(rt, h);
                if (h && h->p.get())
                {
                    raws.erase(h->p.get());
                    log_pieces(cx, h->p.get());
                }
                cx.slots.push_back(std::move(h));
                emit_ret(cx.c, "joint", rt);
                return true;
            }
            if (op == "clone" || op == "jmove")
            {
                long src = c.arg(0);
                J*   so  = obj(cx, src);
                bool cl  = op == "clone";
                long k   = cl ? c.arg(1) : c.arg(3);
                long add = -1;
                if (so && !cl)
                    add = pick_add(cx, c.arg(1), c.arg(2), pieces_of(*so));
                emit_call(cx.c, op.c_str(), s_new, src, cl ? F_COPY : F_MOVE, -1, k, add);
                Ret                 rt;
                std::unique_ptr<HJ> h;
                // clone s k 1: through the stateless face of the allocator, passed as a temporary (the helpers'
                // overloads for const references); the clone lives in a joint_ptr<J, SLog>
                bool stateless = cl && c.arg(2, 0) != 0 && cx.alloc == cx.allocs[0];
                if (so && stateless)
                {
                    std::unique_ptr<HJS> hs;
                    rt.vs0 = so->value_sum();
                    rt.cl0 = static_cast<long>(so->cap_left());
                    guarded(rt, k, [&] { hs.reset(new HJS(fm::clone_joint(SLog{}, *so))); });
                    rt.vs1 = so->value_sum();
                    joint_done(rt, hs);
                    rt.g2 = at<HJ>(cx, src)->owner_j();
                    if (hs && hs->p.get())
                    {
                        raws.erase(hs->p.get());
                        log_pieces(cx, hs->p.get());
                    }
                    log_pieces(cx, so);
                    cx.slots.push_back(std::move(hs));
                    emit_ret(cx.c, op.c_str(), rt);
                    return true;
                }
                if (!so)
                    rt.r = "empty";
                else
                {
                    rt.vs0 = so->value_sum();
                    rt.cl0 = static_cast<long>(so->cap_left());
                    guarded(rt, k,
                            [&]
                            {
                                if (cl)
                                    h.reset(new HJ(fm::clone_joint(alloc, *so)));
                                else
                                    h.reset(new HJ(fm::allocate_joint<J>(
                                        alloc, fm::joint_size(static_cast<std::size_t>(add)),
                                        std::move(*so))));
                            });
                    rt.vs1 = so->value_sum();
                    joint_done(rt, h);
                    rt.g2 = at<HJ>(cx, src)->owner_j();
                    if (h && h->p.get())
                    {
                        raws.erase(h->p.get());
                        log_pieces(cx, h->p.get());
                    }
                    log_pieces(cx, so);
                }
                cx.slots.push_back(std::move(h));
                emit_ret(cx.c, op.c_str(), rt);
                return true;
            }
            if (op == "ja")
            {
                long s = c.arg(0), form = c.arg(1), n = c.arg(2), k = c.arg(3), s2 = c.arg(4, -1);
                J*   o = obj(cx, s);
                fm::joint_array<E>* srca = nullptr;
                if (form == F_COPY || form == F_MOVE)
                {
                    if (HArr* ha = at<HArr>(cx, s2))
                        srca = ha->arr;
                    else if (J* o2 = obj(cx, s2))
                        srca = &o2->a;
                }
                std::vector<E> pe; // prototypes (driver-owned, built before the call)
                long           need = form == F_RANGE && n > 1 ? n : 1;
                pe.reserve(static_cast<std::size_t>(need));
                for (long i = 0; i < need; ++i)
                    pe.emplace_back(static_cast<int>(20 + i));
                emit_call(cx.c, "ja", s_new, s, form, n, k, -1);
                Ret                   rt;
                std::unique_ptr<HArr> h;
                if (!o || ((form == F_COPY || form == F_MOVE) && !srca))
                    rt.r = "empty";
                else
                {
                    rt.j   = o->reg.id;
                    rt.cl0 = static_cast<long>(o->cap_left());
                    guarded(rt, k,
                            [&]
                            {
                                fm::joint_array<E>* a = nullptr;
                                if (form == F_COPY)
                                    a = new fm::joint_array<E>(
                                        static_cast<const fm::joint_array<E>&>(*srca), *o);
                                else if (form == F_MOVE)
                                    a = new fm::joint_array<E>(std::move(*srca), *o);
                                else
                                    a = new fm::joint_array<E>(
                                        make_arr<E>(static_cast<int>(form), n, pe.data(), *o));
                                h.reset(new HArr(a, o));
                            });
                    rt.cl1 = static_cast<long>(o->cap_left());
                    if (h)
                        rt.cnt = static_cast<long>(h->arr->size());
                }
                cx.slots.push_back(std::move(h));
                if (o)
                    log_pieces(cx, o);
                emit_ret(cx.c, "ja", rt);
                return true;
            }
            if (op == "jraw")
            {
                long s = c.arg(0);
                auto sz = static_cast<std::size_t>(c.arg(1)), al = static_cast<std::size_t>(c.arg(2, 1));
                J*   o = obj(cx, s);
                emit_call(cx.c, "jraw", s, -1, static_cast<long>(al), static_cast<long>(sz), 0, -1);
                Ret rt;
                if (!o)
                    rt.r = "empty";
                else
                {
                    rt.j   = o->reg.id;
                    rt.cl0 = static_cast<long>(o->cap_left());
                    guarded(rt, 0,
                            [&]
                            {
                                fm::joint_allocator ja(*o);
                                void*               p = ja.allocate_node(sz, al);
                                if (!p)
                                    rt.r = "null";
                                else
                                    raws[o].push_back(RawPiece{p, sz, al, true});
                            });
                    rt.cl1 = static_cast<long>(o->cap_left());
                    log_pieces(cx, o);
                }
                emit_ret(cx.c, "jraw", rt);
                return true;
            }
            if (op == "jrawfree")
            {
                long s = c.arg(0);
                J*   o = obj(cx, s);
                emit_call(cx.c, "jrawfree", s, -1, -1, c.arg(1), 0, -1);
                Ret rt;
                if (!o || raws[o].empty())
                    rt.r = "empty";
                else
                {
                    auto&     v = raws[o];
                    RawPiece& p = v[static_cast<std::size_t>(c.arg(1)) % v.size()];
                    rt.j        = o->reg.id;
                    rt.cl0      = static_cast<long>(o->cap_left());
                    if (p.live)
                    {
                        fm::joint_allocator ja(*o);
                        ja.deallocate_node(p.p, p.sz, p.al);
                        p.live = false;
                    }
                    else
                        rt.r = "empty";
                    rt.cl1 = static_cast<long>(o->cap_left());
                    log_pieces(cx, o);
                }
                emit_ret(cx.c, "jrawfree", rt);
                return true;
            }
            if (op == "vpush")
            {
                long s = c.arg(0), cnt = c.arg(1), k = c.arg(2);
                J*   o = obj(cx, s);
                emit_call(cx.c, "vpush", s, -1, -1, cnt, k, -1);
                Ret rt;
                if (!o)
                    rt.r = "empty";
                else
                {
                    rt.j   = o->reg.id;
                    rt.cl0 = static_cast<long>(o->cap_left());
                    guarded(rt, k,
                            [&]
                            {
                                for (long i = 0; i < cnt; ++i)
                                    o->v.emplace_back(static_cast<int>(60 + i));
                            });
                    rt.cl1 = static_cast<long>(o->cap_left());
                    log_pieces(cx, o);
                }
                emit_ret(cx.c, "vpush", rt);
                return true;
            }
            if (op == "vmove")
            {
                // container move assignment between the vector members of two joint objects: joint allocators of
                // different objects are unequal and do not propagate, so the elements move into the target's own block
                long s = c.arg(0), s2 = c.arg(1);
                J*   o = obj(cx, s);
                J*   q = obj(cx, s2);
                emit_call(cx.c, "vmove", s, s2, -1, -1, 0, -1);
                Ret rt;
                if (!o || !q || o == q)
                    rt.r = "empty";
                else
                {
                    rt.j   = o->reg.id;
                    rt.cl0 = static_cast<long>(o->cap_left());
                    guarded(rt, 0, [&] { o->v = std::move(q->v); });
                    rt.cl1 = static_cast<long>(o->cap_left());
                    log_pieces(cx, o);
                    log_pieces(cx, q);
                }
                emit_ret(cx.c, "vmove", rt);
                return true;
            }
            if (op == "pieces")
            {
                long s = c.arg(0);
                J*   o = obj(cx, s);
                emit_call(cx.c, "pieces", s, -1, -1, -1, 0, -1);
                Ret rt;
                if (!o)
                    rt.r = "empty";
                else
                {
                    rt.j = o->reg.id;
                    log_pieces(cx, o);
                }
                emit_ret(cx.c, "pieces", rt);
                return true;
            }
            return false;
        }
    };
} // namespace vc
#endif
