// verif driver "construct": shared declarations (C20 object-creating helpers, C11 joint allocations).
// Non-template machinery lives in construct.cpp; everything that depends on the element type is in
// construct_typed.hpp and instantiated once per element type in construct_e*.cpp.
#ifndef VERIF_CONSTRUCT_HPP
#define VERIF_CONSTRUCT_HPP
#include <cstddef>
#include <cstdint>
#include <map>
#include <memory>
#include <string>
#include <vector>

#include <verif/observe.hpp>
#include <verif/script.hpp>

namespace vc
{
    using namespace verif;

    // the exception injected by the instrumented element type
    struct verif_injected
    {
        int      id;
        unsigned magic;
    };
    constexpr unsigned injected_magic = 0x5eedc0deu;

    struct Globals
    {
        std::map<const void*, int> elems; // live elements by address -> serial
        int                        next_serial = 0;
        long                       countdown   = 0; // >0: the countdown-th construction from now throws
        int                        next_inj    = 1000;
        std::map<const void*, int> jobjs; // live joint objects by address -> serial
        int                        next_j = 0;
    };
    Globals& G();

    // element type hooks (record; elem_construct throws verif_injected when the countdown hits)
    void elem_construct(const void* self, const char* kind, const void* src, std::size_t sz);
    void elem_destroy(const void* self, bool intact) noexcept;
    int  elem_serial(const void* self);

    // ---- instrumented element type -----------------------------------------------------------
    // NoThrow = true: constructors are noexcept (the helpers take their "cannot throw" path, e.g. the
    // construct(std::true_type, ...) overload behind allocate_unique<T[]>); such an element never throws,
    // whatever throw position the script asks for
    void elem_construct_nt(const void* self, const char* kind, const void* src, std::size_t sz) noexcept;
    template <std::size_t Size, std::size_t Align, bool NoThrow = false>
    struct Elem
    {
        static void note(const void* self, const char* kind, const void* src) noexcept(NoThrow)
        {
            if (NoThrow)
                elem_construct_nt(self, kind, src, Size);
            else
                elem_construct(self, kind, src, Size);
        }
        alignas(Align) unsigned char v[Size];

        // the element carries its own integrity mark: a destructor that runs after the storage was given
        // back (and filled by the library's debug fill) sees a broken mark
        void seal() noexcept
        {
            if (Size >= 2)
                v[Size - 1] = static_cast<unsigned char>(v[0] ^ 0x5A);
        }
        bool intact() const noexcept
        {
            unsigned char c = v[0];
            if (c == 0xFB || c == 0xDD || c == 0xCD || c == 0xED || c == 0xFD || c == 0xAB)
                return false; // a debug fill pattern (the driver never stores these values)
            return Size < 2 || v[Size - 1] == static_cast<unsigned char>(c ^ 0x5A);
        }

        Elem() noexcept(NoThrow) : v{}
        {
            note(this, "default", nullptr);
            v[0] = 0x11;
            seal();
        }
        explicit Elem(int val) noexcept(NoThrow) : v{}
        {
            note(this, "value", nullptr);
            v[0] = static_cast<unsigned char>(val & 0x7f);
            // keep clear of values whose moved-from mark (| 0x80) would equal a debug fill pattern
            if (v[0] == 0x7B || v[0] == 0x5D || v[0] == 0x4D || v[0] == 0x6D || v[0] == 0x7D || v[0] == 0x2B)
                v[0] ^= 0x01;
            seal();
        }
        Elem(const Elem& o) noexcept(NoThrow) : v{}
        {
            note(this, "copy", &o);
            v[0] = o.v[0];
            seal();
        }
        Elem(Elem&& o) noexcept(NoThrow) : v{} // (NoThrow = false) deliberately not noexcept: a move may fail too
        {
            note(this, "move", &o);
            v[0] = o.v[0];
            seal();
            o.v[0] = static_cast<unsigned char>(o.v[0] | 0x80);
            o.seal();
        }
        Elem& operator=(const Elem& o)
        {
            v[0] = o.v[0];
            seal();
            return *this;
        }
        ~Elem()
        {
            elem_destroy(this, intact());
        }
        unsigned val() const
        {
            return v[0];
        }
    };
    static_assert(sizeof(Elem<1, 1>) == 1 && alignof(Elem<16, 16>) == 16, "layout");

    using B1 = Elem<1, 1>; // second element type of the joint test object (mixed alignments)

    // ---- instrumented RawAllocator in front of a leaf / real allocator --------------------------
    struct Backend
    {
        virtual ~Backend() {}
        virtual void* an(std::size_t size, std::size_t al)                              = 0;
        virtual void* aa(std::size_t n, std::size_t size, std::size_t al)               = 0;
        virtual void  dn(void* p, std::size_t size, std::size_t al) noexcept            = 0;
        virtual void  da(void* p, std::size_t n, std::size_t size, std::size_t al) noexcept = 0;
        // residue modulo 2*al of the base of the next block (0 if the backend cannot tell); only
        // used to choose inputs ("exact fit")
        virtual std::size_t next_base_mod(std::size_t) const
        {
            return 0;
        }
    };
    Backend* make_backend(const std::string& kind, const std::string& skew);

    class LogAlloc;
    // stateless face of the instrumented allocator (an empty class forwarding to the execution's LogAlloc): the
    // helpers have separate overloads for allocators passed by const reference / as temporaries
    LogAlloc*& slog_target();
    struct SLog
    {
        void* allocate_node(std::size_t size, std::size_t alignment);
        void  deallocate_node(void* p, std::size_t size, std::size_t alignment) noexcept;
        std::size_t max_node_size() const noexcept
        {
            return std::size_t(1) << 30;
        }
    };

    struct LiveAlloc
    {
        int         id;
        char        kind;
        std::size_t n, sz, al;
    };

    class LogAlloc
    {
    public:
        using is_stateful = std::true_type;

        explicit LogAlloc(Backend* b) : be_(b) {}
        LogAlloc(const LogAlloc&)            = delete;
        LogAlloc& operator=(const LogAlloc&) = delete;

        void* allocate_node(std::size_t size, std::size_t alignment);
        void* allocate_array(std::size_t count, std::size_t size, std::size_t alignment);
        void  deallocate_node(void* p, std::size_t size, std::size_t alignment) noexcept;
        void  deallocate_array(void* p, std::size_t count, std::size_t size,
                               std::size_t alignment) noexcept;
        std::size_t max_node_size() const noexcept
        {
            return std::size_t(1) << 30;
        }
        std::size_t max_array_size() const noexcept
        {
            return std::size_t(1) << 30;
        }
        std::size_t max_alignment() const noexcept
        {
            return 4096;
        }
        std::size_t next_base_mod(std::size_t al) const
        {
            return be_->next_base_mod(al);
        }

    private:
        void* alloc(char kind, std::size_t n, std::size_t size, std::size_t al);
        void  dealloc(char kind, void* p, std::size_t n, std::size_t size, std::size_t al) noexcept;
        Backend*                   be_;
        std::map<void*, LiveAlloc> live_;
        static int& next_id() // ids are unique over all allocator objects of an execution
        {
            static int n = 0;
            return n;
        }
    };

    // ---- joint object registration (first member of the joint test type) ------------------------
    struct JReg
    {
        int id;
        JReg(const void* obj, std::size_t osz, std::size_t oal, int copyof, std::size_t cap);
        ~JReg();
        JReg(const JReg&)            = delete;
        JReg& operator=(const JReg&) = delete;
    };
    int joint_serial(const void* obj); // -1 null, -2 unknown

    // ---- per-call bookkeeping ------------------------------------------------------------------
    struct Ret
    {
        std::string r   = "ok";
        long        inj = -1;
        long        cnt = -1;           // number of elements the result reports
        long        j   = -1;           // serial of the joint object created / concerned
        long        g1 = -3, g2 = -3;   // joint object owned by slot s / s2 after the call
        long        cl0 = -1, cl1 = -1; // joint capacity_left before / after
        long        vs0 = -1, vs1 = -1; // value sum of the source object before / after
    };
    void emit_call(long c, const char* op, long s, long s2, long form, long n, long k, long add);
    void emit_ret(long c, const char* op, const Ret& rt);

    // runs f with the construction countdown armed at k and classifies the outcome
    template <class F>
    void guarded(Ret& rt, long k, F&& f)
    {
        G().countdown = k;
        try
        {
            f();
        }
        catch (verif_injected& e)
        {
            rt.r   = e.magic == injected_magic ? "throw:injected" : "throw:injected_damaged";
            rt.inj = e.id;
        }
        catch (fm::out_of_fixed_memory&)
        {
            rt.r = "throw:out_of_fixed_memory";
        }
        catch (fm::out_of_memory&)
        {
            rt.r = "throw:out_of_memory";
        }
        catch (fm::bad_allocation_size&)
        {
            rt.r = "throw:bad_allocation_size";
        }
        catch (std::bad_alloc&)
        {
            rt.r = "throw:bad_alloc";
        }
        catch (std::exception&)
        {
            rt.r = "throw:std_exception";
        }
        catch (...)
        {
            rt.r = "throw:unknown";
        }
        G().countdown = 0;
    }

    // ---- results ---------------------------------------------------------------------------------
    struct Holder
    {
        virtual ~Holder() {}
        virtual void    reset()                   = 0;
        virtual Holder* move_construct()          = 0; // new holder owning what this one owned
        virtual bool    move_assign(Holder& from) = 0; // false: kinds differ, nothing done
        virtual bool    swap_with(Holder& other)  = 0;
        virtual long    owner_j() const
        {
            return -3;
        }
        virtual int rank() const // results with rank 0 are destroyed first at the end
        {
            return 1;
        }
    };

    struct Ctx
    {
        LogAlloc*                            alloc = nullptr;
        LogAlloc*                            allocs[2] = {nullptr, nullptr};
        std::vector<std::unique_ptr<Holder>> slots;
        long                                 c = 0; // command index
    };

    struct ITyped
    {
        virtual ~ITyped() {}
        // returns false if the command is not known
        virtual bool cmd(Ctx& cx, const Cmd& c) = 0;
    };
    ITyped* make_typed_e1();
    ITyped* make_typed_e3();
    ITyped* make_typed_e4();
    ITyped* make_typed_e8();
    ITyped* make_typed_e12();
    ITyped* make_typed_e16();
    ITyped* make_typed_e8n();
} // namespace vc
#endif
