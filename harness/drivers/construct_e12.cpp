// verif driver "construct": instantiation for Elem<12, 4>
#include "construct_typed.hpp"
namespace vc
{
    ITyped* make_typed_e12()
    {
        return new Typed<Elem<12, 4>>();
    }
} // namespace vc
