#include <verif/subject.hpp>
namespace verif
{
    template <bool Cached>
    static ISubject* arena_src(const Exec& x, void* where, int src)
    {
        std::string s  = x.str("src", "grow");
        auto        bs = static_cast<std::size_t>(x.num("bs", 256));
        if (s == "grow")
            return new ArenaSubj<src_grow, Cached>(where, src, bs);
        if (s == "fixed")
            return new ArenaSubj<src_fixed, Cached>(where, src, bs);
        if (s == "static")
            return new ArenaSubj<src_static, Cached>(where, src, bs);
        if (s == "virtual")
            return new ArenaSubj<src_virtual, Cached>(where, src, bs);
        return nullptr;
    }
    ISubject* make_arena(const Exec& x, void* where, int src)
    {
        return x.num("cached", 1) ? arena_src<true>(x, where, src) : arena_src<false>(x, where, src);
    }
} // namespace verif
