// verif driver "construct": instantiation for Elem<1, 1>
#include "construct_typed.hpp"
namespace vc
{
    ITyped* make_typed_e1()
    {
        return new Typed<Elem<1, 1>>();
    }
} // namespace vc
