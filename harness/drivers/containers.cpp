// verif driver "containers" (C10): standard containers over std_allocator<T, RawAllocator> bound to
// two instrumented stateful allocator objects.  Records every request that reaches a leaf, the
// allocator each container is bound to after every operation, whether the contents still equal a
// std::allocator twin, allocator equality, and the node sizes requested.  Records; does not judge.
//   usage: containers <script> <trace-out>
#include <cstdio>
#include <fcntl.h>

#include <foonathan/memory/joint_allocator.hpp>
#include <foonathan/memory/memory_pool.hpp>
#include <foonathan/memory/memory_resource_adapter.hpp>
#include <foonathan/memory/smart_ptr.hpp>

#include <verif/child.hpp>

#include "containers.hpp"

using namespace verif;

namespace vc
{
    std::map<std::string, Factory>& registry()
    {
        static std::map<std::string, Factory> r;
        return r;
    }

    static vleaf* g_leaves[3] = {nullptr, nullptr, nullptr};
    vleaf*        leaf_by_tag(int tag)
    {
        return g_leaves[tag];
    }
    static vleaf_np* g_np[3] = {nullptr, nullptr, nullptr};
    vleaf_np*        np_leaf_by_tag(int tag)
    {
        return g_np[tag];
    }

    void vleaf::log(const char* op, std::size_t n, std::size_t sz, std::size_t al, const char* r, const void* p)
    {
        long blk = -1, off = 0;
        if (p)
            world().project(p, blk, off);
        Ev("leaf").i("L", tag).s("op", op).u("n", n).u("sz", sz).u("al", al).s("r", r).i("b", blk).i("off", off);
    }
    void* vleaf::take(bool array, std::size_t n, std::size_t sz, std::size_t al, const char* op)
    {
        std::size_t bytes = n * sz ? n * sz : 1;
        std::size_t gap;
        char*       p   = world().take(bytes, al, gap);
        int         blk = world().add_block(p, bytes, al, 100 + tag, false, gap);
        live[p]         = Shape{array, n, sz, al, blk};
        log(op, n, sz, al, "ok", p);
        return p;
    }
    void vleaf::give(void* p, bool array, std::size_t n, std::size_t sz, std::size_t al, const char* op)
    {
        auto it = live.find(p);
        if (it == live.end())
        {
            log(op, n, sz, al, "unknown", p);
            return;
        }
        (void)array;
        log(op, n, sz, al, "ok", p);
        world().blocks[static_cast<std::size_t>(it->second.blk)].live = false;
        live.erase(it);
    }
} // namespace vc

namespace
{
    using namespace vc;

    void state(IBoxSet& b, const char* op, int a, int c)
    {
        std::string binds = "[", sizes = "[", twins = "[";
        for (int s = 0; s < 3; ++s)
        {
            binds += (s ? "," : "") + std::to_string(b.bound(s));
            sizes += (s ? "," : "") + std::to_string(b.size(s));
            twins += std::string(s ? "," : "") + (b.twin_ok(s) ? "true" : "false");
        }
        Ev("cop").s("op", op).i("a", a).i("c", c).raw("bind", binds + "]").raw("size", sizes + "]").raw("twin", twins + "]");
    }

    // a real pool sized with the library's node size constant serves the container (C10, last sentence)
    template <class C>
    long misaligned(const C& c)
    {
        long mis = 0;
        for (auto& e : c)
            if (reinterpret_cast<std::uintptr_t>(&e) % alignof(typename C::value_type) != 0)
                ++mis;
        return mis;
    }
    template <class PoolType>
    const char* pool_name();
    template <>
    const char* pool_name<fm::node_pool>()
    {
        return "node";
    }
    template <>
    const char* pool_name<fm::array_pool>()
    {
        return "array";
    }
    template <>
    const char* pool_name<fm::small_node_pool>()
    {
        return "small";
    }
    template <class T, class PoolType = fm::node_pool>
    void pool_serves_list(int n)
    {
        using pool_t = fm::memory_pool<PoolType, raw_up>;
        pool_t pool(fm::list_node_size<T>::value, pool_t::min_block_size(fm::list_node_size<T>::value, 16));
        long        mis = 0;
        std::string r   = classify(
            [&]
            {
                std::list<T, fm::std_allocator<T, pool_t>> l(pool);
                for (int i = 0; i < n; ++i)
                    l.push_back(T(i));
                mis += misaligned(l);
                for (int i = 0; i < n / 2; ++i)
                    l.pop_front();
                for (int i = 0; i < n / 2; ++i)
                    l.push_back(T(i));
                mis += misaligned(l);
            });
        Ev("poolrun").s("cont", "list").s("pool", pool_name<PoolType>()).u("tsize", sizeof(T)).u("talign", alignof(T)).u(
            "constant", fm::list_node_size<T>::value).s("r", r).i("mis", mis);
    }
    template <class T, class PoolType = fm::node_pool>
    void pool_serves_set(int n)
    {
        using pool_t = fm::memory_pool<PoolType, raw_up>;
        pool_t pool(fm::set_node_size<T>::value, pool_t::min_block_size(fm::set_node_size<T>::value, 16));
        long        mis = 0;
        std::string r   = classify(
            [&]
            {
                std::set<T, std::less<T>, fm::std_allocator<T, pool_t>> s(std::less<T>(), pool);
                for (int i = 0; i < n; ++i)
                    s.insert(T(i));
                mis += misaligned(s);
                for (int i = 0; i < n / 2; ++i)
                    s.erase(s.begin());
                for (int i = 0; i < n / 2; ++i)
                    s.insert(T(1000 + i));
                mis += misaligned(s);
            });
        Ev("poolrun").s("cont", "set").s("pool", pool_name<PoolType>()).u("tsize", sizeof(T)).u("talign", alignof(T)).u(
            "constant", fm::set_node_size<T>::value).s("r", r).i("mis", mis);
    }
    template <class T>
    void shared_run()
    {
        using pool_t = fm::memory_pool<fm::node_pool, raw_up>;
        constexpr auto sz = fm::allocate_shared_node_size<T, pool_t>::value;
        pool_t         pool(sz, pool_t::min_block_size(sz, 8));
        std::string    r = classify(
            [&]
            {
                auto a = fm::allocate_shared<T>(pool, 1);
                auto b = fm::allocate_shared<T>(pool, 2);
                a.reset();
                auto c = fm::allocate_shared<T>(pool, 3);
            });
        Ev("poolrun").s("cont", "shared_ptr").s("pool", "node").u("tsize", sizeof(T)).u("talign", alignof(T)).u("constant", sz).s("r", r).i("mis", 0);
    }

    void run_exec(const Exec& x)
    {
        vleaf la(0), lb(1), lc(2);
        g_leaves[0] = &la;
        g_leaves[1] = &lb;
        g_leaves[2] = &lc;
        vleaf_np na(0), nb(1), nc(2);
        g_np[0] = &na;
        g_np[1] = &nb;
        g_np[2] = &nc;
        std::string name = x.str("cont") + ":" + x.str("elem") + (x.num("np") ? ":np" : x.num("any") ? ":any" : "");
        if (x.str("cont") == "pool")
        {
            int n = static_cast<int>(x.num("n", 40));
            pool_serves_list<E<1, 1>>(n);
            pool_serves_list<E<8, 8>>(n);
            pool_serves_list<E<17, 1>>(n);
            pool_serves_list<E<32, 16>>(n);
            pool_serves_list<E<24, 4>>(n);
            pool_serves_set<E<2, 2>>(n);
            pool_serves_set<E<9, 1>>(n);
            pool_serves_set<E<16, 16>>(n);
            pool_serves_set<E<64, 8>>(n);
            // every pool type: the chunk layout of small_node_pool and the ordered list have their own alignment rules
            pool_serves_list<E<1, 1>, fm::small_node_pool>(n);
            pool_serves_list<E<8, 8>, fm::small_node_pool>(n);
            pool_serves_list<E<16, 16>, fm::small_node_pool>(n);
            pool_serves_list<E<32, 16>, fm::small_node_pool>(n);
            pool_serves_set<E<9, 1>, fm::small_node_pool>(n);
            pool_serves_set<E<16, 16>, fm::small_node_pool>(n);
            pool_serves_list<E<3, 1>, fm::array_pool>(n);
            pool_serves_list<E<32, 16>, fm::array_pool>(n);
            pool_serves_set<E<16, 16>, fm::array_pool>(n);
            pool_serves_set<E<64, 8>, fm::array_pool>(n);
            shared_run<E<4, 4>>();
            shared_run<E<24, 8>>();
            shared_run<E<128, 16>>();
            Ev("cend").u("leaf_live", 0).u("max_node_req", 0).u("constant", 0).s("name", "pool");
            return;
        }
        if (x.str("cont") == "pmreq")
        {
            // memory_resource_adapter: two adapters over different allocator objects are different resources (a
            // polymorphic_allocator container treats equal resources as interchangeable); an adapter equals itself
            fm::memory_resource_adapter<fm::allocator_reference<vleaf>> ra(fm::make_allocator_reference(la)),
                rb(fm::make_allocator_reference(lb));
            const fm::memory_resource& ma = ra;
            const fm::memory_resource& mb = rb;
            Ev("cbox").s("name", name).b("ok", true).i("prop", 7).b("single", false);
            Ev("ceq").i("a", 0).i("c", 1).i("eq", ma.is_equal(mb) ? 1 : 0).i("ba", 0).i("bc", 1);
            Ev("ceq").i("a", 1).i("c", 0).i("eq", mb == ma ? 1 : 0).i("ba", 1).i("bc", 0);
            Ev("ceq").i("a", 0).i("c", 0).i("eq", ma.is_equal(ma) ? 1 : 0).i("ba", 0).i("bc", 0);
            Ev("cend").u("leaf_live", 0).u("max_node_req", 0).u("constant", 0).s("name", "pmreq");
            return;
        }
        if (x.str("cont") == "anyeq")
        {
            // type-erased std_allocator: equality must still mean "refers to the same allocator object"
            fm::any_std_allocator<int> a(la), b(lb), c(la);
            Ev("cbox").s("name", name).b("ok", true).i("prop", 7).b("single", false);
            Ev("ceq").i("a", 0).i("c", 1).i("eq", a == b ? 1 : 0).i("ba", 0).i("bc", 1);
            Ev("ceq").i("a", 0).i("c", 2).i("eq", a == c ? 1 : 0).i("ba", 0).i("bc", 0);
            Ev("ceq").i("a", 1).i("c", 2).i("eq", b == c ? 1 : 0).i("ba", 1).i("bc", 0);
            Ev("cend").u("leaf_live", 0).u("max_node_req", 0).u("constant", 0).s("name", "anyeq");
            return;
        }
        if (x.str("cont") == "sharedeq")
        {
            // shared allocators (joint_allocator): two std_allocators over the same joint memory are equal - memory
            // of one may be released through the other - and differ from one over another joint object; != is the
            // negation of ==
            struct JJ : fm::joint_type<JJ>
            {
                explicit JJ(fm::joint j) : fm::joint_type<JJ>(j) {}
            };
            auto j1 = fm::allocate_joint<JJ>(la, fm::joint_size(64));
            auto j2 = fm::allocate_joint<JJ>(la, fm::joint_size(64));
            fm::std_allocator<int, fm::joint_allocator>  a{fm::joint_allocator(*j1)}, b{fm::joint_allocator(*j2)};
            fm::std_allocator<char, fm::joint_allocator> c{fm::joint_allocator(*j1)};
            fm::std_allocator<int, fm::joint_allocator>  d(c); // rebound copy
            Ev("cbox").s("name", name).b("ok", true).i("prop", 0).b("single", false);
            Ev("ceq").i("a", 0).i("c", 1).i("eq", a == b ? 1 : 0).i("ba", 0).i("bc", 1);
            Ev("ceq").i("a", 0).i("c", 2).i("eq", a == d ? 1 : 0).i("ba", 0).i("bc", 0);
            Ev("ceq").i("a", 1).i("c", 2).i("eq", b == d ? 1 : 0).i("ba", 1).i("bc", 0);
            Ev("ceq").i("a", 0).i("c", 1).i("eq", a != b ? 0 : 1).i("ba", 0).i("bc", 1);
            Ev("ceq").i("a", 0).i("c", 2).i("eq", a != d ? 0 : 1).i("ba", 0).i("bc", 0);
            // the same for the plain stateful case
            fm::std_allocator<int, vleaf> p(la), q(lb), r(la);
            Ev("ceq").i("a", 0).i("c", 1).i("eq", p != q ? 0 : 1).i("ba", 0).i("bc", 1);
            Ev("ceq").i("a", 0).i("c", 2).i("eq", p != r ? 0 : 1).i("ba", 0).i("bc", 0);
            j1.reset();
            j2.reset();
            Ev("cend").u("leaf_live", la.live.size()).u("max_node_req", 0).u("constant", 0).s("name", "sharedeq");
            return;
        }
        auto it = registry().find(name);
        if (it == registry().end())
        {
            Ev("cbox").s("name", name).b("ok", false).i("prop", 0).b("single", false);
            return;
        }
        std::unique_ptr<IBoxSet> box(it->second());
        IBoxSet&                 b = *box;
        // single=1: every container of the execution is bound to the same allocator object
        bool single = x.num("single") != 0;
        Ev("cbox").s("name", name).b("ok", true).i("prop", b.propagation()).b("single", single);
        int                      v = 0;
        b.make(0, 0);
        b.make(1, single ? 0 : 1);
        state(b, "init", 0, 1);
        for (auto& c : x.cmds)
        {
            int                a = static_cast<int>(c.arg(0)) % 3, d = static_cast<int>(c.arg(1)) % 3;
            const std::string& op = c.op;
            if (op == "new")
            {
                if (!b.has(a))
                {
                    b.make(a, single ? 0 : d % 2);
                    state(b, "new", a, single ? 0 : d % 2);
                }
            }
            else if (!b.has(a))
                continue;
            else if (op == "ins")
            {
                b.ins(a, static_cast<int>(c.arg(1, 1)), v);
                state(b, "ins", a, -1);
            }
            else if (op == "era")
            {
                b.era(a);
                state(b, "era", a, -1);
            }
            else if (op == "clr")
            {
                b.clr(a);
                state(b, "clr", a, -1);
            }
            else if (op == "del")
            {
                b.del(a);
                state(b, "del", a, -1);
            }
            else if (op == "cpy" && a != d && !b.has(d))
            {
                b.cpy(a, d);
                state(b, "cpy", a, d);
            }
            else if (op == "mov" && a != d && !b.has(d))
            {
                b.mov(a, d);
                state(b, "mov", a, d);
            }
            else if (op == "cas" && a != d && b.has(d))
            {
                b.cas(a, d);
                state(b, "cas", a, d);
            }
            else if (op == "mas" && a != d && b.has(d))
            {
                b.mas(a, d);
                state(b, "mas", a, d);
            }
            else if (op == "swp" && a != d && b.has(d))
            {
                b.swp(a, d);
                state(b, "swp", a, d);
            }
            else if (op == "spl" && a != d && b.has(d) && b.eq(a, d) == 1)
            {
                // splicing requires equal allocators
                if (b.spl(a, d))
                    state(b, "spl", a, d);
            }
            else if (op == "eq" && a != d && b.has(d))
                Ev("ceq").i("a", a).i("c", d).i("eq", b.eq(a, d)).i("ba", b.bound(a)).i("bc", b.bound(d));
        }
        std::size_t constant = b.node_constant();
        box.reset();
        std::size_t mx = std::max(std::max(la.max_node_req, std::max(lb.max_node_req, lc.max_node_req)),
                                  std::max(na.max_node_req, std::max(nb.max_node_req, nc.max_node_req)));
        Ev("cend").u("leaf_live", la.live.size() + lb.live.size() + lc.live.size() + na.live.size() + nb.live.size() + nc.live.size()).u("max_node_req", mx).u(
            "constant", constant).s("name", name);
    }
} // namespace

int main(int argc, char** argv)
{
    if (argc < 3)
    {
        std::fprintf(stderr, "usage: containers <script> <trace-out>\n");
        return 2;
    }
    auto execs = load_script(argv[1]);
    int  fd    = ::open(argv[2], O_WRONLY | O_CREAT | O_APPEND, 0644);
    if (fd < 0)
        return 2;
    trace_fd() = fd;
    install_handlers();
    emit_cfg("containers");
    long xn = 0;
    for (auto& x : execs)
    {
        Ev("x").i("n", xn++).s("hdr", x.header).emit();
        run_child(
            [&]
            {
                world().init();
                run_exec(x);
            });
    }
    return 0;
}
