#include "containers_box.hpp"
namespace vc {
using E4_4 = E<4,4>;
VC_REGISTER_ELEM(E4_4, E4_4)
using E8_8 = E<8,8>;
VC_REGISTER_ELEM(E8_8, E8_8)
using E9_1 = E<9,1>;
VC_REGISTER_ELEM(E9_1, E9_1)
VC_REGISTER_ELEM_NP(E8_8, E8_8)
VC_REGISTER_ELEM_ANY(E8_8, E8_8)
}
