// verif driver "badcall" (C16): each execution is a valid history on a pool / memory stack / block
// source followed by ONE invalid release.  The execution runs in a forked child whose
// invalid-pointer handler logs (with the subject's counters as they are at that moment) and
// _exit(42)s; the parent records how the child ended (`died`: exit 42 / signal / timeout; nothing =
// the call returned and the program went on).  It records; it does not judge: whether the last call
// is invalid, and of which class, is decided by the contract from the recorded history.
//   usage: badcall <script> <trace-out>
//
// Script:  X fam=pool type=node|array|small ns=<n> nodes=<n>|bs=<bytes> place=lo|hi
//          X fam=stack bs=<bytes> place=lo|hi
//          X fam=sblk|vblk|fblk bs=<bytes> nb=<blocks>
//   an                 allocate a node / sa <size> <align> allocate from the stack
//   dn <k>             release the k-th live node (mod number of live nodes)
//   mk                 take a marker;  uw <j> unwind to marker j (valid use)
//   ab / db            allocate a block / return the most recent outstanding block
//   bad foreign <w>    release a pointer the pool never handed out: w = 0 inside another allocator's
//                      block, 1 shortly before the pool's first block, 2 one past the end of its
//                      last block, 3 the header area of its first block, 4 behind its last block
//   bad off <k> <d>    release live[k] + (d mod (node_size-1)) + 1
//   bad double <s>     release a node the script has already released: s = 0 lowest address,
//                      1 highest, 2 most recently released, 3 middle
//   bad unwind <j>     unwind to marker j (the script makes it stale beforehand)
//   bad block <k>      return outstanding block k (0 = oldest) / for fblk: the block returned before
#include <algorithm>
#include <cstdio>
#include <cstring>
#include <fcntl.h>
#include <functional>
#include <string>
#include <vector>

#include <foonathan/memory/memory_pool.hpp>
#include <foonathan/memory/memory_stack.hpp>
#include <foonathan/memory/static_allocator.hpp>
#include <foonathan/memory/virtual_memory.hpp>

#include <verif/child.hpp>
#include <verif/observe.hpp>
#include <verif/script.hpp>

using namespace verif;

namespace
{
    // counters of the subject under test, readable from inside the handler
    std::function<void(long long&, long long&)>& counters()
    {
        static std::function<void(long long&, long long&)> f;
        return f;
    }
    void read_counters(long long& s1, long long& s2)
    {
        s1 = s2 = -1;
        if (counters())
            counters()(s1, s2);
    }

    void bc_invptr(const fm::allocator_info& info, const void* ptr)
    {
        long blk, off;
        world().project(ptr, blk, off);
        long long s1, s2;
        read_counters(s1, s2);
        const char* name = info.name;
        const char* pre  = FOONATHAN_MEMORY_LOG_PREFIX "::";
        if (std::strncmp(name, pre, std::strlen(pre)) == 0)
            name += std::strlen(pre);
        Ev("h").s("k", "invptr").s("name", name).i("b", blk).i("off", off).ic("s1", s1).ic("s2", s2).emit();
        if (handler_mode().exit_on_invalid_ptr)
            _exit(42);
    }

    struct Op
    {
        Ev e;
        explicit Op(const char* op) : e("op")
        {
            e.s("op", op);
        }
        // fixed key set: op, id, r, b, off, len, s1, s2
        void done(long long id, const std::string& r, long b, long off, std::size_t len)
        {
            long long s1, s2;
            read_counters(s1, s2);
            e.i("id", id).s("r", r).i("b", b).i("off", off).u("len", len).ic("s1", s1).ic("s2", s2);
        }
    };

    void announce(const char* kind, long long id, const void* p, std::size_t len)
    {
        long blk = -1, off = 0;
        if (p)
            world().project(p, blk, off);
        long long s1, s2;
        read_counters(s1, s2);
        Ev("bad").s("kind", kind).i("id", id).i("b", blk).i("off", off).u("len", len).ic("s1", s1).ic("s2", s2).emit();
    }
    void returned(const std::string& r)
    {
        long long s1, s2;
        read_counters(s1, s2);
        Ev("ret").s("r", r).ic("s1", s1).ic("s2", s2).emit();
    }

    // fixed key set: fam, type, src, r, hdr, ns, s1, s2
    void emit_new(const Exec& x, int src, const std::string& r, std::size_t ns)
    {
        long long s1, s2;
        read_counters(s1, s2);
        Ev("new")
            .s("fam", x.str("fam"))
            .s("type", x.str("type", "-"))
            .i("src", src)
            .s("r", r)
            .u("hdr", fm::detail::memory_block_stack::implementation_offset())
            .u("ns", ns)
            .b("hi", x.str("place", "hi") == "hi")
            .ic("s1", s1)
            .ic("s2", s2);
    }

    void* slot(const Exec& x)
    {
        return x.str("place", "hi") == "hi" ? world().high_slot : world().low_slot;
    }

    struct Live
    {
        int   id;
        void* p;
    };

    // ---- pools ------------------------------------------------------------------------------
    template <class PT>
    void run_pool(const Exec& x)
    {
        using Pool = fm::memory_pool<PT, raw_up>;
        auto ns    = static_cast<std::size_t>(x.num("ns", 8));
        auto bs    = static_cast<std::size_t>(x.num("bs", 1024));
        if (x.num("nodes") > 0)
            bs = Pool::min_block_size(ns, static_cast<std::size_t>(x.num("nodes")))
                 + static_cast<std::size_t>(x.num("extra", 0));
        int   src  = world().next_src++;
        Pool* pool = nullptr;
        {
            std::string r = classify([&] { pool = ::new (slot(x)) Pool(ns, bs, raw_up(src)); });
            if (pool)
                counters() = [pool](long long& a, long long& b)
                {
                    a = static_cast<long long>(pool->capacity_left());
                    b = static_cast<long long>(pool->next_capacity());
                };
            emit_new(x, src, r, pool ? pool->node_size() : 0);
        }
        if (!pool)
            return;
        std::vector<Live>  live;
        std::vector<void*> freed; // released by the script and not handed out again, oldest first
        int                next_id = 0;
        std::size_t        nsz     = pool->node_size();
        for (auto& c : x.cmds)
        {
            if (c.op == "an")
            {
                Op          op("an");
                void*       p = nullptr;
                std::string r = classify([&] { p = pool->allocate_node(); });
                long        b = -1, off = 0;
                int         id = 0;
                if (p)
                {
                    world().project(p, b, off);
                    id = ++next_id;
                    live.push_back(Live{id, p});
                    freed.erase(std::remove(freed.begin(), freed.end(), p), freed.end());
                }
                op.done(id, r, b, off, nsz);
            }
            else if (c.op == "fill")
            {
                // every node the pool has without growing (so the last node of the last chunk is out as well)
                while (pool->capacity_left() >= nsz && live.size() < 5000)
                {
                    Op          op("an");
                    void*       p = nullptr;
                    std::string r = classify([&] { p = pool->allocate_node(); });
                    long        b = -1, off = 0;
                    int         id = 0;
                    if (!p)
                    {
                        op.done(0, r, b, off, nsz);
                        break;
                    }
                    world().project(p, b, off);
                    id = ++next_id;
                    live.push_back(Live{id, p});
                    freed.erase(std::remove(freed.begin(), freed.end(), p), freed.end());
                    op.done(id, r, b, off, nsz);
                }
            }
            else if (c.op == "dn" || c.op == "dnhi")
            {
                if (live.empty())
                    continue;
                std::size_t k = static_cast<std::size_t>(c.arg(0)) % live.size();
                if (c.op == "dnhi") // the live node with the highest address
                    for (std::size_t i = 0; i < live.size(); ++i)
                        if (live[i].p > live[k].p)
                            k = i;
                Live        l = live[k];
                long        b, off;
                world().project(l.p, b, off);
                Op          op("dn");
                std::string r = classify([&] { pool->deallocate_node(l.p); });
                live.erase(live.begin() + static_cast<long>(k));
                freed.push_back(l.p);
                op.done(l.id, r, b, off, nsz);
            }
            else if (c.op == "bad")
            {
                std::string what = c.raw.empty() ? "" : c.raw[0];
                void*       p    = nullptr;
                long long   id   = -1;
                auto&       w    = world();
                // blocks of the pool in order of acquisition
                std::vector<Block*> mine;
                for (auto& blk : w.blocks)
                    if (blk.live && blk.src == src)
                        mine.push_back(&blk);
                if (what == "foreign" && !mine.empty())
                {
                    switch (c.arg(1))
                    {
                    case 0:
                    {
                        raw_up other;
                        p = static_cast<char*>(other.allocate_node(256, 16)) + 64;
                        break;
                    }
                    case 1:
                        p = mine.front()->base - 48;
                        break;
                    case 2:
                        p = mine.back()->base + mine.back()->size;
                        break;
                    case 3:
                        // the part of the block the arena keeps for itself.  (The list fills the
                        // bytes behind a released pointer before it checks the pointer, so the
                        // pointer is chosen such that node_size <= 16 bytes stay inside that part.)
                        p = mine.front()->base;
                        break;
                    case 5:
                    case 6:
                    {
                        // inside the chunk header of the first chunk, a whole number of nodes below its first node
                        // (the arena header takes 16 bytes, the chunk header 32)
                        std::size_t first = 16 + 32;
                        std::size_t back  = c.arg(1) == 5 ? nsz : (32 / (nsz ? nsz : 1)) * nsz;
                        if (back == 0 || back > 32)
                            back = nsz <= 32 ? nsz : 16;
                        p = mine.front()->base + first - back;
                        break;
                    }
                    default:
                        p = mine.back()->base + mine.back()->size + 24;
                        break;
                    }
                }
                else if (what == "off" && !live.empty() && nsz > 1)
                {
                    Live& l = live[static_cast<std::size_t>(c.arg(1)) % live.size()];
                    id      = l.id;
                    p       = static_cast<char*>(l.p) + static_cast<std::size_t>(c.arg(2)) % (nsz - 1) + 1;
                }
                else if (what == "double" && !freed.empty())
                {
                    std::vector<void*> sorted(freed);
                    std::sort(sorted.begin(), sorted.end());
                    switch (c.arg(1))
                    {
                    case 0:
                        p = sorted.front();
                        break;
                    case 1:
                        p = sorted.back();
                        break;
                    case 2:
                        p = freed.back();
                        break;
                    default:
                        p = sorted[sorted.size() / 2];
                        break;
                    }
                }
                if (!p)
                {
                    Ev("badcmd").s("op", what);
                    continue;
                }
                announce(what.c_str(), id, p, nsz);
                handler_mode().exit_on_invalid_ptr = true;
                std::string r = classify([&] { pool->deallocate_node(p); });
                returned(r);
                return;
            }
            else
                Ev("badcmd").s("op", c.op);
        }
    }

    // ---- memory_stack ------------------------------------------------------------------------
    void run_stack(const Exec& x)
    {
        using Stack = fm::memory_stack<raw_up>;
        auto   bs   = static_cast<std::size_t>(x.num("bs", 1024));
        int    src  = world().next_src++;
        Stack* st   = nullptr;
        {
            std::string r = classify([&] { st = ::new (slot(x)) Stack(bs, raw_up(src)); });
            if (st)
                counters() = [st](long long& a, long long& b)
                {
                    a = static_cast<long long>(st->capacity_left());
                    b = static_cast<long long>(st->next_capacity());
                };
            emit_new(x, src, r, 0);
        }
        if (!st)
            return;
        std::vector<Stack::marker> marks;
        int                        next_id = 0;
        for (auto& c : x.cmds)
        {
            if (c.op == "sa")
            {
                Op          op("sa");
                void*       p = nullptr;
                std::string r = classify([&] {
                    p = st->allocate(static_cast<std::size_t>(c.arg(0)), static_cast<std::size_t>(c.arg(1, 1)));
                });
                long b = -1, off = 0;
                if (p)
                    world().project(p, b, off);
                op.done(p ? ++next_id : 0, r, b, off, static_cast<std::size_t>(c.arg(0)));
            }
            else if (c.op == "mk")
            {
                Op op("mk");
                marks.push_back(st->top());
                op.done(static_cast<long long>(marks.size()) - 1, "ok", -1, 0, 0);
            }
            else if (c.op == "uw")
            {
                if (marks.empty())
                    continue;
                std::size_t j = static_cast<std::size_t>(c.arg(0)) % marks.size();
                Op          op("uw");
                std::string r = classify([&] { st->unwind(marks[j]); });
                op.done(static_cast<long long>(j), r, -1, 0, 0);
            }
            else if (c.op == "bad" && !marks.empty())
            {
                std::size_t j = static_cast<std::size_t>(c.arg(1)) % marks.size();
                announce("unwind", static_cast<long long>(j), nullptr, 0);
                handler_mode().exit_on_invalid_ptr = true;
                std::string r = classify([&] { st->unwind(marks[j]); });
                returned(r);
                return;
            }
            else
                Ev("badcmd").s("op", c.op);
        }
    }

    // ---- block sources -------------------------------------------------------------------------
    constexpr std::size_t sblk_storage = 8192;
    template <class BA, class Make>
    void run_blocks(const Exec& x, Make make, bool fixed)
    {
        BA* ba = nullptr;
        {
            std::string r = classify([&] { ba = make(); });
            if (ba)
                counters() = [ba](long long& a, long long& b)
                {
                    a = static_cast<long long>(ba->next_block_size());
                    b = -1;
                };
            emit_new(x, -1, r, 0);
        }
        if (!ba)
            return;
        std::vector<fm::memory_block> out;      // outstanding, oldest first
        std::vector<int>              out_id;
        fm::memory_block              last_returned;
        int                           last_id = -1, next_id = 0;
        char*                         origin = nullptr; // first block = offset 0 (addresses relative to it)
        auto rel = [&](void* p) { return origin ? static_cast<long>(static_cast<char*>(p) - origin) : 0L; };
        for (auto& c : x.cmds)
        {
            if (c.op == "ab")
            {
                Op               op("ab");
                fm::memory_block b;
                std::string      r = classify([&] { b = ba->allocate_block(); });
                int              id = 0;
                if (r == "ok" && b.memory)
                {
                    if (!origin)
                        origin = static_cast<char*>(b.memory);
                    id = ++next_id;
                    out.push_back(b);
                    out_id.push_back(id);
                }
                op.done(id, r, -1, rel(b.memory), b.size);
            }
            else if (c.op == "db")
            {
                if (out.empty())
                    continue;
                Op               op("db");
                fm::memory_block b  = out.back();
                int              id = out_id.back();
                std::string      r  = classify([&] { ba->deallocate_block(b); });
                out.pop_back();
                out_id.pop_back();
                last_returned = b;
                last_id       = id;
                op.done(id, r, -1, rel(b.memory), b.size);
            }
            else if (c.op == "bad")
            {
                fm::memory_block b;
                int              id = -1;
                if (fixed && out.empty() && last_id >= 0)
                {
                    b  = last_returned;
                    id = last_id;
                }
                else if (!out.empty())
                {
                    std::size_t k = static_cast<std::size_t>(c.arg(1)) % out.size();
                    b             = out[k];
                    id            = out_id[k];
                }
                else
                {
                    Ev("badcmd").s("op", "block");
                    continue;
                }
                long long s1, s2;
                read_counters(s1, s2);
                Ev("bad").s("kind", "block").i("id", id).i("b", -1).i("off", rel(b.memory)).u("len", b.size).ic("s1", s1).ic("s2", s2).emit();
                handler_mode().exit_on_invalid_ptr = true;
                std::string r = classify([&] { ba->deallocate_block(b); });
                returned(r);
                return;
            }
            else
                Ev("badcmd").s("op", c.op);
        }
    }

    void run_exec(const Exec& x)
    {
        std::string fam = x.str("fam");
        if (fam == "pool")
        {
            std::string t = x.str("type", "small");
            if (t == "node")
                run_pool<fm::node_pool>(x);
            else if (t == "array")
                run_pool<fm::array_pool>(x);
            else
                run_pool<fm::small_node_pool>(x);
        }
        else if (fam == "stack")
            run_stack(x);
        else if (fam == "sblk")
        {
            auto bs = static_cast<std::size_t>(x.num("bs", 1024));
            run_blocks<fm::static_block_allocator>(
                x,
                [&]
                {
                    std::size_t gap;
                    char*       mem = world().take(sblk_storage, 16, gap);
                    auto        s   = ::new (mem) fm::static_allocator_storage<sblk_storage>;
                    return ::new (slot(x)) fm::static_block_allocator(bs, *s);
                },
                false);
        }
        else if (fam == "vblk")
        {
            auto bs = static_cast<std::size_t>(x.num("bs", 4096));
            auto nb = static_cast<std::size_t>(x.num("nb", 4));
            run_blocks<fm::virtual_block_allocator>(
                x, [&] { return ::new (slot(x)) fm::virtual_block_allocator(bs, nb); }, false);
        }
        else if (fam == "fblk")
        {
            auto bs  = static_cast<std::size_t>(x.num("bs", 1024));
            int  src = world().next_src++;
            run_blocks<fm::fixed_block_allocator<raw_up>>(
                x, [&] { return ::new (slot(x)) fm::fixed_block_allocator<raw_up>(bs, raw_up(src)); },
                true);
        }
        else
            Ev("badcmd").s("op", fam);
        Ev("end").emit();
    }
} // namespace

int main(int argc, char** argv)
{
    if (argc < 3)
    {
        std::fprintf(stderr, "usage: badcall <script> <trace-out>\n");
        return 2;
    }
    auto execs = load_script(argv[1]);
    int  fd    = ::open(argv[2], O_WRONLY | O_CREAT | O_APPEND, 0644);
    if (fd < 0)
        return 2;
    trace_fd() = fd;
    install_handlers();
    fm::set_invalid_pointer_handler(bc_invptr);
    emit_cfg("badcall");
    long xn = 0;
    for (auto& x : execs)
    {
        Ev("x").i("n", xn++).s("hdr", x.header).emit();
        run_child(
            [&]
            {
                world().init();
                run_exec(x);
            },
            static_cast<unsigned>(x.num("watchdog", 5)));
        Ev("xend").emit();
    }
    return 0;
}
