#include <verif/subject.hpp>
namespace verif
{
    template <class PT>
    static ISubject* pool_src(const Exec& x, void* where, int src)
    {
        std::string s  = x.str("src", "grow");
        auto        ns = static_cast<std::size_t>(x.num("ns", 16));
        auto        bs = static_cast<std::size_t>(x.num("bs", 1024));
        if (x.num("nodes") > 0) // block size from the library's own formula (C18 judges the formula)
            bs = fm::memory_pool<PT, raw_up>::min_block_size(ns, static_cast<std::size_t>(x.num("nodes")))
                 + static_cast<std::size_t>(x.num("extra", 0));
        if (s == "grow")
            return new PoolSubj<PT, src_grow>(where, src, ns, bs);
        if (s == "fixed")
            return new PoolSubj<PT, src_fixed>(where, src, ns, bs);
        if (s == "static")
            return new PoolSubj<PT, src_static>(where, src, ns, bs);
        if (s == "virtual")
            return new PoolSubj<PT, src_virtual>(where, src, ns, bs);
        return nullptr;
    }
    ISubject* make_pool(const Exec& x, void* where, int src)
    {
        std::string t = x.str("type", "node");
        if (t == "node")
            return pool_src<fm::node_pool>(x, where, src);
        if (t == "array")
            return pool_src<fm::array_pool>(x, where, src);
        if (t == "small")
            return pool_src<fm::small_node_pool>(x, where, src);
        return nullptr;
    }
} // namespace verif
