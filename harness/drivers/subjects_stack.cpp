#include <verif/subject.hpp>
namespace verif
{
    ISubject* make_stack(const Exec& x, void* where, int src)
    {
        std::string s  = x.str("src", "grow");
        auto        bs = static_cast<std::size_t>(x.num("bs", 1024));
        if (s == "grow")
            return new StackSubj<src_grow>(where, src, bs);
        if (s == "fixed")
            return new StackSubj<src_fixed>(where, src, bs);
        if (s == "static")
            return new StackSubj<src_static>(where, src, bs);
        if (s == "virtual")
            return new StackSubj<src_virtual>(where, src, bs);
        return nullptr;
    }

    template <std::size_t N>
    static ISubject* iter_src(const Exec& x, void* where, int src)
    {
        std::string s  = x.str("src", "fixed");
        auto        bs = static_cast<std::size_t>(x.num("bs", 1024));
        if (s == "static")
            return new IterSubj<N, src_static>(where, src, bs);
        return new IterSubj<N, src_grow>(where, src, bs); // raw allocator -> fixed_block_allocator
    }
    ISubject* make_iter(const Exec& x, void* where, int src)
    {
        switch (x.num("N", 2))
        {
        case 1:
            return iter_src<1>(x, where, src);
        case 2:
            return iter_src<2>(x, where, src);
        case 3:
            return iter_src<3>(x, where, src);
        case 4:
            return iter_src<4>(x, where, src);
        case 5:
            return iter_src<5>(x, where, src);
        }
        return nullptr;
    }
} // namespace verif
