// verif driver "containers": generic three-slot box over one container type and its std::allocator twin
#ifndef VERIF_CONTAINERS_BOX_HPP
#define VERIF_CONTAINERS_BOX_HPP
#include <algorithm>
#include <deque>
#include <forward_list>
#include <list>
#include <map>
#include <set>
#include <string>
#include <unordered_map>
#include <unordered_set>
#include <vector>

#include "containers.hpp"

namespace vc
{
    template <class T>
    long key_of(const T& v)
    {
        return v.key();
    }
    inline long key_of(char c)
    {
        return static_cast<unsigned char>(c);
    }
    template <class K, class V>
    long key_of(const std::pair<const K, V>& p)
    {
        return p.first.key() * 31 + p.second.key();
    }

    struct EHash
    {
        template <class T>
        std::size_t operator()(const T& v) const
        {
            return static_cast<std::size_t>(v.key()) * 2654435761u;
        }
    };

    // ---- kinds: how to create, grow and shrink a container of the family ---------------------------
    struct kind_back // vector, deque
    {
        static constexpr bool ordered = true;
        template <class C, class A>
        static C* create(const A& a)
        {
            return new C(a);
        }
        template <class C>
        static void insert(C& c, int v)
        {
            c.push_back(typename C::value_type(v));
        }
        template <class C>
        static void erase(C& c)
        {
            if (!c.empty())
                c.pop_back();
        }
    };
    struct kind_list
    {
        static constexpr bool ordered = true;
        template <class C, class A>
        static C* create(const A& a)
        {
            return new C(a);
        }
        template <class C>
        static void insert(C& c, int v)
        {
            c.push_back(typename C::value_type(v));
        }
        template <class C>
        static void erase(C& c)
        {
            if (!c.empty())
                c.pop_front();
        }
    };
    struct kind_flist
    {
        static constexpr bool ordered = true;
        template <class C, class A>
        static C* create(const A& a)
        {
            return new C(a);
        }
        template <class C>
        static void insert(C& c, int v)
        {
            c.push_front(typename C::value_type(v));
        }
        template <class C>
        static void erase(C& c)
        {
            if (!c.empty())
                c.pop_front();
        }
    };
    struct kind_set
    {
        static constexpr bool ordered = true;
        template <class C, class A>
        static C* create(const A& a)
        {
            return new C(typename C::key_compare(), a);
        }
        template <class C>
        static void insert(C& c, int v)
        {
            c.insert(typename C::value_type(v));
        }
        template <class C>
        static void erase(C& c)
        {
            if (!c.empty())
                c.erase(c.begin());
        }
    };
    struct kind_map
    {
        static constexpr bool ordered = true;
        template <class C, class A>
        static C* create(const A& a)
        {
            return new C(typename C::key_compare(), a);
        }
        template <class C>
        static void insert(C& c, int v)
        {
            c.insert(typename C::value_type(typename C::key_type(v), typename C::mapped_type(v + 1)));
        }
        template <class C>
        static void erase(C& c)
        {
            if (!c.empty())
                c.erase(c.begin());
        }
    };
    struct kind_uset
    {
        static constexpr bool ordered = false;
        template <class C, class A>
        static C* create(const A& a)
        {
            return new C(4, typename C::hasher(), typename C::key_equal(), a);
        }
        template <class C>
        static void insert(C& c, int v)
        {
            c.insert(typename C::value_type(v));
        }
        template <class C>
        static void erase(C& c)
        {
            if (!c.empty())
                c.erase(c.begin());
        }
    };
    struct kind_umap
    {
        static constexpr bool ordered = false;
        template <class C, class A>
        static C* create(const A& a)
        {
            return new C(4, typename C::hasher(), typename C::key_equal(), a);
        }
        template <class C>
        static void insert(C& c, int v)
        {
            c.insert(typename C::value_type(typename C::key_type(v), typename C::mapped_type(v + 1)));
        }
        template <class C>
        static void erase(C& c)
        {
            if (!c.empty())
                c.erase(c.begin());
        }
    };
    struct kind_string
    {
        static constexpr bool ordered = true;
        template <class C, class A>
        static C* create(const A& a)
        {
            return new C(a);
        }
        template <class C>
        static void insert(C& c, int v)
        {
            // long enough to leave the small string buffer
            c.append(7, static_cast<char>('a' + v % 26));
        }
        template <class C>
        static void erase(C& c)
        {
            if (!c.empty())
                c.pop_back();
        }
    };

    template <class C>
    auto splice_all(C& to, C& from, int) -> decltype(to.splice(to.end(), from), true)
    {
        to.splice(to.end(), from);
        return true;
    }
    template <class C>
    auto splice_all(C& to, C& from, long) -> decltype(to.splice_after(to.before_begin(), from), true)
    {
        to.splice_after(to.before_begin(), from);
        return true;
    }
    template <class C>
    bool splice_all(C&, C&, ...)
    {
        return false;
    }

    // which leaf object an allocator of a container refers to
    template <class T, class L>
    int tag_of(const fm::std_allocator<T, L>& a)
    {
        return a.get_allocator().tag;
    }
    // type-erased: ask it for one byte and see which leaf served it
    template <class T>
    int tag_of(const fm::std_allocator<T, fm::any_allocator>& a)
    {
        std::size_t before[2] = {leaf_by_tag(0)->live.size(), leaf_by_tag(1)->live.size()};
        auto&       base      = a.get_allocator();
        void*       p         = base.allocate_node(1, 1);
        int         tag       = -2;
        for (int i = 0; i < 2; ++i)
            if (leaf_by_tag(i)->live.size() != before[i])
                tag = i;
        base.deallocate_node(p, 1, 1);
        return tag;
    }

    template <class Cont, class Twin, class Kind, std::size_t NodeConstant, class Leaf = vleaf, int Prop = 7>
    struct BoxSet : IBoxSet
    {
        using alloc = typename Cont::allocator_type;
        int propagation() override
        {
            // what the allocator's traits declare (Prop documents the expectation of the registration)
            using at = std::allocator_traits<alloc>;
            int p    = (at::propagate_on_container_copy_assignment::value ? 1 : 0)
                    | (at::propagate_on_container_move_assignment::value ? 2 : 0)
                    | (at::propagate_on_container_swap::value ? 4 : 0);
            (void)Prop;
            return p;
        }
        std::unique_ptr<Cont> c[3];
        std::unique_ptr<Twin> t[3];

        void make(int s, int tag) override
        {
            c[s].reset(Kind::template create<Cont>(alloc(leaf_ref<Leaf>(tag))));
            t[s].reset(Kind::template create<Twin>(typename Twin::allocator_type()));
        }
        void ins(int s, int k, int& v) override
        {
            for (int i = 0; i < k; ++i)
            {
                ++v;
                Kind::insert(*c[s], v);
                Kind::insert(*t[s], v);
            }
        }
        void era(int s) override
        {
            // the same element must go in both: node containers erase begin(), unordered ones differ in
            // iteration order, so erase by key there
            erase_same(s, std::integral_constant<bool, Kind::ordered>{});
        }
        void erase_same(int s, std::true_type)
        {
            Kind::erase(*c[s]);
            Kind::erase(*t[s]);
        }
        void erase_same(int s, std::false_type)
        {
            if (c[s]->empty())
                return;
            auto it = t[s]->find(key_part(*c[s]->begin()));
            c[s]->erase(c[s]->begin());
            if (it != t[s]->end())
                t[s]->erase(it);
        }
        template <class V>
        static const V& key_part(const V& v)
        {
            return v;
        }
        template <class K, class V>
        static const K& key_part(const std::pair<const K, V>& p)
        {
            return p.first;
        }
        void clr(int s) override
        {
            c[s]->clear();
            t[s]->clear();
        }
        void cpy(int from, int to) override
        {
            c[to].reset(new Cont(*c[from]));
            t[to].reset(new Twin(*t[from]));
        }
        void mov(int from, int to) override
        {
            c[to].reset(new Cont(std::move(*c[from])));
            t[to].reset(new Twin(std::move(*t[from])));
            c[from]->clear();
            t[from]->clear();
        }
        void cas(int from, int to) override
        {
            *c[to] = *c[from];
            *t[to] = *t[from];
        }
        void mas(int from, int to) override
        {
            *c[to] = std::move(*c[from]);
            *t[to] = std::move(*t[from]);
            c[from]->clear();
            t[from]->clear();
        }
        void swp(int a, int b) override
        {
            c[a]->swap(*c[b]);
            t[a]->swap(*t[b]);
        }
        bool spl(int from, int to) override
        {
            if (!splice_all(*c[to], *c[from], 0))
                return false;
            splice_all(*t[to], *t[from], 0);
            return true;
        }
        void del(int s) override
        {
            c[s].reset();
            t[s].reset();
        }
        bool has(int s) override
        {
            return c[s] != nullptr;
        }
        int bound(int s) override
        {
            return c[s] ? tag_of(c[s]->get_allocator()) : -1;
        }
        long size(int s) override
        {
            return c[s] ? static_cast<long>(std::distance(c[s]->begin(), c[s]->end())) : -1;
        }
        bool twin_ok(int s) override
        {
            if (!c[s])
                return true;
            std::vector<long> a, b;
            for (auto& v : *c[s])
                a.push_back(key_of(v));
            for (auto& v : *t[s])
                b.push_back(key_of(v));
            if (!Kind::ordered)
            {
                std::sort(a.begin(), a.end());
                std::sort(b.begin(), b.end());
            }
            return a == b;
        }
        int eq(int a, int b) override
        {
            if (!c[a] || !c[b])
                return -1;
            return c[a]->get_allocator() == c[b]->get_allocator() ? 1 : 0;
        }
        std::size_t node_constant() override
        {
            return NodeConstant;
        }
    };

    template <class T>
    using SA = fm::std_allocator<T, vleaf>;
    template <class T>
    using SN = fm::std_allocator<T, vleaf_np>;

    template <class T>
    using SY = fm::any_std_allocator<T>;
// containers over the type-erased std_allocator (any_std_allocator<T>), bound to the same instrumented leaves
#define VC_REGISTER_ELEM_ANY(NAME, T)                                                                                  \
    static Reg y_vec_##NAME("vector:" #NAME ":any",                                                                   \
                            [] { return new BoxSet<std::vector<T, SY<T>>, std::vector<T>, kind_back, 0>(); });         \
    static Reg y_deq_##NAME("deque:" #NAME ":any",                                                                    \
                            [] { return new BoxSet<std::deque<T, SY<T>>, std::deque<T>, kind_back, 0>(); });           \
    static Reg y_lst_##NAME("list:" #NAME ":any", [] {                                                                \
        return new BoxSet<std::list<T, SY<T>>, std::list<T>, kind_list, fm::list_node_size<T>::value>();             \
    });                                                                                                                \
    static Reg y_set_##NAME("set:" #NAME ":any", [] {                                                                 \
        return new BoxSet<std::set<T, std::less<T>, SY<T>>, std::set<T>, kind_set, fm::set_node_size<T>::value>();    \
    });                                                                                                                \
    static Reg y_map_##NAME("map:" #NAME ":any", [] {                                                                 \
        return new BoxSet<std::map<T, T, std::less<T>, SY<std::pair<const T, T>>>, std::map<T, T>, kind_map,          \
                          fm::map_node_size<std::pair<const T, T>>::value>();                                         \
    });                                                                                                                \
    static Reg y_ust_##NAME("unordered_set:" #NAME ":any", [] {                                                       \
        return new BoxSet<std::unordered_set<T, EHash, std::equal_to<T>, SY<T>>, std::unordered_set<T, EHash>,        \
                          kind_uset, fm::unordered_set_node_size<T>::value>();                                        \
    });

// containers over the allocator with specialised propagation traits (copy/move assignment do not propagate, swap does)
#define VC_REGISTER_ELEM_NP(NAME, T)                                                                                   \
    static Reg n_vec_##NAME("vector:" #NAME ":np",                                                                    \
                            [] { return new BoxSet<std::vector<T, SN<T>>, std::vector<T>, kind_back, 0, vleaf_np, 4>(); }); \
    static Reg n_lst_##NAME("list:" #NAME ":np", [] {                                                                 \
        return new BoxSet<std::list<T, SN<T>>, std::list<T>, kind_list, fm::list_node_size<T>::value, vleaf_np, 4>(); \
    });                                                                                                                \
    static Reg n_set_##NAME("set:" #NAME ":np", [] {                                                                  \
        return new BoxSet<std::set<T, std::less<T>, SN<T>>, std::set<T>, kind_set, fm::set_node_size<T>::value, vleaf_np, 4>(); \
    });                                                                                                                \
    static Reg n_map_##NAME("map:" #NAME ":np", [] {                                                                  \
        return new BoxSet<std::map<T, T, std::less<T>, SN<std::pair<const T, T>>>, std::map<T, T>, kind_map,          \
                          fm::map_node_size<std::pair<const T, T>>::value, vleaf_np, 4>();                            \
    });                                                                                                                \
    static Reg n_ust_##NAME("unordered_set:" #NAME ":np", [] {                                                        \
        return new BoxSet<std::unordered_set<T, EHash, std::equal_to<T>, SN<T>>, std::unordered_set<T, EHash>,        \
                          kind_uset, fm::unordered_set_node_size<T>::value, vleaf_np, 4>();                           \
    });                                                                                                                \
    static Reg n_deq_##NAME("deque:" #NAME ":np",                                                                     \
                            [] { return new BoxSet<std::deque<T, SN<T>>, std::deque<T>, kind_back, 0, vleaf_np, 4>(); }); \
    static Reg n_fls_##NAME("forward_list:" #NAME ":np", [] {                                                         \
        return new BoxSet<std::forward_list<T, SN<T>>, std::forward_list<T>, kind_flist,                              \
                          fm::forward_list_node_size<T>::value, vleaf_np, 4>();                                       \
    });

#define VC_REGISTER_ELEM(NAME, T)                                                                                      \
    static Reg r_vec_##NAME("vector:" #NAME,                                                                          \
                            [] { return new BoxSet<std::vector<T, SA<T>>, std::vector<T>, kind_back, 0>(); });         \
    static Reg r_deq_##NAME("deque:" #NAME,                                                                           \
                            [] { return new BoxSet<std::deque<T, SA<T>>, std::deque<T>, kind_back, 0>(); });           \
    static Reg r_lst_##NAME("list:" #NAME, [] {                                                                       \
        return new BoxSet<std::list<T, SA<T>>, std::list<T>, kind_list, fm::list_node_size<T>::value>();             \
    });                                                                                                                \
    static Reg r_fls_##NAME("forward_list:" #NAME, [] {                                                               \
        return new BoxSet<std::forward_list<T, SA<T>>, std::forward_list<T>, kind_flist,                              \
                          fm::forward_list_node_size<T>::value>();                                                    \
    });                                                                                                                \
    static Reg r_set_##NAME("set:" #NAME, [] {                                                                        \
        return new BoxSet<std::set<T, std::less<T>, SA<T>>, std::set<T>, kind_set, fm::set_node_size<T>::value>();    \
    });                                                                                                                \
    static Reg r_mst_##NAME("multiset:" #NAME, [] {                                                                   \
        return new BoxSet<std::multiset<T, std::less<T>, SA<T>>, std::multiset<T>, kind_set,                          \
                          fm::multiset_node_size<T>::value>();                                                        \
    });                                                                                                                \
    static Reg r_map_##NAME("map:" #NAME, [] {                                                                        \
        return new BoxSet<std::map<T, T, std::less<T>, SA<std::pair<const T, T>>>, std::map<T, T>, kind_map,          \
                          fm::map_node_size<std::pair<const T, T>>::value>();                                         \
    });                                                                                                                \
    static Reg r_mmp_##NAME("multimap:" #NAME, [] {                                                                   \
        return new BoxSet<std::multimap<T, T, std::less<T>, SA<std::pair<const T, T>>>, std::multimap<T, T>,          \
                          kind_map, fm::multimap_node_size<std::pair<const T, T>>::value>();                          \
    });                                                                                                                \
    static Reg r_ust_##NAME("unordered_set:" #NAME, [] {                                                              \
        return new BoxSet<std::unordered_set<T, EHash, std::equal_to<T>, SA<T>>, std::unordered_set<T, EHash>,        \
                          kind_uset, fm::unordered_set_node_size<T>::value>();                                        \
    });                                                                                                                \
    static Reg r_ums_##NAME("unordered_multiset:" #NAME, [] {                                                         \
        return new BoxSet<std::unordered_multiset<T, EHash, std::equal_to<T>, SA<T>>,                                 \
                          std::unordered_multiset<T, EHash>, kind_uset,                                               \
                          fm::unordered_multiset_node_size<T>::value>();                                              \
    });                                                                                                                \
    static Reg r_ump_##NAME("unordered_map:" #NAME, [] {                                                              \
        return new BoxSet<std::unordered_map<T, T, EHash, std::equal_to<T>, SA<std::pair<const T, T>>>,               \
                          std::unordered_map<T, T, EHash>, kind_umap,                                                 \
                          fm::unordered_map_node_size<std::pair<const T, T>>::value>();                               \
    });                                                                                                                \
    static Reg r_umm_##NAME("unordered_multimap:" #NAME, [] {                                                         \
        return new BoxSet<std::unordered_multimap<T, T, EHash, std::equal_to<T>, SA<std::pair<const T, T>>>,          \
                          std::unordered_multimap<T, T, EHash>, kind_umap,                                            \
                          fm::unordered_multimap_node_size<std::pair<const T, T>>::value>();                          \
    });
} // namespace vc
#endif
