// verif driver "tables": evaluates the library's arithmetic building blocks and its min_block_size
// formulas on complete input tables and records the RESULTS as aggregated NDJSON rows (C19, C18).
// It records; it does not judge.  One execution = one `X what=...` header, no commands.
//   usage: tables <script> <trace-out> [first-exec-number]
//
//   X what=align from=0 to=4096 amax=4096        round_up / align_offset (address and pointer form) /
//                                                is_aligned for every a in from..to, per power-of-two
//                                                alignment 1..amax           -> rows "fn"
//   X what=alignfor from=1 to=4096               alignment_for               -> row  "fn"
//   X what=ilog2 from=1 to=4096                  ilog2, ilog2_ceil           -> rows "fn"
//   X what=boundary kfrom=0 kto=63 dfrom=-2 dto=2   the same functions on 2^k+d for all 64
//                                                power-of-two alignments, 16-bit limbs -> rows "bnd"
//   X what=bucket policy=log2|identity list=node|array|small max=4096
//                                                policy index/size and free_list_array::get(s).node_size()
//                                                for s in 1..max             -> row  "bucket"
//   X what=minblock prop=C18 pool=node|array|small ns_from=1 ns_to=64 n_from=1 n_to=1100
//                                                memory_pool::min_block_size(ns,n), then a real pool of
//                                                that block size: nodes obtained before the upstream is
//                                                asked again                 -> one row "mbs" per ns
//   X what=minstack prop=C18 kind=stack|arena from=1 to=4096
//                                                memory_stack/memory_arena::min_block_size(b) and what a
//                                                stack/arena of that size offers -> row "stk"
#include <cstdio>
#include <cstring>
#include <fcntl.h>
#include <string>
#include <vector>

#include <foonathan/memory/detail/align.hpp>
#include <foonathan/memory/detail/free_list.hpp>
#include <foonathan/memory/detail/free_list_array.hpp>
#include <foonathan/memory/detail/ilog2.hpp>
#include <foonathan/memory/detail/memory_stack.hpp>
#include <foonathan/memory/detail/small_free_list.hpp>
#include <foonathan/memory/memory_arena.hpp>
#include <foonathan/memory/memory_pool.hpp>
#include <foonathan/memory/memory_stack.hpp>

#include <verif/child.hpp>
#include <verif/observe.hpp>
#include <verif/script.hpp>

using namespace verif;
namespace det = foonathan::memory::detail;

namespace
{
    using u64 = std::uint64_t;

    // ---- list builders ---------------------------------------------------------------------
    struct IntList
    {
        std::string s = "[";
        bool        first = true;
        // values outside what TLC can read are clamped (they are wrong anyway on the small domain)
        void add(u64 v)
        {
            if (!first)
                s += ',';
            first = false;
            s += std::to_string(v > 2147483646ULL ? 2147483647ULL : v);
        }
        void add_signed(long long v)
        {
            if (!first)
                s += ',';
            first = false;
            if (v > 2147483646LL)
                v = 2147483647LL;
            if (v < -2147483646LL)
                v = -2147483647LL;
            s += std::to_string(v);
        }
        void add_raw(const std::string& json)
        {
            if (!first)
                s += ',';
            first = false;
            s += json;
        }
        std::string str() const
        {
            return s + "]";
        }
    };

    // 64-bit value as 4 limbs of 16 bits, least significant first
    std::string limbs(u64 v)
    {
        return "[" + std::to_string(v & 0xffff) + "," + std::to_string((v >> 16) & 0xffff) + ","
               + std::to_string((v >> 32) & 0xffff) + "," + std::to_string((v >> 48) & 0xffff) + "]";
    }

    // everything the instrumented upstream and the handlers would log is irrelevant for table rows
    struct Mute
    {
        int saved;
        static int devnull()
        {
            static int fd = ::open("/dev/null", O_WRONLY);
            return fd;
        }
        Mute() : saved(trace_fd())
        {
            trace_fd() = devnull();
        }
        ~Mute()
        {
            trace_fd() = saved;
        }
    };

    void reset_world()
    {
        World& w = world();
        w.cur    = w.region + World::slot_size;
        w.blocks.clear();
    }

    // ---- C19: pure functions on the small domain --------------------------------------------
    void fn_row(const char* f, std::size_t al, long long from, long long to, const IntList& r)
    {
        Ev("fn").s("f", f).u("al", al).i("from", from).i("to", to).raw("r", r.str());
    }

    void do_align(const Exec& x)
    {
        long long   from = x.num("from", 0), to = x.num("to", 4096);
        std::size_t amax = static_cast<std::size_t>(x.num("amax", 4096));
        for (std::size_t al = 1; al && al <= amax; al <<= 1)
        {
            IntList ru, ao, aop, ia;
            for (long long a = from; a <= to; ++a)
            {
                auto v = static_cast<std::size_t>(a);
                ru.add(det::round_up_to_multiple_of_alignment(v, al));
                ao.add(det::align_offset(static_cast<std::uintptr_t>(v), al));
                aop.add(det::align_offset(reinterpret_cast<void*>(static_cast<std::uintptr_t>(v)), al));
                ia.add(det::is_aligned(reinterpret_cast<void*>(static_cast<std::uintptr_t>(v)), al) ? 1 : 0);
            }
            fn_row("round_up", al, from, to, ru);
            fn_row("align_offset", al, from, to, ao);
            fn_row("align_offset_ptr", al, from, to, aop);
            fn_row("is_aligned", al, from, to, ia);
        }
    }

    void do_alignfor(const Exec& x)
    {
        long long from = x.num("from", 1), to = x.num("to", 4096);
        if (from < 1)
            from = 1; // no power of two is the largest one dividing 0
        IntList r;
        for (long long a = from; a <= to; ++a)
            r.add(det::alignment_for(static_cast<std::size_t>(a)));
        fn_row("alignment_for", 0, from, to, r);
    }

    void do_ilog2(const Exec& x)
    {
        long long from = x.num("from", 1), to = x.num("to", 4096);
        if (from < 1)
            from = 1; // log2(0) is undefined (and so is the count-leading-zeros builtin)
        IntList fl, ce;
        for (long long a = from; a <= to; ++a)
        {
            fl.add(det::ilog2(static_cast<u64>(a)));
            ce.add(det::ilog2_ceil(static_cast<u64>(a)));
        }
        fn_row("ilog2", 0, from, to, fl);
        fn_row("ilog2_ceil", 0, from, to, ce);
    }

    // ---- C19: boundary classes 2^k + d, results as limbs --------------------------------------
    // value 2^k + d if it is a 64-bit unsigned number
    bool boundary_value(int k, int d, u64& v)
    {
        u64 p = u64(1) << k;
        if (d < 0)
        {
            if (p < static_cast<u64>(-d))
                return false;
            v = p - static_cast<u64>(-d);
            return true;
        }
        v = p + static_cast<u64>(d);
        return v >= p; // no wrap
    }

    template <class F>
    void bnd_row(const char* f, int j, int kfrom, int kto, int dfrom, int dto, bool zero_ok, F fn)
    {
        IntList r;
        for (int k = kfrom; k <= kto; ++k)
            for (int d = dfrom; d <= dto; ++d)
            {
                u64 v;
                if (!boundary_value(k, d, v) || (v == 0 && !zero_ok))
                    r.add_raw("[]");
                else
                    r.add_raw(limbs(fn(v)));
            }
        Ev("bnd").s("f", f).i("j", j).i("kfrom", kfrom).i("kto", kto).i("dfrom", dfrom).i("dto", dto).raw(
            "r", r.str());
    }

    void do_boundary(const Exec& x)
    {
        int kfrom = static_cast<int>(x.num("kfrom", 0)), kto = static_cast<int>(x.num("kto", 63));
        int dfrom = static_cast<int>(x.num("dfrom", -2)), dto = static_cast<int>(x.num("dto", 2));
        int jfrom = static_cast<int>(x.num("jfrom", 0)), jto = static_cast<int>(x.num("jto", 63));
        if (kfrom < 0 || kto > 63 || jfrom < 0 || jto > 63)
            return;
        for (int j = jfrom; j <= jto; ++j)
        {
            std::size_t al = std::size_t(1) << j;
            bnd_row("round_up", j, kfrom, kto, dfrom, dto, true, [&](u64 v) {
                return u64(det::round_up_to_multiple_of_alignment(static_cast<std::size_t>(v), al));
            });
            bnd_row("align_offset", j, kfrom, kto, dfrom, dto, true, [&](u64 v) {
                return u64(det::align_offset(static_cast<std::uintptr_t>(v), al));
            });
            bnd_row("align_offset_ptr", j, kfrom, kto, dfrom, dto, true, [&](u64 v) {
                return u64(det::align_offset(reinterpret_cast<void*>(static_cast<std::uintptr_t>(v)), al));
            });
            bnd_row("is_aligned", j, kfrom, kto, dfrom, dto, true, [&](u64 v) {
                return u64(det::is_aligned(reinterpret_cast<void*>(static_cast<std::uintptr_t>(v)), al) ? 1 : 0);
            });
        }
        bnd_row("alignment_for", -1, kfrom, kto, dfrom, dto, false,
                [&](u64 v) { return u64(det::alignment_for(static_cast<std::size_t>(v))); });
        bnd_row("ilog2", -1, kfrom, kto, dfrom, dto, false, [&](u64 v) { return u64(det::ilog2(v)); });
        bnd_row("ilog2_ceil", -1, kfrom, kto, dfrom, dto, false,
                [&](u64 v) { return u64(det::ilog2_ceil(v)); });
    }

    // ---- C19: bucket selection -----------------------------------------------------------------
    alignas(64) char bucket_buffer[1u << 20];

    template <class List, class Policy>
    void bucket_row(const Exec& x, const char* list, const char* policy)
    {
        std::size_t max = static_cast<std::size_t>(x.num("max", 4096));
        // the array is carved from a fixed stack on a zeroed buffer, well inside it
        std::memset(bucket_buffer, 0, sizeof bucket_buffer);
        det::fixed_memory_stack stack(bucket_buffer + 65536);
        const char*             end = bucket_buffer + sizeof bucket_buffer;
        det::free_list_array<List, Policy> arr(stack, end, max);
        IntList idx, sfi, ns;
        for (std::size_t s = 1; s <= max; ++s)
        {
            std::size_t i = Policy::index_from_size(s);
            idx.add(i);
            sfi.add(Policy::size_from_index(i));
            ns.add(arr.get(s).node_size());
        }
        Ev("bucket")
            .s("list", list)
            .s("policy", policy)
            .u("max", max)
            .u("minel", List::min_element_size)
            .uc("nel", arr.size())
            .uc("amax", arr.max_node_size())
            .raw("idx", idx.str())
            .raw("sfi", sfi.str())
            .raw("ns", ns.str());
    }

    // the power-of-two policy over the whole 64-bit range: sizes 2^k - 1, 2^k, 2^k + 1 for k = 3..62.  The sizes do
    // not fit TLC's integers, so the row carries k, d and - of the node size the policy names for that size - the
    // floor of its binary logarithm and whether it is a power of two (computed here with plain shifts)
    void bucket_big_row()
    {
        IntList ks, ds, lg, p2, rt;
        for (int k = 3; k <= 62; ++k)
            for (int d = -1; d <= 1; ++d)
            {
                std::size_t s   = (std::size_t(1) << k) + static_cast<std::size_t>(static_cast<long long>(d));
                std::size_t i   = det::log2_access_policy::index_from_size(s);
                std::size_t sfi = det::log2_access_policy::size_from_index(i);
                int         l   = -1;
                for (std::size_t v = sfi; v; v >>= 1)
                    ++l;
                ks.add(static_cast<std::size_t>(k));
                ds.add(static_cast<std::size_t>(d + 1));
                lg.add(static_cast<std::size_t>(l + 1)); // 0 = the size was 0
                p2.add(sfi != 0 && (sfi & (sfi - 1)) == 0 ? 1u : 0u);
                rt.add(det::log2_access_policy::index_from_size(sfi) == i ? 1u : 0u); // the node size maps to its own bucket
            }
        Ev("bucketbig").raw("k", ks.str()).raw("d", ds.str()).raw("lg", lg.str()).raw("p2", p2.str()).raw("rt", rt.str());
    }

    void do_bucket(const Exec& x)
    {
        if (x.str("policy", "log2") == "log2big")
        {
            bucket_big_row();
            return;
        }
        std::string list = x.str("list", "node"), policy = x.str("policy", "log2");
        bool        log2 = policy == "log2";
        if (policy != "log2" && policy != "identity")
            return;
        if (list == "node")
            log2 ? bucket_row<det::free_memory_list, det::log2_access_policy>(x, "node", "log2") :
                   bucket_row<det::free_memory_list, det::identity_access_policy>(x, "node", "identity");
        else if (list == "array")
            log2 ? bucket_row<det::ordered_free_memory_list, det::log2_access_policy>(x, "array", "log2") :
                   bucket_row<det::ordered_free_memory_list, det::identity_access_policy>(x, "array",
                                                                                        "identity");
        else if (list == "small")
            log2 ? bucket_row<det::small_free_memory_list, det::log2_access_policy>(x, "small", "log2") :
                   bucket_row<det::small_free_memory_list, det::identity_access_policy>(x, "small",
                                                                                      "identity");
    }

    // ---- C18: min_block_size of the pools ----------------------------------------------------------
    template <class PoolType>
    void minblock_rows(const Exec& x, const char* pool_name)
    {
        using pool_t = fm::memory_pool<PoolType, raw_up>;
        std::size_t ns_from = static_cast<std::size_t>(x.num("ns_from", 1));
        std::size_t ns_to   = static_cast<std::size_t>(x.num("ns_to", 64));
        std::size_t n_from  = static_cast<std::size_t>(x.num("n_from", 1));
        std::size_t n_to    = static_cast<std::size_t>(x.num("n_to", 1100));
        std::string prop    = x.str("prop", "C18");
        World&      w       = world();
        for (std::size_t ns = ns_from; ns <= ns_to; ++ns)
        {
            IntList     mbs, got, cups;
            std::size_t nsz = 0;
            {
                Mute mute;
                for (std::size_t n = n_from; n <= n_to; ++n)
                {
                    std::size_t bs = pool_t::min_block_size(ns, n);
                    reset_world();
                    long u0 = w.up_allocs;
                    {
                        pool_t pool(ns, bs, raw_up(0));
                        long   u1 = w.up_allocs;
                        nsz       = pool.node_size();
                        // nodes obtained before the upstream is asked again: first through the
                        // ordinary (growing) interface for the n promised nodes ...
                        std::size_t k = 0;
                        bool        grew = false;
                        while (k < n)
                        {
                            void* p = pool.allocate_node();
                            if (w.up_allocs != u1)
                            {
                                grew = true;
                                break;
                            }
                            if (!p)
                                break;
                            ++k;
                        }
                        // ... then, if all n were served, whatever else the block holds
                        if (!grew && k == n)
                            while (k < 2 * n + 600 && pool.try_allocate_node())
                                ++k;
                        mbs.add(bs);
                        got.add(k);
                        cups.add_signed(u1 - u0);
                    }
                }
            }
            Ev("mbs")
                .s("p", prop)
                .s("pool", pool_name)
                .u("ns", ns)
                .u("nsz", nsz)
                .u("n0", n_from)
                .raw("mbs", mbs.str())
                .raw("got", got.str())
                .raw("cups", cups.str());
        }
    }

    void do_minblock(const Exec& x)
    {
        std::string pool = x.str("pool", "node");
        if (pool == "node")
            minblock_rows<fm::node_pool>(x, "node");
        else if (pool == "array")
            minblock_rows<fm::array_pool>(x, "array");
        else if (pool == "small")
            minblock_rows<fm::small_node_pool>(x, "small");
    }

    // ---- C18: min_block_size of memory_stack / memory_arena --------------------------------------
    void do_minstack(const Exec& x)
    {
        std::string kind = x.str("kind", "stack");
        std::string prop = x.str("prop", "C18");
        long long   from = x.num("from", 1), to = x.num("to", 4096);
        if (from < 1)
            from = 1;
        World&  w = world();
        IntList mbs, cap, full;
        {
            Mute mute;
            for (long long b = from; b <= to; ++b)
            {
                auto bytes = static_cast<std::size_t>(b);
                reset_world();
                if (kind == "stack")
                {
                    using stack_t  = fm::memory_stack<raw_up>;
                    std::size_t bs = stack_t::min_block_size(bytes);
                    stack_t     stack(bs, raw_up(0));
                    mbs.add(bs);
                    cap.add(stack.capacity_left());
                    long        u1 = w.up_allocs;
                    void*       p  = nullptr;
                    std::string r  = classify([&] { p = stack.allocate(bytes, 1); });
                    // upstream allocations caused by one allocation of `bytes` bytes, alignment 1
                    full.add_signed(r == "ok" && p ? w.up_allocs - u1 : -1);
                }
                else
                {
                    using arena_t  = fm::memory_arena<fm::growing_block_allocator<raw_up>, false>;
                    std::size_t bs = arena_t::min_block_size(bytes);
                    arena_t     arena(bs, raw_up(0));
                    auto        blk = arena.allocate_block();
                    mbs.add(bs);
                    cap.add(blk.size);
                    full.add_signed(-2); // not applicable
                }
            }
        }
        Ev("stk")
            .s("p", prop)
            .s("kind", kind)
            .i("from", from)
            .i("to", to)
            .u("fence", det::debug_fence_size)
            .raw("mbs", mbs.str())
            .raw("cap", cap.str())
            .raw("full", full.str());
    }

    void run_exec(const Exec& x)
    {
        std::string what = x.str("what");
        if (what == "align")
            do_align(x);
        else if (what == "alignfor")
            do_alignfor(x);
        else if (what == "ilog2")
            do_ilog2(x);
        else if (what == "boundary")
            do_boundary(x);
        else if (what == "bucket")
            do_bucket(x);
        else if (what == "minblock")
            do_minblock(x);
        else if (what == "minstack")
            do_minstack(x);
        else
            Ev("badcmd").s("op", what);
        Ev("end").s("what", what);
    }
} // namespace

int main(int argc, char** argv)
{
    if (argc < 3)
    {
        std::fprintf(stderr, "usage: tables <script> <trace-out> [first-exec-number]\n");
        return 2;
    }
    auto execs = load_script(argv[1]);
    int  fd    = ::open(argv[2], O_WRONLY | O_CREAT | O_APPEND, 0644);
    if (fd < 0)
        return 2;
    trace_fd() = fd;
    long xn    = argc > 3 ? std::atol(argv[3]) : 0;
    install_handlers();
    emit_cfg("tables");
    for (auto& x : execs)
    {
        Ev("x").i("n", xn++).s("hdr", x.header).emit();
        run_child(
            [&]
            {
                world().init();
                run_exec(x);
            },
            600);
    }
    return 0;
}
