// verif driver "construct": instantiation for Elem<4, 4>
#include "construct_typed.hpp"
namespace vc
{
    ITyped* make_typed_e4()
    {
        return new Typed<Elem<4, 4>>();
    }
} // namespace vc
