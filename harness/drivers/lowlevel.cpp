// verif driver "lowlevel": heap_allocator, malloc_allocator, new_allocator and
// virtual_memory_allocator, through allocator_traits and through the member interface.
// It records; it does not judge.
//   usage: lowlevel <script> <trace-out>
//
// The system allocations underneath (malloc/free, operator new(nothrow)/operator delete,
// mmap/mprotect/munmap) are observed through `-Wl,--wrap=` interposition (link options of this
// target only): while the driver is inside a library call ("window") every wrapped call is noted in
// a fixed table; afterwards the notes become the `sys` field of the API event:
//   [1,b,0,size,kind]  block b acquired (kind 1 malloc, 2 operator new, 3 mmap)
//   [2,b,off,len,0]    released (b = -1: not the base of / not inside a live observed block)
//   [3,b,off,len,rw]   protection of [off, off+len) of block b changed (rw 1 = read/write)
//
// Script:  X mode=hist|leak            (leak: the execution ends with exit(0), static destructors run)
//   a <kind> <iface> <size> <align>     allocate a node, fill it with the content pattern
//   d <k>                               deallocate the k-th live node (mod number of live nodes)
//   probe <kind> <iface> <size> <align> <side> <idx> <val>
//        in a forked child: allocate, write ONE byte `val` (side 1: idx bytes before the node start,
//        i.e. offset -1-idx; side 2: offset size+idx; side 3: offset idx mod size; side 0: nothing),
//        deallocate with handlers that exit; the parent records how the child ended
//   kind 0 heap 1 malloc 2 new 3 virtual; iface 0 allocator_traits node, 1 member, 2 traits array
#include <cerrno>
#include <cstdio>
#include <cstring>
#include <fcntl.h>
#include <new>
#include <string>
#include <vector>
#include <sys/mman.h>

#include <foonathan/memory/allocator_traits.hpp>
#include <foonathan/memory/heap_allocator.hpp>
#include <foonathan/memory/malloc_allocator.hpp>
#include <foonathan/memory/new_allocator.hpp>
#include <foonathan/memory/virtual_memory.hpp>

#include <verif/child.hpp>
#include <verif/observe.hpp>
#include <verif/script.hpp>

using namespace verif;

// ---- system call observation -----------------------------------------------------------------
namespace
{
    struct Note
    {
        int         op;
        char*       p;
        std::size_t len;
        int         x; // kind (op 1) or rw (op 3)
    };
    constexpr int  max_notes = 64;
    Note           notes[max_notes];
    int            n_notes  = 0;
    int            lost     = 0;
    volatile bool  watching = false;

    inline void note(int op, void* p, std::size_t len, int x)
    {
        if (!watching)
            return;
        if (n_notes == max_notes)
        {
            ++lost;
            return;
        }
        notes[n_notes++] = Note{op, static_cast<char*>(p), len, x};
    }
} // namespace

extern "C"
{
    void* __real_malloc(std::size_t);
    void  __real_free(void*);
    void* __real_mmap(void*, std::size_t, int, int, int, off_t);
    int   __real_munmap(void*, std::size_t);
    int   __real_mprotect(void*, std::size_t, int);
    void* __real__ZnwmRKSt9nothrow_t(std::size_t, const std::nothrow_t&);
    void  __real__ZdlPv(void*);

    void* __wrap_malloc(std::size_t n)
    {
        void* p = __real_malloc(n);
        if (p)
            note(1, p, n, 1);
        return p;
    }
    void __wrap_free(void* p)
    {
        if (p)
            note(2, p, 0, 0);
        __real_free(p);
    }
    void* __wrap__ZnwmRKSt9nothrow_t(std::size_t n, const std::nothrow_t& t)
    {
        void* p = __real__ZnwmRKSt9nothrow_t(n, t);
        if (p)
            note(1, p, n, 2);
        return p;
    }
    void __wrap__ZdlPv(void* p)
    {
        if (p)
            note(2, p, 0, 0);
        __real__ZdlPv(p);
    }
    void* __wrap_mmap(void* a, std::size_t l, int prot, int flags, int fd, off_t o)
    {
        void* p = __real_mmap(a, l, prot, flags, fd, o);
        if (p != MAP_FAILED)
        {
            note(1, p, l, 3);
            if ((prot & PROT_READ) && (prot & PROT_WRITE))
                note(3, p, l, 1);
        }
        return p;
    }
    int __wrap_munmap(void* a, std::size_t l)
    {
        note(2, a, l, 0);
        return __real_munmap(a, l);
    }
    int __wrap_mprotect(void* a, std::size_t l, int prot)
    {
        int r = __real_mprotect(a, l, prot);
        if (r == 0)
            note(3, a, l, ((prot & PROT_READ) && (prot & PROT_WRITE)) ? 1 : 0);
        return r;
    }
}

namespace
{
    struct SysBlk
    {
        char*       base;
        std::size_t size;
        int         kind;
        bool        live;
        std::size_t rw_lo, rw_hi; // readable/writable part [rw_lo, rw_hi)
    };
    std::vector<SysBlk> sysblk;

    int find_sys(const char* p)
    {
        for (std::size_t i = sysblk.size(); i-- > 0;)
            if (sysblk[i].live && p >= sysblk[i].base && p < sysblk[i].base + sysblk[i].size)
                return static_cast<int>(i);
        return -1;
    }

    // turn the notes of the last window into block bookkeeping and a JSON list
    std::string digest_notes()
    {
        std::string out = "[";
        for (int i = 0; i < n_notes; ++i)
        {
            const Note& n = notes[i];
            long long   b = -1, off = 0, len = static_cast<long long>(n.len), x = n.x;
            if (n.op == 1)
            {
                sysblk.push_back(SysBlk{n.p, n.len, n.x, true, 0, n.x == 3 ? 0 : n.len});
                b = static_cast<long long>(sysblk.size()) - 1;
            }
            else if (n.op == 2)
            {
                int k = find_sys(n.p);
                if (k >= 0)
                {
                    SysBlk& s = sysblk[static_cast<std::size_t>(k)];
                    off       = n.p - s.base;
                    if (n.len == 0)
                        len = off == 0 ? static_cast<long long>(s.size) : 0; // free(): whole block
                    // only a release of the complete block ends it; anything else is logged as is
                    if (off == 0 && static_cast<std::size_t>(len) == s.size)
                        s.live = false;
                    b = k;
                }
            }
            else
            {
                int k = find_sys(n.p);
                if (k >= 0)
                {
                    SysBlk& s = sysblk[static_cast<std::size_t>(k)];
                    off       = n.p - s.base;
                    if (n.x)
                    {
                        s.rw_lo = static_cast<std::size_t>(off);
                        s.rw_hi = static_cast<std::size_t>(off) + n.len;
                    }
                    else
                        s.rw_lo = s.rw_hi = 0;
                    b = k;
                }
            }
            out += std::string(i ? "," : "") + "[" + std::to_string(n.op) + "," + std::to_string(b)
                   + "," + std::to_string(off) + "," + std::to_string(len) + "," + std::to_string(x)
                   + "]";
        }
        if (lost)
            out += std::string(n_notes ? "," : "") + "[9,-1,0," + std::to_string(lost) + ",0]";
        n_notes = 0;
        lost    = 0;
        return out + "]";
    }

    template <class F>
    std::string window(F&& f)
    {
        n_notes  = 0;
        watching = true;
        std::string r = classify(f);
        watching = false;
        return r;
    }

    // ---- the allocators --------------------------------------------------------------------
    const char* kind_name(int k)
    {
        static const char* n[] = {"heap", "malloc", "new", "virtual"};
        return k >= 0 && k < 4 ? n[k] : "?";
    }

    template <class A>
    void* alloc_with(int iface, std::size_t sz, std::size_t al)
    {
        A a;
        using T = fm::allocator_traits<A>;
        if (iface == 1)
            return a.allocate_node(sz, al);
        if (iface == 2)
            return T::allocate_array(a, sz, 1, al);
        return T::allocate_node(a, sz, al);
    }
    template <class A>
    void dealloc_with(int iface, void* p, std::size_t sz, std::size_t al)
    {
        A a;
        using T = fm::allocator_traits<A>;
        if (iface == 1)
            a.deallocate_node(p, sz, al);
        else if (iface == 2)
            T::deallocate_array(a, p, sz, 1, al);
        else
            T::deallocate_node(a, p, sz, al);
    }
    void* do_alloc(int kind, int iface, std::size_t sz, std::size_t al)
    {
        switch (kind)
        {
        case 0:
            return alloc_with<fm::heap_allocator>(iface, sz, al);
        case 1:
            return alloc_with<fm::malloc_allocator>(iface, sz, al);
        case 2:
            return alloc_with<fm::new_allocator>(iface, sz, al);
        default:
            return alloc_with<fm::virtual_memory_allocator>(iface, sz, al);
        }
    }
    void do_dealloc(int kind, int iface, void* p, std::size_t sz, std::size_t al)
    {
        switch (kind)
        {
        case 0:
            return dealloc_with<fm::heap_allocator>(iface, p, sz, al);
        case 1:
            return dealloc_with<fm::malloc_allocator>(iface, p, sz, al);
        case 2:
            return dealloc_with<fm::new_allocator>(iface, p, sz, al);
        default:
            return dealloc_with<fm::virtual_memory_allocator>(iface, p, sz, al);
        }
    }
    // fence size the build configuration asks for (how far the driver looks for fence bytes; what
    // is judged are the fence bytes actually found, see fpre/fpost)
    std::size_t cfg_fence(int kind)
    {
        if (!fm::detail::debug_fence_size)
            return 0;
        return kind == 3 ? fm::get_virtual_memory_page_size() : fm::detail::max_alignment;
    }

    struct Node
    {
        int         id, kind, iface;
        char*       p;
        std::size_t sz, al, fpre, fpost;
        bool        mine; // lies inside readable/writable memory obtained from the system
        long        woff = -1; // in-bounds offset overwritten by a probe (or -1) and its value
        int         wval = 0;
    };

    constexpr unsigned char fence_byte = 0xFD;

    struct Runner
    {
        const Exec&       x;
        std::vector<Node> live;
        int               next_id = 0;
        bool              fill    = FOONATHAN_MEMORY_DEBUG_FILL != 0;
        bool              in_probe = false; // inside a forked probe child

        explicit Runner(const Exec& e) : x(e) {}

        // other live nodes whose content / fence bytes changed
        void neighbours(int except, std::size_t& nbad, std::size_t& fbad)
        {
            nbad = fbad = 0;
            for (auto& n : live)
            {
                if (n.id == except || !n.mine)
                    continue;
                long first;
                if (pat_check(n.p, n.sz, n.id, &first))
                    ++nbad;
                if (count_not(n.p - n.fpre, n.fpre, fence_byte)
                    || count_not(n.p + n.sz, n.fpost, fence_byte))
                    ++fbad;
            }
        }

        Node* alloc(int kind, int iface, std::size_t sz, std::size_t al)
        {
            void*       p = nullptr;
            std::string r = window([&] { p = do_alloc(kind, iface, sz, al); });
            std::string sys = digest_notes();
            if (r == "ok" && !p)
                r = "null";
            Node n{0, kind, iface, static_cast<char*>(p), sz, al, 0, 0, false};
            long long sb = -1, soff = 0, fresh = -1;
            std::size_t nbad = 0, fbad = 0;
            if (p)
            {
                n.id  = ++next_id;
                int k = find_sys(n.p);
                if (k >= 0)
                {
                    SysBlk& s = sysblk[static_cast<std::size_t>(k)];
                    sb        = k;
                    soff      = n.p - s.base;
                    n.mine    = n.p >= s.base + s.rw_lo && n.p + sz <= s.base + s.rw_hi;
                    if (n.mine)
                    {
                        if (fill)
                            fresh = static_cast<long long>(count_not(p, sz, 0xCD));
                        std::size_t cap = cfg_fence(kind);
                        while (n.fpre < cap && n.p - n.fpre - 1 >= s.base + s.rw_lo
                               && static_cast<unsigned char>(n.p[-1 - static_cast<long>(n.fpre)])
                                      == fence_byte)
                            ++n.fpre;
                        while (n.fpost < cap && n.p + sz + n.fpost < s.base + s.rw_hi
                               && static_cast<unsigned char>(n.p[sz + n.fpost]) == fence_byte)
                            ++n.fpost;
                        pat_fill(p, sz, n.id); // in-bounds write pattern over every byte
                    }
                }
                neighbours(n.id, nbad, fbad);
            }
            Ev("alloc")
                .i("id", n.id)
                .s("kind", kind_name(kind))
                .i("iface", iface)
                .b("pr", in_probe)
                .u("sz", sz)
                .u("al", al)
                .s("r", r)
                .i("sb", sb)
                .i("soff", soff)
                .u("mis", p && al ? reinterpret_cast<std::uintptr_t>(p) % al : 0)
                .i("fresh", fresh)
                .u("fence", cfg_fence(kind))
                .u("fpre", n.fpre)
                .u("fpost", n.fpost)
                .u("nbad", nbad)
                .u("fbad", fbad)
                .raw("sys", sys);
            if (!p)
                return nullptr;
            live.push_back(n);
            return &live.back();
        }

        void dealloc(std::size_t k, bool announce)
        {
            Node        n = live[k];
            long        first = -1;
            std::size_t bad = n.mine ? pat_check(n.p, n.sz, n.id, &first) : 0;
            if (bad && n.woff >= 0 && static_cast<unsigned char>(n.p[n.woff]) == n.wval)
            {
                // the probe's own in-bounds write is not a corruption
                --bad;
                if (first == n.woff)
                    first = -1;
            }
            if (announce)
                Ev("fr0").i("id", n.id).emit();
            std::string r   = window([&] { do_dealloc(n.kind, n.iface, n.p, n.sz, n.al); });
            std::string sys = digest_notes();
            live.erase(live.begin() + static_cast<long>(k));
            std::size_t nbad, fbad;
            neighbours(-1, nbad, fbad);
            Ev("free")
                .i("id", n.id)
                .s("r", r)
                .u("bad", bad)
                .i("first", first)
                .u("nbad", nbad)
                .u("fbad", fbad)
                .raw("sys", sys);
        }

        void probe(const Cmd& c)
        {
            int         kind = static_cast<int>(c.arg(0)), iface = static_cast<int>(c.arg(1));
            std::size_t sz = static_cast<std::size_t>(c.arg(2)), al = static_cast<std::size_t>(c.arg(3));
            int         side = static_cast<int>(c.arg(4));
            long        idx  = static_cast<long>(c.arg(5));
            int         val  = static_cast<int>(c.arg(6)) & 0xff;
            pid_t       pid  = fork();
            if (pid < 0)
                std::abort();
            if (pid == 0)
            {
                alarm(10);
                in_probe                        = true;
                handler_mode().exit_on_overflow = true;
                Node* n = alloc(kind, iface, sz, al);
                if (n)
                {
                    if (side >= 4 && side <= 6)
                    {
                        // two bytes: 4 = byte idx in front of the node and byte idx2 behind it, 5 = both in the fence
                        // in front of it, 6 = both in the fence behind it
                        long idx2 = static_cast<long>(c.arg(7, 0));
                        long offs[2] = {side == 6 ? static_cast<long>(sz) + idx : -1 - idx,
                                        side == 5 ? -1 - idx2 : static_cast<long>(sz) + idx2};
                        bool ok[2]   = {n->mine && static_cast<std::size_t>(idx) < (side == 6 ? n->fpost : n->fpre),
                                        n->mine && static_cast<std::size_t>(idx2) < (side == 5 ? n->fpre : n->fpost)};
                        for (int k = 1; k >= 0; --k) // the back one first: the order of the writes must not matter
                        {
                            int old = -1;
                            if (ok[k])
                            {
                                old           = static_cast<unsigned char>(n->p[offs[k]]);
                                n->p[offs[k]] = static_cast<char>(val);
                            }
                            Ev("wr").i("id", n->id).i("off", offs[k]).i("val", val).i("old", old).b("done", ok[k]);
                        }
                    }
                    else if (side != 0)
                    {
                        long off   = side == 1 ? -1 - idx
                                     : side == 2 ? static_cast<long>(sz) + idx
                                                 : idx % static_cast<long>(sz ? sz : 1);
                        bool valid = n->mine
                                     && (side == 1   ? static_cast<std::size_t>(idx) < n->fpre
                                         : side == 2 ? static_cast<std::size_t>(idx) < n->fpost
                                                     : sz > 0);
                        int old = -1;
                        if (valid)
                        {
                            old       = static_cast<unsigned char>(n->p[off]);
                            n->p[off] = static_cast<char>(val);
                            if (side == 3)
                            {
                                n->woff = off;
                                n->wval = val;
                            }
                        }
                        Ev("wr").i("id", n->id).i("off", off).i("val", val).i("old", old).b("done", valid);
                    }
                    dealloc(live.size() - 1, true);
                }
                _exit(0);
            }
            int status = 0;
            while (waitpid(pid, &status, 0) < 0) {}
            if (WIFSIGNALED(status))
                Ev("pend").s("how", WTERMSIG(status) == SIGALRM ? "timeout" : "signal").i(
                    "code", WTERMSIG(status));
            else
                Ev("pend").s("how", "exit").i("code", WEXITSTATUS(status));
        }

        void run()
        {
            bool leak = x.str("mode") == "leak";
            for (auto& c : x.cmds)
            {
                if (c.op == "a")
                    alloc(static_cast<int>(c.arg(0)), static_cast<int>(c.arg(1)),
                          static_cast<std::size_t>(c.arg(2)), static_cast<std::size_t>(c.arg(3)));
                else if (c.op == "d")
                {
                    if (!live.empty())
                        dealloc(static_cast<std::size_t>(c.arg(0)) % live.size(), false);
                }
                else if (c.op == "probe")
                    probe(c);
                else
                    Ev("badcmd").s("op", c.op);
            }
            if (leak)
            {
                Ev("exit").u("live", live.size()).emit();
                std::exit(0); // static destructors run: the global leak counters report
            }
            while (!live.empty())
                dealloc(live.size() - 1, false);
            Ev("end").u("sysblocks", sysblk.size());
        }
    };

    // leak handler that is safe to call during static destruction
    void ll_leak(const fm::allocator_info& info, std::ptrdiff_t amount)
    {
        const char* name = info.name;
        const char* pre  = FOONATHAN_MEMORY_LOG_PREFIX "::";
        if (std::strncmp(name, pre, std::strlen(pre)) == 0)
            name += std::strlen(pre);
        Ev("h").s("k", "leak").s("name", name).i("o", -1).i("amt", amount);
    }
} // namespace

int main(int argc, char** argv)
{
    if (argc < 3)
    {
        std::fprintf(stderr, "usage: lowlevel <script> <trace-out>\n");
        return 2;
    }
    auto execs = load_script(argv[1]);
    int  fd    = ::open(argv[2], O_WRONLY | O_CREAT | O_APPEND, 0644);
    if (fd < 0)
        return 2;
    trace_fd() = fd;
    install_handlers();
    fm::set_leak_handler(ll_leak);
    emit_cfg("lowlevel");
    long xn = 0;
    for (auto& x : execs)
    {
        Ev("x").i("n", xn++).s("hdr", x.header).emit();
        run_child(
            [&]
            {
                Runner r(x);
                r.run();
            },
            60);
        Ev("xend").emit();
    }
    return 0;
}
