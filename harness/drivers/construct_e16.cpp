// verif driver "construct": instantiation for Elem<16, 16>
#include "construct_typed.hpp"
namespace vc
{
    ITyped* make_typed_e16()
    {
        return new Typed<Elem<16, 16>>();
    }
} // namespace vc
