// verif: the observed "world" of one execution: a private address range from which the
// instrumented upstream hands out numbered blocks, two slots (below and above that range) in which
// allocator objects under test are placed, and the projection of raw pointers to (block, offset).
#ifndef VERIF_WORLD_HPP
#define VERIF_WORLD_HPP
#include <cstddef>
#include <cstdint>
#include <cstdlib>
#include <cstring>
#include <new>
#include <utility>
#include <vector>
#include <sys/mman.h>
#include <unistd.h>

#include "trace.hpp"

namespace verif
{
    // thrown by the instrumented upstream when a failure is injected
    struct injected_oom : std::bad_alloc
    {
        const char* what() const noexcept override
        {
            return "verif: injected upstream failure";
        }
    };

    struct Block
    {
        char*       base;
        std::size_t size;
        std::size_t align;
        int         src;
        bool        live;
        bool        is_static;
        std::size_t gap;     // guard bytes in front of base
        std::size_t tail;    // guard bytes behind base+size
        bool        guarded; // guard zones are still exclusively ours
        bool        poisoned = false; // returned to the upstream and filled with dead_byte
    };

    struct World
    {
        static constexpr std::size_t slot_size  = 1u << 20;
        static constexpr std::size_t total_size = 96u << 20;
        static constexpr unsigned char guard_byte = 0xA7;
        static constexpr unsigned char dead_byte  = 0xEE;

        char* region = nullptr;
        char* low_slot  = nullptr; // object placement below all upstream memory
        char* high_slot = nullptr; // object placement above all upstream memory
        char* cur = nullptr;
        char* end = nullptr;
        std::vector<Block> blocks;

        bool carve       = false; // consecutive blocks without guard gap
        bool down        = false; // new blocks below the earlier ones instead of above
        bool adversarial = true;  // block bases aligned to the requested alignment and no more
        long fail_in     = 0;     // >0: the fail_in-th upstream allocation from now fails
        long up_calls    = 0;     // upstream allocation calls so far (including failed ones)
        long up_fails    = 0;
        long up_allocs   = 0;
        long up_frees    = 0;
        int  next_src    = 0;
        bool        taken_before  = false; // a block has been taken: its guard zone borders the free area
        std::size_t healed_damage = 0;     // guard bytes found overwritten when the zone was filled again

        void init()
        {
            void* p = ::mmap(nullptr, total_size, PROT_READ | PROT_WRITE,
                             MAP_PRIVATE | MAP_ANONYMOUS | MAP_NORESERVE, -1, 0);
            if (p == MAP_FAILED)
                std::abort();
            region    = static_cast<char*>(p);
            low_slot  = region;
            cur       = region + slot_size;
            end       = region + total_size - slot_size;
            high_slot = end;
        }

        static std::uintptr_t up_to(std::uintptr_t a, std::size_t al)
        {
            return (a + al - 1) / al * al;
        }

        // carve a new block out of the region
        char* take(std::size_t size, std::size_t align, std::size_t& gap)
        {
            if (align == 0)
                align = 1;
            if (down && !carve)
            {
                // descending placement: every new block lies below all earlier ones
                if (static_cast<std::size_t>(end - cur) < size + 256 + 2 * align)
                    std::abort();
                auto d = (reinterpret_cast<std::uintptr_t>(end) - 64 - size) / align * align;
                if (adversarial && align < 4096 && (d / align) % 2 == 0)
                    d -= align;
                char* dbase = reinterpret_cast<char*>(d);
                // (descending placement fills fresh memory only: the guard zones of earlier blocks are not touched)
                std::memset(dbase + size, guard_byte, static_cast<std::size_t>(end - (dbase + size)));
                std::memset(dbase - 64, guard_byte, 64);
                gap = 64;
                end = dbase - 64;
                return dbase;
            }
            auto a = reinterpret_cast<std::uintptr_t>(cur);
            if (!carve)
                a += 64; // guard gap in front
            a = up_to(a, align);
            if (!carve && adversarial && align < 4096 && (a / align) % 2 == 0)
                a += align; // aligned to `align` but not to 2*align
            char* base = reinterpret_cast<char*>(a);
            if (base + size + 64 > end)
                std::abort(); // world exhausted: infrastructure problem, not a verdict
            gap = static_cast<std::size_t>(base - cur);
            // the gap in front of the new block starts with the guard zone behind the previous one: count what was
            // written there before it is filled again (otherwise taking a block would heal the damage)
            if (!carve && taken_before)
                for (std::size_t i = 0; i < 64 && i < gap; ++i)
                    if (static_cast<unsigned char>(cur[i]) != guard_byte)
                        ++healed_damage;
            taken_before = true;
            std::memset(cur, guard_byte, gap);
            cur = base + size;
            if (!carve)
            {
                std::memset(cur, guard_byte, 64);
            }
            return base;
        }

        int add_block(char* base, std::size_t size, std::size_t align, int src, bool is_static,
                      std::size_t gap = 0)
        {
            blocks.push_back(Block{base, size, align, src, true, is_static, gap,
                                   carve ? std::size_t(0) : std::size_t(64), !carve});
            return static_cast<int>(blocks.size()) - 1;
        }

        int find_base(const void* p) const
        {
            for (std::size_t i = blocks.size(); i-- > 0;)
                if (blocks[i].live && blocks[i].base == p)
                    return static_cast<int>(i);
            return -1;
        }

        // projection of a raw pointer: live block containing it (one-past-the-end excluded)
        void project(const void* p, long& blk, long& off) const
        {
            auto c = static_cast<const char*>(p);
            for (std::size_t i = blocks.size(); i-- > 0;)
            {
                const Block& b = blocks[i];
                if (b.live && c >= b.base && c < b.base + b.size)
                {
                    blk = static_cast<long>(i);
                    off = static_cast<long>(c - b.base);
                    return;
                }
            }
            blk = -1;
            // dead block? report as -2 with its id in off for diagnosis
            for (std::size_t i = blocks.size(); i-- > 0;)
            {
                const Block& b = blocks[i];
                if (!b.live && c >= b.base && c < b.base + b.size)
                {
                    blk = -2;
                    off = static_cast<long>(i);
                    return;
                }
            }
            off = static_cast<long>(reinterpret_cast<std::uintptr_t>(p) & 0xfffff);
        }
    };

    inline World& world()
    {
        static World w;
        return w;
    }

    // ---- instrumented RawAllocator (stateful, copyable handle onto a numbered source) ----------
    struct raw_up
    {
        using is_stateful = std::true_type;
        int src;

        raw_up() : src(world().next_src++) {}
        explicit raw_up(int s) : src(s) {}

        void* allocate_node(std::size_t size, std::size_t alignment)
        {
            World& w = world();
            ++w.up_calls;
            if (w.fail_in > 0 && --w.fail_in == 0)
            {
                ++w.up_fails;
                Ev("ux").i("s", src).u("sz", size).u("al", alignment);
                throw injected_oom();
            }
            std::size_t gap  = 0;
            char*       base = w.take(size, alignment, gap);
            int         id   = w.add_block(base, size, alignment, src, false, gap);
            ++w.up_allocs;
            Ev("ua")
                .i("s", src)
                .i("b", id)
                .u("sz", size)
                .u("al", alignment)
                .u("mis", alignment ? reinterpret_cast<std::uintptr_t>(base) % alignment : 0)
                .u("gap", gap)
                .b("st", false).b("out", false);
            return base;
        }

        void deallocate_node(void* p, std::size_t size, std::size_t alignment) noexcept
        {
            World& w  = world();
            int    id = w.find_base(p);
            if (id >= 0)
            {
                Block& b = w.blocks[static_cast<std::size_t>(id)];
                Ev("uf")
                    .i("s", src)
                    .i("b", id)
                    .u("sz", size)
                    .u("al", alignment)
                    .i("os", b.src)
                    .u("osz", b.size)
                    .u("oal", b.align);
                b.live = false;
                ++w.up_frees;
                std::memset(b.base, World::dead_byte, b.size);
                b.poisoned = true;
            }
            else
            {
                long blk, off;
                w.project(p, blk, off);
                ++w.up_frees;
                Ev("uf").i("s", src).i("b", -1).u("sz", size).u("al", alignment).i("pb", blk).i(
                    "po", off);
            }
        }

        std::size_t max_node_size() const noexcept
        {
            return std::size_t(1) << 30;
        }
    };

    inline bool operator==(const raw_up& a, const raw_up& b)
    {
        return a.src == b.src;
    }

    // register caller-provided storage (static_allocator_storage) as a block that is never returned
    inline int register_static(void* base, std::size_t size, int src)
    {
        World& w  = world();
        int    id = w.add_block(static_cast<char*>(base), size, 16, src, true);
        Ev("ua")
            .i("s", src)
            .i("b", id)
            .u("sz", size)
            .u("al", 16)
            .u("mis", reinterpret_cast<std::uintptr_t>(base) % 16)
            .u("gap", 0)
            .b("st", true).b("out", false);
        return id;
    }

    // ---- instrumented BlockAllocator wrapper: numbers the blocks a real block source hands out ----
    inline int& pending_src()
    {
        static int s = -1;
        return s;
    }
    // size of the storage the next static source is built on (header key ssz) and the storage itself
    inline std::size_t& static_size_request()
    {
        static std::size_t n = 16384;
        return n;
    }
    struct AddrRange
    {
        const char* lo = nullptr;
        const char* hi = nullptr;
    };
    inline AddrRange& pending_range()
    {
        static AddrRange r;
        return r;
    }
    // ---- address ranges reserved from the operating system (drivers that include vmhook.hpp) ----
    struct VmRes
    {
        char*       base;
        std::size_t pages;
        bool        live;
    };
    inline std::vector<VmRes>& vm_reservations()
    {
        static std::vector<VmRes> v;
        return v;
    }
    inline std::size_t vm_page()
    {
        static std::size_t p = static_cast<std::size_t>(::sysconf(_SC_PAGESIZE));
        return p;
    }
    // >0: the n-th commit (mprotect to read/write inside a reservation) from now is refused
    inline long& vm_fail_commit_in()
    {
        static long n = 0;
        return n;
    }
    inline bool& vm_hooked()
    {
        static bool b = false;
        return b;
    }
    // reservation and page offset of an address (-1: none)
    inline void vm_locate(const void* p, long& r, long& off)
    {
        auto  c = static_cast<const char*>(p);
        auto& v = vm_reservations();
        for (std::size_t i = v.size(); i-- > 0;)
            if (v[i].live && c >= v[i].base && c < v[i].base + v[i].pages * vm_page())
            {
                r   = static_cast<long>(i);
                off = static_cast<long>(static_cast<std::size_t>(c - v[i].base) / vm_page());
                return;
            }
        r = off = -1;
    }
    // block sources whose own failure path can be provoked (a refused commit) instead of replacing the call
    template <class BlockAlloc>
    struct native_failure
    {
        static constexpr bool value = false;
    };

    template <class BlockAlloc>
    class logged_blocks : public BlockAlloc
    {
    public:
        template <typename... Args>
        explicit logged_blocks(std::size_t block_size, Args&&... args)
        : BlockAlloc(block_size, static_cast<Args&&>(args)...), src_(pending_src()), range_(pending_range())
        {
            pending_range() = AddrRange();
        }
        logged_blocks(logged_blocks&&) noexcept            = default;
        logged_blocks& operator=(logged_blocks&&) noexcept = default;
        // swap as a user of the plain source gets it: through the source's own swap (found by ADL) where it has one -
        // std::swap on the wrapper would go through move construction and assignment instead
        friend void swap(logged_blocks& a, logged_blocks& b) noexcept
        {
            using std::swap;
            swap(static_cast<BlockAlloc&>(a), static_cast<BlockAlloc&>(b));
            swap(a.src_, b.src_);
            swap(a.range_, b.range_);
        }

        auto allocate_block() -> decltype(std::declval<BlockAlloc&>().allocate_block())
        {
            World& w = world();
            ++w.up_calls;
            if (w.fail_in > 0 && --w.fail_in == 0)
            {
                ++w.up_fails;
                Ev("ux").i("s", src_).u("sz", BlockAlloc::next_block_size()).u("al", 0);
                if (native_failure<BlockAlloc>::value && vm_hooked())
                    vm_fail_commit_in() = 1; // the source's own commit is refused: its own failure path runs
                else
                    throw injected_oom();
            }
            struct disarm
            {
                ~disarm()
                {
                    vm_fail_commit_in() = 0;
                }
            } disarm_at_exit;
            auto b  = BlockAlloc::allocate_block();
            long vr, vo;
            vm_locate(b.memory, vr, vo);
            int  id = w.add_block(static_cast<char*>(b.memory), b.size, 16, src_, false);
            w.blocks[static_cast<std::size_t>(id)].guarded = false;
            ++w.up_allocs;
            Ev("ua")
                .i("s", src_)
                .i("b", id)
                .u("sz", b.size)
                .u("al", 16)
                .u("mis", reinterpret_cast<std::uintptr_t>(b.memory) % 16)
                .u("gap", 0)
                .b("st", false)
                // a block that does not lie inside the storage the source was given
                .b("out", range_.lo
                              && (static_cast<const char*>(b.memory) < range_.lo
                                  || static_cast<const char*>(b.memory) + b.size > range_.hi))
                .i("vr", vr)
                .i("vo", vo)
                .u("vp", vr >= 0 ? b.size / vm_page() : 0);
            return b;
        }

        template <class Block>
        void deallocate_block(Block b) noexcept
        {
            World& w  = world();
            int    id = w.find_base(b.memory);
            ++w.up_frees;
            long vr, vo;
            vm_locate(b.memory, vr, vo);
            if (id >= 0)
            {
                Block_& blk = w.blocks[static_cast<std::size_t>(id)];
                Ev("uf")
                    .i("s", src_)
                    .i("b", id)
                    .u("sz", b.size)
                    .u("al", 16)
                    .i("os", blk.src)
                    .u("osz", blk.size)
                    .u("oal", blk.align)
                    .i("vr", vr)
                    .i("vo", vo)
                    .u("vp", vr >= 0 ? b.size / vm_page() : 0);
                blk.live = false;
            }
            else
            {
                long pb, po;
                w.project(b.memory, pb, po);
                Ev("uf").i("s", src_).i("b", -1).u("sz", b.size).u("al", 16).i("pb", pb).i("po", po);
            }
            BlockAlloc::deallocate_block(b);
        }

    private:
        using Block_ = Block;
        int       src_;
        AddrRange range_;
    };
} // namespace verif
#endif
