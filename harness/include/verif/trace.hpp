// verif: NDJSON event writer. One complete line per write(2) so nothing is lost or torn when the
// process under observation dies. Integers outside the range TLC can read are clamped and flagged.
#ifndef VERIF_TRACE_HPP
#define VERIF_TRACE_HPP
#include <cstddef>
#include <cstdint>
#include <cstdio>
#include <cstring>
#include <string>
#include <unistd.h>

namespace verif
{
    inline int& trace_fd()
    {
        static int fd = 1;
        return fd;
    }
    // events written by this process (a forked child starts with the parent's count: reset in run_child)
    inline long& event_count()
    {
        static long n = 0;
        return n;
    }
    inline long& event_cap()
    {
        static long cap = 400000;
        return cap;
    }

    class Ev
    {
    public:
        explicit Ev(const char* name)
        {
            buf_.reserve(256);
            buf_ += "{\"e\":\"";
            buf_ += name;
            buf_ += "\"";
        }
        Ev(const Ev&)            = delete;
        Ev& operator=(const Ev&) = delete;
        ~Ev()
        {
            emit();
        }
        Ev& i(const char* k, long long v)
        {
            if (v > 999999999LL || v < -999999999LL)
            {
                v    = v > 0 ? 1000000000LL : -1000000000LL;
                ovf_ = true;
            }
            key(k);
            buf_ += std::to_string(v);
            return *this;
        }
        Ev& u(const char* k, std::size_t v)
        {
            if (v > 999999999ULL)
            {
                ovf_ = true;
                key(k);
                buf_ += "1000000000";
                return *this;
            }
            return i(k, static_cast<long long>(v));
        }
        // clamp silently: for values that are legitimately huge (max_alignment = size_t(-1))
        Ev& uc(const char* k, std::size_t v)
        {
            key(k);
            buf_ += std::to_string(v > 999999999ULL ? 1000000000ULL : v);
            return *this;
        }
        // signed silent clamp (e.g. next_capacity() of an exhausted fixed source wraps by design)
        Ev& ic(const char* k, long long v)
        {
            if (v > 999999999LL || v < -999999999LL)
                v = 1000000000LL;
            key(k);
            buf_ += std::to_string(v);
            return *this;
        }
        Ev& b(const char* k, bool v)
        {
            key(k);
            buf_ += v ? "true" : "false";
            return *this;
        }
        Ev& s(const char* k, const char* v)
        {
            key(k);
            buf_ += '"';
            for (; *v; ++v)
            {
                if (*v == '"' || *v == '\\')
                    buf_ += '\\';
                if (static_cast<unsigned char>(*v) >= 0x20)
                    buf_ += *v;
            }
            buf_ += '"';
            return *this;
        }
        Ev& s(const char* k, const std::string& v)
        {
            return s(k, v.c_str());
        }
        // raw JSON value (caller guarantees validity), e.g. a list
        Ev& raw(const char* k, const std::string& json)
        {
            key(k);
            buf_ += json;
            return *this;
        }
        void emit()
        {
            if (done_)
                return;
            done_ = true;
            // a runaway loop in the code under test must not flood the trace: the child stops itself, the
            // parent records it as an abnormal end (exit code 96)
            if (++event_count() > event_cap())
                _exit(96);
            if (ovf_)
                buf_ += ",\"ovf\":true";
            buf_ += "}\n";
            const char* p = buf_.data();
            std::size_t n = buf_.size();
            while (n)
            {
                ssize_t w = ::write(trace_fd(), p, n);
                if (w <= 0)
                    break;
                p += w;
                n -= static_cast<std::size_t>(w);
            }
        }

    private:
        void key(const char* k)
        {
            buf_ += ",\"";
            buf_ += k;
            buf_ += "\":";
        }
        std::string buf_;
        bool        ovf_  = false;
        bool        done_ = false;
    };
} // namespace verif
#endif
