// verif: command scripts. Plain text, one command per line, whitespace separated tokens,
// '#' starts a comment. A line starting with "X" begins a new execution and carries key=value
// parameters; everything up to the next "X" line belongs to that execution.
#ifndef VERIF_SCRIPT_HPP
#define VERIF_SCRIPT_HPP
#include <cstdlib>
#include <fstream>
#include <map>
#include <sstream>
#include <string>
#include <vector>

namespace verif
{
    struct Cmd
    {
        std::string              op;
        std::vector<long long>   a;   // numeric arguments
        std::vector<std::string> raw; // all tokens after op
        long long arg(std::size_t i, long long def = 0) const
        {
            return i < a.size() ? a[i] : def;
        }
    };

    struct Exec
    {
        std::map<std::string, std::string> kv;
        std::vector<Cmd>                   cmds;
        std::string                        header; // the X line as written
        std::string str(const std::string& k, const std::string& def = "") const
        {
            auto it = kv.find(k);
            return it == kv.end() ? def : it->second;
        }
        long long num(const std::string& k, long long def = 0) const
        {
            auto it = kv.find(k);
            return it == kv.end() ? def : std::atoll(it->second.c_str());
        }
    };

    inline std::vector<Exec> load_script(const char* path)
    {
        std::vector<Exec> out;
        std::ifstream     in(path);
        std::string       line;
        while (std::getline(in, line))
        {
            auto h = line.find('#');
            if (h != std::string::npos)
                line.erase(h);
            std::istringstream ss(line);
            std::string        tok;
            if (!(ss >> tok))
                continue;
            if (tok == "X")
            {
                Exec e;
                e.header = line;
                while (ss >> tok)
                {
                    auto eq = tok.find('=');
                    if (eq == std::string::npos)
                        e.kv[tok] = "1";
                    else
                        e.kv[tok.substr(0, eq)] = tok.substr(eq + 1);
                }
                out.push_back(e);
            }
            else if (!out.empty())
            {
                Cmd c;
                c.op = tok;
                while (ss >> tok)
                {
                    c.raw.push_back(tok);
                    c.a.push_back(std::atoll(tok.c_str()));
                }
                out.back().cmds.push_back(c);
            }
        }
        return out;
    }
} // namespace verif
#endif
