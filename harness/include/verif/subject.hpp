// verif: uniform, type-erased view of the stateful allocators ("subjects") driven by seq.cpp.
// The subject classes only forward to the library and report scalars; they decide nothing.
#ifndef VERIF_SUBJECT_HPP
#define VERIF_SUBJECT_HPP
#include <cstddef>
#include <memory>
#include <string>
#include <vector>

#include <foonathan/memory/allocator_traits.hpp>
#include <foonathan/memory/iteration_allocator.hpp>
#include <foonathan/memory/memory_arena.hpp>
#include <foonathan/memory/memory_pool.hpp>
#include <foonathan/memory/memory_pool_collection.hpp>
#include <foonathan/memory/memory_stack.hpp>
#include <foonathan/memory/static_allocator.hpp>
#include <foonathan/memory/virtual_memory.hpp>

#include "observe.hpp"
#include "script.hpp"

namespace verif
{
    constexpr std::size_t static_storage_size = 16384;
    using static_storage = fm::static_allocator_storage<static_storage_size>;

    struct Scal // scalars reported by a subject (-1 = not applicable)
    {
        long long cap  = -1; // capacity_left() in bytes
        long long ncap = -1; // next_capacity()
        long long fn   = -1; // free nodes in the bucket relevant for the request
        long long asz  = -1; // arena size (blocks in use) where observable
    };

    struct ISubject
    {
        int         o   = -1;
        int         src = -1;
        std::string name;
        bool        member = false; // use the member interface instead of allocator_traits
        virtual ~ISubject() = default;
        virtual const char* family() const = 0;
        virtual void*       addr()         = 0;
        virtual std::size_t node_size()    = 0; // stride of pool nodes (0 if none)
        virtual std::size_t link_bytes()   = 0; // bytes a pool overwrites in a freed node
        virtual std::size_t header()       = 0; // bytes at the start of each upstream block that are not handed out

        virtual void* an(std::size_t sz, std::size_t al)                          = 0;
        virtual void* aa(std::size_t n, std::size_t sz, std::size_t al)           = 0;
        virtual void  dn(void* p, std::size_t sz, std::size_t al)                 = 0;
        virtual void  da(void* p, std::size_t n, std::size_t sz, std::size_t al)  = 0;
        virtual void* tn(std::size_t sz, std::size_t al)                          = 0;
        virtual void* ta(std::size_t n, std::size_t sz, std::size_t al)           = 0;
        virtual bool  tdn(void* p, std::size_t sz, std::size_t al)                = 0;
        virtual bool  tda(void* p, std::size_t n, std::size_t sz, std::size_t al) = 0;

        virtual Scal scal(std::size_t sz)                                     = 0;
        virtual void maxes(std::size_t& mn, std::size_t& ma, std::size_t& mal) = 0;

        // memory_pool_collection::reserve(node_size, capacity); false = the subject has no such member
        virtual bool reserve(std::size_t, std::size_t)
        {
            return false;
        }
        // memory_pool_collection: number of free lists (its default reservation is block size / this)
        virtual std::size_t pools()
        {
            return 0;
        }
        // memory_stack: remember top() / has top() changed since (a request can move the stack on to its next block
        // and still fail: the figures may look the same afterwards, the marker does not)
        virtual void note_top() {}
        virtual bool top_changed()
        {
            return false;
        }
        virtual bool has_markers()
        {
            return false;
        }
        virtual int mark()
        {
            return -1;
        }
        virtual void unwind(int) {}
        // the same through memory_stack_raii_unwind: mode 0 plain scope, 1 move-constructed unwinder,
        // 2 move-assigned onto a released unwinder (the moved-from ones must stay silent)
        virtual void unwind_raii(int j, int)
        {
            unwind(j);
        }
        // an unwinder that outlives the command: created in an inner scope for marker j and move-assigned to a
        // released one outside; nothing may be unwound before drop_raii()
        virtual bool keep_raii(int)
        {
            return false;
        }
        virtual void drop_raii() {}
        virtual void drop_raii_released() {} // give the kept unwinder up without unwinding
        virtual int  cmp(int, int)
        {
            return 0;
        } // bit0 <, bit1 <=, bit2 ==, bit3 !=, bit4 >, bit5 >=
        virtual void shrink() {}
        virtual bool has_iterations()
        {
            return false;
        }
        virtual void        next_iter() {}
        virtual std::size_t cur_iter()
        {
            return 0;
        }
        virtual std::size_t iters()
        {
            return 0;
        }
        virtual long long iter_cap(std::size_t)
        {
            return -1;
        }

        // memory_arena driven directly (fam=arena)
        virtual bool is_arena()
        {
            return false;
        }
        virtual void arena_alloc(void*& mem, std::size_t& size) {}
        virtual void arena_dealloc() {}
        virtual void arena_counts(long long& used, long long& cached, long long& cap, long long& next) {}
        virtual bool arena_owns(const void*)
        {
            return false;
        }
        virtual void arena_swap(ISubject&) {}

        virtual ISubject* move_to(void* where)     = 0; // move construction; *this becomes moved-from
        virtual void      assign_from(ISubject& other) = 0; // *this = std::move(other)
        virtual void      destroy()                = 0;
    };

    // ---- block sources ---------------------------------------------------------------------
    struct src_grow
    {
        using type = raw_up; // wrapped by the library in growing_block_allocator
        static constexpr const char* name = "grow";
    };
    struct src_fixed
    {
        using type = fm::fixed_block_allocator<raw_up>;
        static constexpr const char* name = "fixed";
    };
    struct src_static
    {
        using type = logged_blocks<fm::static_block_allocator>;
        static constexpr const char* name = "static";
    };

    // a virtual_block_allocator is failed through its own path: the commit (mprotect) of the block is refused
    template <>
    struct native_failure<logged_blocks<fm::virtual_block_allocator>>
    {
        static constexpr bool value = true;
    };
    template <>
    struct native_failure<fm::virtual_block_allocator>
    {
        static constexpr bool value = true;
    };
    struct src_virtual
    {
        using type = logged_blocks<fm::virtual_block_allocator>;
        static constexpr const char* name = "virtual";
    };

    template <class A, class Src, class... Pre>
    A* construct(void* where, int src, Src, Pre... pre)
    {
        return ::new (where) A(pre..., raw_up(src));
    }
    template <class A, class... Pre>
    A* construct(void* where, int src, src_static, Pre... pre)
    {
        // the storage lives in the world's region so that pointers into it can be projected;
        // the blocks cut from it are numbered by the logged_blocks wrapper
        std::size_t gap;
        std::size_t ssz = static_size_request() == 2048 ? 2048 : static_storage_size;
        char*       mem = world().take(ssz, 16, gap);
        pending_src()   = src;
        pending_range().lo = mem;
        pending_range().hi = mem + ssz;
        if (ssz == 2048) // a storage that a handful of blocks use up
            return ::new (where) A(pre..., *::new (mem) fm::static_allocator_storage<2048>);
        auto storage = ::new (mem) static_storage;
        return ::new (where) A(pre..., *storage);
    }

    template <class A, class... Pre>
    A* construct(void* where, int src, src_virtual, Pre... pre)
    {
        // real reserved address range (mmap); the blocks committed from it are numbered by logged_blocks
        pending_src() = src;
        return ::new (where) A(pre..., std::size_t(6));
    }

    // ---- common part -------------------------------------------------------------------------
    template <class A, class Derived>
    struct SubjBase : ISubject
    {
        using traits  = fm::allocator_traits<A>;
        using ctraits = fm::composable_allocator_traits<A>;
        A* a = nullptr;
        using ISubject::member;

        void* addr() override
        {
            return a;
        }
        void maxes(std::size_t& mn, std::size_t& ma, std::size_t& mal) override
        {
            mn  = traits::max_node_size(*a);
            ma  = traits::max_array_size(*a);
            mal = traits::max_alignment(*a);
        }
        void* an(std::size_t sz, std::size_t al) override
        {
            return traits::allocate_node(*a, sz, al);
        }
        void* aa(std::size_t n, std::size_t sz, std::size_t al) override
        {
            return traits::allocate_array(*a, n, sz, al);
        }
        void dn(void* p, std::size_t sz, std::size_t al) override
        {
            traits::deallocate_node(*a, p, sz, al);
        }
        void da(void* p, std::size_t n, std::size_t sz, std::size_t al) override
        {
            traits::deallocate_array(*a, p, n, sz, al);
        }
        static constexpr bool composable = fm::is_composable_allocator<A>::value;
        void* tn(std::size_t sz, std::size_t al) override
        {
            if constexpr (composable)
                return ctraits::try_allocate_node(*a, sz, al);
            else
                return nullptr;
        }
        void* ta(std::size_t n, std::size_t sz, std::size_t al) override
        {
            if constexpr (composable)
                return ctraits::try_allocate_array(*a, n, sz, al);
            else
                return nullptr;
        }
        bool tdn(void* p, std::size_t sz, std::size_t al) override
        {
            if constexpr (composable)
                return ctraits::try_deallocate_node(*a, p, sz, al);
            else
                return false;
        }
        bool tda(void* p, std::size_t n, std::size_t sz, std::size_t al) override
        {
            if constexpr (composable)
                return ctraits::try_deallocate_array(*a, p, n, sz, al);
            else
                return false;
        }
        ISubject* move_to(void* where) override
        {
            auto d    = new Derived(static_cast<Derived&>(*this)); // copies bookkeeping (markers…)
            d->a      = ::new (where) A(std::move(*a));
            return d;
        }
        void assign_from(ISubject& other) override
        {
            auto& od = static_cast<Derived&>(other);
            *a       = std::move(*od.a);
            static_cast<Derived&>(*this).adopt_bookkeeping(od);
        }
        void adopt_bookkeeping(Derived&) {}
        void destroy() override
        {
            a->~A();
        }
    };

    // ---- memory_pool ---------------------------------------------------------------------------
    template <class PoolType, class Src>
    struct PoolSubj : SubjBase<fm::memory_pool<PoolType, typename Src::type>, PoolSubj<PoolType, Src>>
    {
        using A    = fm::memory_pool<PoolType, typename Src::type>;
        using Base = SubjBase<A, PoolSubj<PoolType, Src>>;
        using Base::a;
        using Base::member;
        PoolSubj(void* where, int src, std::size_t ns, std::size_t bs)
        {
            a = construct<A>(where, src, Src{}, ns, bs);
        }
        const char* family() const override
        {
            return "pool";
        }
        std::size_t node_size() override
        {
            return a->node_size();
        }
        std::size_t link_bytes() override
        {
            return std::is_same<PoolType, fm::small_node_pool>::value ? 1 : sizeof(void*);
        }
        std::size_t header() override
        {
            return fm::detail::memory_block_stack::implementation_offset();
        }
        Scal scal(std::size_t) override
        {
            Scal s;
            s.cap  = static_cast<long long>(a->capacity_left());
            s.ncap = static_cast<long long>(a->next_capacity());
            s.fn   = static_cast<long long>(a->capacity_left() / a->node_size());
            return s;
        }
        // member interface: sizes are implied by the pool
        void* an(std::size_t sz, std::size_t al) override
        {
            return member ? a->allocate_node() : Base::an(sz, al);
        }
        void* aa(std::size_t n, std::size_t sz, std::size_t al) override
        {
            return member ? a->allocate_array(n) : Base::aa(n, sz, al);
        }
        void dn(void* p, std::size_t sz, std::size_t al) override
        {
            member ? a->deallocate_node(p) : Base::dn(p, sz, al);
        }
        void da(void* p, std::size_t n, std::size_t sz, std::size_t al) override
        {
            member ? a->deallocate_array(p, n) : Base::da(p, n, sz, al);
        }
        void* tn(std::size_t sz, std::size_t al) override
        {
            return member ? a->try_allocate_node() : Base::tn(sz, al);
        }
        void* ta(std::size_t n, std::size_t sz, std::size_t al) override
        {
            return member ? a->try_allocate_array(n) : Base::ta(n, sz, al);
        }
        bool tdn(void* p, std::size_t sz, std::size_t al) override
        {
            return member ? a->try_deallocate_node(p) : Base::tdn(p, sz, al);
        }
        bool tda(void* p, std::size_t n, std::size_t sz, std::size_t al) override
        {
            return member ? a->try_deallocate_array(p, n) : Base::tda(p, n, sz, al);
        }
    };

    // ---- memory_pool_collection ----------------------------------------------------------------
    template <class PoolType, class Buckets, class Src>
    struct CollSubj : SubjBase<fm::memory_pool_collection<PoolType, Buckets, typename Src::type>,
                               CollSubj<PoolType, Buckets, Src>>
    {
        using A    = fm::memory_pool_collection<PoolType, Buckets, typename Src::type>;
        using Base = SubjBase<A, CollSubj<PoolType, Buckets, Src>>;
        using Base::a;
        using Base::member;
        std::size_t pools_ = 0;
        CollSubj(void* where, int src, std::size_t maxns, std::size_t bs)
        {
            a = construct<A>(where, src, Src{}, maxns, bs);
            // as detail::free_list_array computes it, with the library's own policy functions
            using policy = typename Buckets::type;
            pools_ = policy::index_from_size(maxns) - policy::index_from_size(PoolType::type::min_element_size) + 1;
        }
        std::size_t pools() override
        {
            return pools_;
        }
        bool reserve(std::size_t sz, std::size_t capacity) override
        {
            a->reserve(sz, capacity);
            return true;
        }
        const char* family() const override
        {
            return "coll";
        }
        std::size_t node_size() override
        {
            return 0;
        }
        std::size_t link_bytes() override
        {
            return std::is_same<PoolType, fm::small_node_pool>::value ? 1 : sizeof(void*);
        }
        std::size_t header() override
        {
            return fm::detail::memory_block_stack::implementation_offset();
        }
        Scal scal(std::size_t sz) override
        {
            Scal s;
            s.cap  = static_cast<long long>(a->capacity_left());
            s.ncap = static_cast<long long>(a->next_capacity());
            if (sz >= 1 && sz <= a->max_node_size())
                s.fn = static_cast<long long>(a->pool_capacity_left(sz));
            return s;
        }
        void* an(std::size_t sz, std::size_t al) override
        {
            return member ? a->allocate_node(sz) : Base::an(sz, al);
        }
        void* aa(std::size_t n, std::size_t sz, std::size_t al) override
        {
            return member ? a->allocate_array(n, sz) : Base::aa(n, sz, al);
        }
        void dn(void* p, std::size_t sz, std::size_t al) override
        {
            member ? a->deallocate_node(p, sz) : Base::dn(p, sz, al);
        }
        void da(void* p, std::size_t n, std::size_t sz, std::size_t al) override
        {
            member ? a->deallocate_array(p, n, sz) : Base::da(p, n, sz, al);
        }
        void* tn(std::size_t sz, std::size_t al) override
        {
            return member ? a->try_allocate_node(sz) : Base::tn(sz, al);
        }
        void* ta(std::size_t n, std::size_t sz, std::size_t al) override
        {
            return member ? a->try_allocate_array(n, sz) : Base::ta(n, sz, al);
        }
        bool tdn(void* p, std::size_t sz, std::size_t al) override
        {
            return member ? a->try_deallocate_node(p, sz) : Base::tdn(p, sz, al);
        }
        bool tda(void* p, std::size_t n, std::size_t sz, std::size_t al) override
        {
            return member ? a->try_deallocate_array(p, n, sz) : Base::tda(p, n, sz, al);
        }
    };

    // ---- memory_stack ----------------------------------------------------------------------------
    template <class Src>
    struct StackSubj : SubjBase<fm::memory_stack<typename Src::type>, StackSubj<Src>>
    {
        using A    = fm::memory_stack<typename Src::type>;
        using Base = SubjBase<A, StackSubj<Src>>;
        using Base::a;
        using Base::member;
        std::vector<typename A::marker> markers;
        StackSubj(void* where, int src, std::size_t bs)
        {
            a = construct<A>(where, src, Src{}, bs);
        }
        const char* family() const override
        {
            return "stack";
        }
        std::size_t node_size() override
        {
            return 0;
        }
        std::size_t link_bytes() override
        {
            return 0;
        }
        std::size_t header() override
        {
            return fm::detail::memory_block_stack::implementation_offset();
        }
        Scal scal(std::size_t) override
        {
            Scal s;
            s.cap  = static_cast<long long>(a->capacity_left());
            s.ncap = static_cast<long long>(a->next_capacity());
            return s;
        }
        void* an(std::size_t sz, std::size_t al) override
        {
            return member ? a->allocate(sz, al) : Base::an(sz, al);
        }
        void* aa(std::size_t n, std::size_t sz, std::size_t al) override
        {
            return member ? a->allocate(n * sz, al) : Base::aa(n, sz, al);
        }
        void dn(void* p, std::size_t sz, std::size_t al) override
        {
            if (!member)
                Base::dn(p, sz, al);
        }
        void da(void* p, std::size_t n, std::size_t sz, std::size_t al) override
        {
            if (!member)
                Base::da(p, n, sz, al);
        }
        void* tn(std::size_t sz, std::size_t al) override
        {
            return member ? a->try_allocate(sz, al) : Base::tn(sz, al);
        }
        void* ta(std::size_t n, std::size_t sz, std::size_t al) override
        {
            return member ? a->try_allocate(n * sz, al) : Base::ta(n, sz, al);
        }
        bool has_markers() override
        {
            return true;
        }
        int mark() override
        {
            markers.push_back(a->top());
            return static_cast<int>(markers.size()) - 1;
        }
        std::vector<typename A::marker> noted;
        void note_top() override
        {
            noted.assign(1, a->top());
        }
        bool top_changed() override
        {
            return !noted.empty() && !(noted[0] == a->top());
        }
        void unwind(int j) override
        {
            a->unwind(markers[static_cast<std::size_t>(j)]);
        }
        int cmp(int i, int j) override
        {
            auto& x = markers[static_cast<std::size_t>(i)];
            auto& y = markers[static_cast<std::size_t>(j)];
            return (x < y ? 1 : 0) | (x <= y ? 2 : 0) | (x == y ? 4 : 0) | (x != y ? 8 : 0)
                   | (x > y ? 16 : 0) | (x >= y ? 32 : 0);
        }
        using unwinder = fm::memory_stack_raii_unwind<A>;
        unwinder* kept = nullptr; // (plain pointer: the subject object is copied when the stack moves)
        void unwind_raii(int j, int mode) override
        {
            auto m = markers[static_cast<std::size_t>(j)];
            if (mode == 1)
            {
                unwinder u(*a, m);
                unwinder v(std::move(u));
            }
            else if (mode == 2)
            {
                unwinder outer(*a); // at the current top: would unwind nothing
                outer.release();
                {
                    unwinder inner(*a, m);
                    outer = std::move(inner);
                } // the moved-from inner must not unwind here ...
            }     // ... outer does, here
            else
            {
                unwinder u(*a, m);
            }
        }
        bool keep_raii(int j) override
        {
            if (kept)
                return false;
            kept = new unwinder(*a);
            kept->release();
            {
                unwinder inner(*a, markers[static_cast<std::size_t>(j)]);
                *kept = std::move(inner);
            }
            return true;
        }
        void drop_raii() override
        {
            delete kept;
            kept = nullptr;
        }
        void drop_raii_released() override
        {
            if (kept)
                kept->release();
            delete kept;
            kept = nullptr;
        }
        void shrink() override
        {
            a->shrink_to_fit();
        }
        void adopt_bookkeeping(StackSubj& other)
        {
            markers = other.markers;
        }
    };

    // ---- iteration_allocator ------------------------------------------------------------------------
    template <std::size_t N, class Src>
    struct IterSubj : SubjBase<fm::iteration_allocator<N, typename Src::type>, IterSubj<N, Src>>
    {
        using A    = fm::iteration_allocator<N, typename Src::type>;
        using Base = SubjBase<A, IterSubj<N, Src>>;
        using Base::a;
        using Base::member;
        IterSubj(void* where, int src, std::size_t bs)
        {
            a = construct<A>(where, src, Src{}, bs);
        }
        const char* family() const override
        {
            return "iter";
        }
        std::size_t node_size() override
        {
            return 0;
        }
        std::size_t link_bytes() override
        {
            return 0;
        }
        std::size_t header() override
        {
            return 0;
        }
        Scal scal(std::size_t) override
        {
            Scal s;
            s.cap = static_cast<long long>(a->capacity_left());
            return s;
        }
        void* an(std::size_t sz, std::size_t al) override
        {
            return member ? a->allocate(sz, al) : Base::an(sz, al);
        }
        void* aa(std::size_t n, std::size_t sz, std::size_t al) override
        {
            return member ? a->allocate(n * sz, al) : Base::aa(n, sz, al);
        }
        void dn(void* p, std::size_t sz, std::size_t al) override
        {
            if (!member)
                Base::dn(p, sz, al);
        }
        void da(void* p, std::size_t n, std::size_t sz, std::size_t al) override
        {
            if (!member)
                Base::da(p, n, sz, al);
        }
        void* tn(std::size_t sz, std::size_t al) override
        {
            return member ? a->try_allocate(sz, al) : Base::tn(sz, al);
        }
        void* ta(std::size_t n, std::size_t sz, std::size_t al) override
        {
            return member ? a->try_allocate(n * sz, al) : Base::ta(n, sz, al);
        }
        bool has_iterations() override
        {
            return true;
        }
        void next_iter() override
        {
            a->next_iteration();
        }
        std::size_t cur_iter() override
        {
            return a->cur_iteration();
        }
        std::size_t iters() override
        {
            return N;
        }
        long long iter_cap(std::size_t i) override
        {
            return static_cast<long long>(a->capacity_left(i));
        }
    };

    // ---- memory_arena driven directly ------------------------------------------------------------------
    template <class Src, bool Cached>
    struct ArenaSubj : ISubject
    {
        using block_alloc = fm::make_block_allocator_t<typename Src::type>;
        using A           = fm::memory_arena<block_alloc, Cached>;
        A* a              = nullptr;
        ArenaSubj(void* where, int src, std::size_t bs)
        {
            a = construct<A>(where, src, Src{}, bs);
        }
        const char* family() const override
        {
            return "arena";
        }
        void* addr() override
        {
            return a;
        }
        std::size_t node_size() override
        {
            return 0;
        }
        std::size_t link_bytes() override
        {
            return 0;
        }
        std::size_t header() override
        {
            return fm::detail::memory_block_stack::implementation_offset();
        }
        void* an(std::size_t, std::size_t) override
        {
            return nullptr;
        }
        void* aa(std::size_t, std::size_t, std::size_t) override
        {
            return nullptr;
        }
        void dn(void*, std::size_t, std::size_t) override {}
        void da(void*, std::size_t, std::size_t, std::size_t) override {}
        void* tn(std::size_t, std::size_t) override
        {
            return nullptr;
        }
        void* ta(std::size_t, std::size_t, std::size_t) override
        {
            return nullptr;
        }
        bool tdn(void*, std::size_t, std::size_t) override
        {
            return false;
        }
        bool tda(void*, std::size_t, std::size_t, std::size_t) override
        {
            return false;
        }
        Scal scal(std::size_t) override
        {
            Scal s;
            s.ncap = static_cast<long long>(a->next_block_size());
            s.asz  = static_cast<long long>(a->size());
            return s;
        }
        void maxes(std::size_t& mn, std::size_t& ma, std::size_t& mal) override
        {
            mn = ma = mal = 0;
        }
        bool is_arena() override
        {
            return true;
        }
        void arena_alloc(void*& mem, std::size_t& size) override
        {
            auto b = a->allocate_block();
            mem    = b.memory;
            size   = b.size;
        }
        void arena_dealloc() override
        {
            a->deallocate_block();
        }
        void arena_counts(long long& used, long long& cached, long long& cap, long long& next) override
        {
            used   = static_cast<long long>(a->size());
            cached = static_cast<long long>(a->cache_size());
            cap    = static_cast<long long>(a->capacity());
            next   = static_cast<long long>(a->next_block_size());
        }
        bool arena_owns(const void* p) override
        {
            return a->owns(p);
        }
        void shrink() override
        {
            a->shrink_to_fit();
        }
        void arena_swap(ISubject& other) override
        {
            using std::swap;
            swap(*a, *static_cast<ArenaSubj&>(other).a);
        }
        ISubject* move_to(void* where) override
        {
            auto d = new ArenaSubj(*this);
            d->a   = ::new (where) A(std::move(*a));
            return d;
        }
        void assign_from(ISubject& other) override
        {
            *a = std::move(*static_cast<ArenaSubj&>(other).a);
        }
        void destroy() override
        {
            a->~A();
        }
    };

    // ---- static_allocator (RawAllocator over caller storage; copyable, not movable state) ---------
    struct StaticSubj : SubjBase<fm::static_allocator, StaticSubj>
    {
        using A = fm::static_allocator;
        StaticSubj(void* where, int src)
        {
            std::size_t gap;
            char*       mem = world().take(static_storage_size, 16, gap);
            register_static(mem, static_storage_size, src);
            auto storage = ::new (mem) static_storage;
            a            = ::new (where) A(*storage);
        }
        const char* family() const override
        {
            return "static";
        }
        std::size_t node_size() override
        {
            return 0;
        }
        std::size_t link_bytes() override
        {
            return 0;
        }
        std::size_t header() override
        {
            return 0;
        }
        Scal scal(std::size_t) override
        {
            Scal s;
            s.cap = static_cast<long long>(a->max_node_size());
            return s;
        }
    };

    // factory (defined in subjects_*.cpp, split to keep translation units small)
    ISubject* make_pool(const Exec& x, void* where, int src);
    ISubject* make_coll(const Exec& x, void* where, int src);
    ISubject* make_stack(const Exec& x, void* where, int src);
    ISubject* make_iter(const Exec& x, void* where, int src);
    ISubject* make_arena(const Exec& x, void* where, int src);
    inline ISubject* make_subject(const Exec& x, void* where, int src)
    {
        std::string fam = x.str("fam");
        ISubject*   s   = nullptr;
        if (fam == "pool")
            s = make_pool(x, where, src);
        else if (fam == "coll")
            s = make_coll(x, where, src);
        else if (fam == "stack")
            s = make_stack(x, where, src);
        else if (fam == "iter")
            s = make_iter(x, where, src);
        else if (fam == "arena")
            s = make_arena(x, where, src);
        else if (fam == "static")
            s = new StaticSubj(where, src);
        if (s)
        {
            s->src = src;
            s->name = fam + "." + x.str("type", "-") + "." + x.str("src", "-");
        }
        return s;
    }
} // namespace verif
#endif
