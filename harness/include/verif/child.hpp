// verif: run one execution in a forked child with a watchdog; the parent appends the terminal event.
#ifndef VERIF_CHILD_HPP
#define VERIF_CHILD_HPP
#include <csignal>
#include <cstdlib>
#include <exception>
#include <functional>
#include <sys/types.h>
#include <sys/wait.h>
#include <unistd.h>

#include "trace.hpp"

namespace verif
{
    inline void terminate_handler()
    {
        Ev("terminate").emit();
        _exit(97);
    }

    // returns true if the child ended normally (exit code 0)
    // (after three executions of one run have hit the watchdog - each of them is reported - the remaining ones get
    // a short leash: a tree on which the library hangs should not cost 20 s per execution)
    inline bool run_child(const std::function<void()>& body, unsigned watchdog_s = 20)
    {
        static unsigned timeouts = 0;
        if (timeouts >= 3 && watchdog_s > 5)
            watchdog_s = 5;
        pid_t pid = fork();
        if (pid < 0)
            std::abort();
        if (pid == 0)
        {
            std::set_terminate(terminate_handler);
            event_count() = 0;
            alarm(watchdog_s);
            body();
            _exit(0);
        }
        int status = 0;
        while (waitpid(pid, &status, 0) < 0) {}
        if (WIFEXITED(status) && WEXITSTATUS(status) == 0)
            return true;
        if (WIFSIGNALED(status))
        {
            int sig = WTERMSIG(status);
            if (sig == SIGALRM)
                ++timeouts;
            Ev("died").s("how", sig == SIGALRM ? "timeout" : "signal").i("code", sig);
        }
        else
            Ev("died").s("how", WEXITSTATUS(status) == 96 ? "flood" : "exit").i("code", WEXITSTATUS(status));
        return false;
    }
} // namespace verif
#endif
