// verif: the operating system's virtual memory calls as an observed (and faultable) upstream.
// Include in exactly ONE translation unit of a driver: strong definitions of mmap / munmap / mprotect that
// take precedence over the C library's for every caller linked into the executable (the library under test is
// a static library).  Only what the library does with ranges it RESERVED (anonymous PROT_NONE mappings) is
// logged, page-granular and relative to the reservation:
//    vm k=reserve r pg | k=commit r off pg ok | k=decommit r off pg | k=release r off pg
// Everything else passes through silently.
#ifndef VERIF_VMHOOK_HPP
#define VERIF_VMHOOK_HPP
#include <cerrno>
#include <sys/mman.h>
#include <sys/syscall.h>
#include <unistd.h>

#include "world.hpp"

namespace verif
{
    // address inside any reservation, live or released (r = index, -1 none)
    inline long vm_any(const void* p, bool& live)
    {
        auto  c = static_cast<const char*>(p);
        auto& v = vm_reservations();
        for (std::size_t i = v.size(); i-- > 0;)
            if (c >= v[i].base && c < v[i].base + v[i].pages * vm_page())
            {
                live = v[i].live;
                return static_cast<long>(i);
            }
        return -1;
    }
} // namespace verif

extern "C" void* mmap(void* addr, size_t len, int prot, int flags, int fd, off_t off) noexcept
{
    void* r = reinterpret_cast<void*>(::syscall(SYS_mmap, addr, len, prot, flags, fd, off));
    if (verif::vm_hooked() && addr == nullptr && prot == PROT_NONE && (flags & MAP_ANONYMOUS) && r != MAP_FAILED)
    {
        auto& v = verif::vm_reservations();
        v.push_back(verif::VmRes{static_cast<char*>(r), len / verif::vm_page(), true});
        verif::Ev("vm").s("k", "reserve").i("r", static_cast<long>(v.size()) - 1).i("off", 0).u("pg", len / verif::vm_page()).b("ok", true);
    }
    return r;
}

extern "C" int munmap(void* addr, size_t len) noexcept
{
    if (verif::vm_hooked())
    {
        bool live = false;
        long r    = verif::vm_any(addr, live);
        if (r >= 0)
        {
            auto& res = verif::vm_reservations()[static_cast<std::size_t>(r)];
            auto  off = static_cast<std::size_t>(static_cast<char*>(addr) - res.base) / verif::vm_page();
            verif::Ev("vm").s("k", "release").i("r", r).u("off", off).u("pg", len / verif::vm_page()).b("ok", live);
            if (off == 0 && len / verif::vm_page() >= res.pages)
                res.live = false;
        }
    }
    return static_cast<int>(::syscall(SYS_munmap, addr, len));
}

extern "C" int mprotect(void* addr, size_t len, int prot) noexcept
{
    if (verif::vm_hooked())
    {
        bool live = false;
        long r    = verif::vm_any(addr, live);
        if (r >= 0)
        {
            auto& res    = verif::vm_reservations()[static_cast<std::size_t>(r)];
            auto  off    = static_cast<std::size_t>(static_cast<char*>(addr) - res.base) / verif::vm_page();
            bool  commit = prot != PROT_NONE;
            if (commit && verif::vm_fail_commit_in() > 0 && --verif::vm_fail_commit_in() == 0)
            {
                verif::Ev("vm").s("k", "commit").i("r", r).u("off", off).u("pg", len / verif::vm_page()).b("ok", false);
                errno = ENOMEM;
                return -1;
            }
            int rc = static_cast<int>(::syscall(SYS_mprotect, addr, len, prot));
            verif::Ev("vm").s("k", commit ? "commit" : "decommit").i("r", r).u("off", off).u("pg", len / verif::vm_page()).b("ok", rc == 0 && live);
            return rc;
        }
    }
    return static_cast<int>(::syscall(SYS_mprotect, addr, len, prot));
}
#endif
