// verif: observation helpers shared by the drivers: library handlers that log, exception
// classification, content patterns, configuration event.
#ifndef VERIF_OBSERVE_HPP
#define VERIF_OBSERVE_HPP
#include <cstddef>
#include <cstdint>
#include <cstring>
#include <exception>
#include <map>
#include <new>
#include <string>

#include <foonathan/memory/config.hpp>
#include <foonathan/memory/debugging.hpp>
#include <foonathan/memory/detail/align.hpp>
#include <foonathan/memory/detail/debug_helpers.hpp>
#include <foonathan/memory/error.hpp>
#include <foonathan/memory/memory_arena.hpp>

#include "trace.hpp"
#include "world.hpp"

namespace verif
{
    namespace fm = foonathan::memory;

    // address of allocator object -> object number (for handler attribution)
    inline std::map<const void*, int>& object_registry()
    {
        static std::map<const void*, int> m;
        return m;
    }
    inline int object_of(const void* p)
    {
        auto& m  = object_registry();
        auto  it = m.find(p);
        return it == m.end() ? -1 : it->second;
    }

    // what the handlers do besides logging (C16 scenarios exit instead of returning)
    struct HandlerMode
    {
        bool exit_on_invalid_ptr = false;
        bool exit_on_overflow    = false;
    };
    inline HandlerMode& handler_mode()
    {
        static HandlerMode m;
        return m;
    }

    inline void h_oom(const fm::allocator_info& info, std::size_t amount)
    {
        Ev("h").s("k", "oom").s("name", info.name).i("o", object_of(info.allocator)).uc("amt", amount);
    }
    inline void h_badsize(const fm::allocator_info& info, std::size_t passed, std::size_t supported)
    {
        Ev("h")
            .s("k", "badsize")
            .s("name", info.name)
            .i("o", object_of(info.allocator))
            .uc("passed", passed)
            .uc("supported", supported);
    }
    inline void h_leak(const fm::allocator_info& info, std::ptrdiff_t amount)
    {
        Ev("h").s("k", "leak").s("name", info.name).i("o", object_of(info.allocator)).i("amt", amount);
    }
    inline void h_invptr(const fm::allocator_info& info, const void* ptr)
    {
        long blk, off;
        world().project(ptr, blk, off);
        Ev("h")
            .s("k", "invptr")
            .s("name", info.name)
            .i("o", object_of(info.allocator))
            .i("b", blk)
            .i("off", off);
        if (handler_mode().exit_on_invalid_ptr)
            _exit(42);
    }
    inline void h_overflow(const void* memory, std::size_t size, const void* write_ptr)
    {
        Ev("h")
            .s("k", "overflow")
            .uc("sz", size)
            .i("woff", static_cast<const char*>(write_ptr) - static_cast<const char*>(memory));
        if (handler_mode().exit_on_overflow)
            _exit(43);
    }

    inline void install_handlers()
    {
        fm::out_of_memory::set_handler(h_oom);
        fm::bad_allocation_size::set_handler(h_badsize);
        fm::set_leak_handler(h_leak);
        fm::set_invalid_pointer_handler(h_invptr);
        fm::set_buffer_overflow_handler(h_overflow);
    }

    // run f, classify how it ended
    template <class F>
    std::string classify(F&& f)
    {
        try
        {
            f();
            return "ok";
        }
        catch (injected_oom&)
        {
            return "throw:injected";
        }
        catch (fm::out_of_fixed_memory&)
        {
            return "throw:out_of_fixed_memory";
        }
        catch (fm::out_of_memory&)
        {
            return "throw:out_of_memory";
        }
        catch (fm::bad_node_size&)
        {
            return "throw:bad_node_size";
        }
        catch (fm::bad_array_size&)
        {
            return "throw:bad_array_size";
        }
        catch (fm::bad_alignment&)
        {
            return "throw:bad_alignment";
        }
        catch (fm::bad_allocation_size&)
        {
            return "throw:bad_allocation_size";
        }
        catch (std::bad_alloc&)
        {
            return "throw:bad_alloc";
        }
        catch (std::exception&)
        {
            return "throw:std_exception";
        }
        catch (...)
        {
            return "throw:unknown";
        }
    }

    // ---- content pattern -------------------------------------------------------------------
    inline unsigned char pat_byte(int id, std::size_t i)
    {
        return static_cast<unsigned char>((id * 73 + 11 + static_cast<int>(i % 251) * 7) & 0xff);
    }
    inline void pat_fill(void* p, std::size_t n, int id)
    {
        auto c = static_cast<unsigned char*>(p);
        for (std::size_t i = 0; i < n; ++i)
            c[i] = pat_byte(id, i);
    }
    // number of bytes that differ; first differing offset in *first (or -1)
    inline std::size_t pat_check(const void* p, std::size_t n, int id, long* first)
    {
        auto        c   = static_cast<const unsigned char*>(p);
        std::size_t bad = 0;
        *first          = -1;
        for (std::size_t i = 0; i < n; ++i)
            if (c[i] != pat_byte(id, i))
            {
                if (!bad)
                    *first = static_cast<long>(i);
                ++bad;
            }
        return bad;
    }
    inline std::size_t count_not(const void* p, std::size_t n, unsigned char v)
    {
        auto        c   = static_cast<const unsigned char*>(p);
        std::size_t bad = 0;
        for (std::size_t i = 0; i < n; ++i)
            if (c[i] != v)
                ++bad;
        return bad;
    }

    inline void emit_cfg(const char* driver)
    {
        Ev("cfg")
            .s("driver", driver)
            .i("assert", FOONATHAN_MEMORY_DEBUG_ASSERT)
            .i("fill", FOONATHAN_MEMORY_DEBUG_FILL)
            .i("fence", FOONATHAN_MEMORY_DEBUG_FENCE)
            .i("leak", FOONATHAN_MEMORY_DEBUG_LEAK_CHECK)
            .i("ptr", FOONATHAN_MEMORY_DEBUG_POINTER_CHECK)
            .i("dbl", FOONATHAN_MEMORY_DEBUG_DOUBLE_DEALLOC_CHECK)
            .i("chk", FOONATHAN_MEMORY_CHECK_ALLOCATION_SIZE)
            .i("tsm", FOONATHAN_MEMORY_TEMPORARY_STACK_MODE)
            .u("maxal", fm::detail::max_alignment)
            .u("hdr", fm::detail::memory_block_stack::implementation_offset());
    }
} // namespace verif
#endif
