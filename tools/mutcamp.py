#!/usr/bin/env python3
"""Mutation campaign: textual mutants of foonathan/memory that still compile and pass the repository's
own test-suite, run against the checks of the properties anchored in the mutated file.

  tools/mutcamp.py --seed 1 --per-file 8 --lanes 4 --out /verif/work/mutcamp [--files a,b,...]

Every mutant lives in its own scratch copy under /tmp/fm-mc-<lane> (removed afterwards, together with the
alternate build tree of the harness).  Result lines go to <out>/results.jsonl:
  {"id", "file", "line", "op", "before", "after", "status": "nocompile|tests_fail|killed|survived", "by": check, ...}
Survivors are either equivalent mutants or blind spots of the checks: they are read by hand.
"""
import argparse, hashlib, json, os, random, re, shutil, subprocess, sys, time
from concurrent.futures import ThreadPoolExecutor

REPO = "/repo"
VERIF = "/verif"
FILES = {
    "src/detail/free_list.cpp": ["C04", "C01", "C12"],
    "src/detail/small_free_list.cpp": ["C04", "C01", "C16", "C12"],
    "include/foonathan/memory/memory_arena.hpp": ["C05", "C12", "C03", "C18"],
    "src/memory_arena.cpp": ["C05", "C12"],
    "include/foonathan/memory/memory_stack.hpp": ["C06", "C02", "C15"],
    "include/foonathan/memory/detail/memory_stack.hpp": ["C02", "C06", "C07"],
    "include/foonathan/memory/memory_pool.hpp": ["C04", "C08", "C18", "C15"],
    "include/foonathan/memory/memory_pool_collection.hpp": ["C04", "C01", "C18", "C03", "C15", "C08"],
    "include/foonathan/memory/iteration_allocator.hpp": ["C07", "C12", "C08", "C03"],
    "src/temporary_allocator.cpp": ["C14"],
    "include/foonathan/memory/temporary_allocator.hpp": ["C14"],
    "include/foonathan/memory/joint_allocator.hpp": ["C11", "C20"],
    "include/foonathan/memory/allocator_storage.hpp": ["C09", "C13"],
    "include/foonathan/memory/std_allocator.hpp": ["C10", "C09"],
    "include/foonathan/memory/deleter.hpp": ["C09", "C20"],
    "include/foonathan/memory/smart_ptr.hpp": ["C20", "C09"],
    "src/debug_helpers.cpp": ["C17", "C16"],
    "include/foonathan/memory/detail/debug_helpers.hpp": ["C17", "C15", "C16"],
    "src/detail/debug_helpers.cpp": ["C17", "C16"],
    "src/detail/align.cpp": ["C19", "C02"],
    "include/foonathan/memory/detail/align.hpp": ["C19", "C02"],
    "include/foonathan/memory/detail/ilog2.hpp": ["C19"],
    "src/detail/free_list_array.cpp": ["C19", "C01"],
    "include/foonathan/memory/detail/free_list_array.hpp": ["C19", "C01"],
    "include/foonathan/memory/fallback_allocator.hpp": ["C08", "C09"],
    "include/foonathan/memory/segregator.hpp": ["C09"],
    "include/foonathan/memory/aligned_allocator.hpp": ["C09"],
    "include/foonathan/memory/tracking.hpp": ["C09"],
    "include/foonathan/memory/static_allocator.hpp": ["C03", "C01", "C12", "C05"],
    "src/static_allocator.cpp": ["C03", "C01"],
    "include/foonathan/memory/memory_resource_adapter.hpp": ["C09"],
    "include/foonathan/memory/detail/lowlevel_allocator.hpp": ["C17", "C15", "C01"],
    "include/foonathan/memory/virtual_memory.hpp": ["C05", "C16", "C12"],
    "src/virtual_memory.cpp": ["C05", "C01"],
    "include/foonathan/memory/detail/free_list.hpp": ["C04", "C18"],
    "include/foonathan/memory/detail/small_free_list.hpp": ["C04", "C18"],
    "include/foonathan/memory/allocator_traits.hpp": ["C09", "C08"],
    "include/foonathan/memory/threading.hpp": ["C13"],
    "src/iteration_allocator.cpp": ["C07"],
    "include/foonathan/memory/detail/memory_stack.hpp ": [],
}
OPS = [
    (" < ", " <= "), (" <= ", " < "), (" > ", " >= "), (" >= ", " > "), (" == ", " != "), (" != ", " == "),
    (" + ", " - "), (" - ", " + "), (" && ", " || "), (" || ", " && "), (" + 1", ""), (" - 1", ""), ("!", ""),
    ("++", "--"), (" * ", " + "), (" / ", " * "), (" % ", " / "), ("true", "false"), ("false", "true"),
    (" 0u", " 1u"), (" 1u", " 0u"), ("nullptr", "this"),
]
SKIP = re.compile(r"^\s*(//|///|\*|#|template|typename|using |static_assert|FOONATHAN_MEMORY_ASSERT|FOONATHAN_MEMORY_LOG|namespace|extern )")


def candidates(path):
    out = []
    lines = open(os.path.join(REPO, path)).read().split("\n")
    for i, ln in enumerate(lines):
        if SKIP.match(ln) or not ln.strip() or ln.strip().startswith('"') or "operator" in ln or "noexcept(" in ln or "<<" in ln and "std::" in ln:
            continue
        code = ln.split("//")[0]
        for a, b in OPS:
            start = 0
            while True:
                k = code.find(a, start)
                if k < 0:
                    break
                start = k + len(a)
                if a == "!" and (code[k:k + 2] == "!=" or (k and code[k - 1] in "=<>")):
                    continue
                if a in ("true", "false") and ("_type" in code or "integral_constant" in code):
                    continue
                out.append((i, "%s->%s" % (a.strip() or "del", b.strip() or "del"), ln, ln[:k] + b + ln[k + len(a):]))
        # statement deletion: a plain call statement
        s = code.strip()
        if re.match(r"^[A-Za-z_][\w:\.\->]*\(.*\);$", s) and not s.startswith(("return", "throw", "static_assert")):
            out.append((i, "delstmt", ln, ln[:len(ln) - len(ln.lstrip())] + ";"))
    return out


def sh(cmd, **kw):
    return subprocess.run(cmd, shell=True, stdout=subprocess.PIPE, stderr=subprocess.STDOUT, text=True, **kw)


def run_mutant(lane, m, out):
    scratch = "/tmp/fm-mc-%d" % lane
    shutil.rmtree(scratch, ignore_errors=True)
    sh("mkdir -p %s && rsync -a --exclude _build --exclude .git %s/ %s/" % (scratch, REPO, scratch))
    if m.get("patch"):
        r0 = sh("cd %s && patch -p1 -s < %s" % (scratch, m["patch"]))
        if r0.returncode != 0:
            res0 = dict(m)
            res0["status"] = "patch_failed"
            with open(os.path.join(out, "results.jsonl"), "a") as f:
                f.write(json.dumps(res0) + "\n")
            shutil.rmtree(scratch, ignore_errors=True)
            return res0
    else:
        p = os.path.join(scratch, m["file"])
        lines = open(p).read().split("\n")
        assert lines[m["line"]] == m["before"]
        lines[m["line"]] = m["after"]
        open(p, "w").write("\n".join(lines))
    alt = "/tmp/verif-alt-" + hashlib.sha1(scratch.encode()).hexdigest()[:10]
    res = dict(m)
    t0 = time.time()
    try:
        r = sh("cmake -G Ninja -S %s -B %s/_build -DCMAKE_BUILD_TYPE=RelWithDebInfo -DFETCHCONTENT_TRY_FIND_PACKAGE_MODE=ALWAYS >/dev/null 2>&1 && "
               "cmake --build %s/_build -j4 2>&1 | tail -3" % (scratch, scratch, scratch), timeout=900)
        if not os.path.exists("%s/_build/test/foonathan_memory_test" % scratch) or "FAILED" in r.stdout or "error" in r.stdout:
            res["status"] = "nocompile"
            res["tail"] = r.stdout[-300:]
            return res
        r = sh("timeout 300 %s/_build/test/foonathan_memory_test 2>&1 | tail -3" % scratch, timeout=400)
        if "Status: SUCCESS" not in r.stdout:
            res["status"] = "tests_fail"
            return res
        res["status"] = "survived"
        res["checks"] = {}
        for c in m["checks"]:
            r = sh("VERIF_REPO=%s VERIF_OUT=%s timeout 1500 %s/bin/vcheck run %s 2>&1" % (scratch, alt, VERIF, c), timeout=1600)
            guards = sorted(set(re.findall(r"guard false: (\S+)", r.stdout)))
            res["checks"][c] = {"rc": r.returncode, "guards": guards[:6]}
            if r.returncode == 1:
                res["status"] = "killed"
                res["by"] = c
                break
            if r.returncode != 0:
                res["status"] = "infra"
                res["by"] = c
                res["tail"] = r.stdout[-600:]
                break
        return res
    except subprocess.TimeoutExpired:
        res["status"] = "timeout"
        return res
    finally:
        res["secs"] = round(time.time() - t0)
        shutil.rmtree(scratch, ignore_errors=True)
        shutil.rmtree(alt, ignore_errors=True)
        with open(os.path.join(out, "results.jsonl"), "a") as f:
            f.write(json.dumps(res) + "\n")


def main():
    ap = argparse.ArgumentParser()
    ap.add_argument("--seed", type=int, default=1)
    ap.add_argument("--per-file", type=int, default=6)
    ap.add_argument("--lanes", type=int, default=4)
    ap.add_argument("--out", default="/verif/work/mutcamp")
    ap.add_argument("--files", default="")
    ap.add_argument("--checks-file", default="", help="JSON {mutant id: [checks]} overriding the checks of single mutants (patches mode)")
    ap.add_argument("--patches", default="", help="directory with <PROP>/m*.diff (hand-written faulty variants): each is run against the check of <PROP>")
    ap.add_argument("--verif", default="/verif", help="tree whose bin/vcheck is used (a snapshot keeps a long campaign independent of edits)")
    ap.add_argument("--skip-done", default="", help="results.jsonl whose mutant ids are not run again")
    ap.add_argument("--rerun", default="", help="results.jsonl of an earlier campaign: run its survivors / infra again with the current checks")
    a = ap.parse_args()
    global VERIF
    VERIF = a.verif
    os.makedirs(a.out, exist_ok=True)
    rng = random.Random(a.seed)
    todo = []
    files = [f for f in FILES if FILES[f] and os.path.exists(os.path.join(REPO, f))]
    if a.files:
        files = [f for f in files if any(x in f for x in a.files.split(","))]
    if a.patches:
        files = []
        import glob
        for d in sorted(glob.glob(os.path.join(a.patches, "C[0-9][0-9]"))):
            prop = os.path.basename(d)
            for f in sorted(glob.glob(os.path.join(d, "m*.diff"))):
                todo.append({"id": "%s/%s" % (prop, os.path.basename(f)[:-5]), "file": "-", "line": 0, "op": "patch", "before": "",
                             "after": "", "patch": f, "checks": [prop]})
        if a.checks_file:
            over = json.load(open(a.checks_file))
            todo = [dict(m, checks=over[m["id"]]) for m in todo if m["id"] in over]
    if a.rerun:
        files = []
        for l in open(a.rerun):
            r = json.loads(l)
            if r["status"] in ("survived", "infra", "timeout"):
                cur = open(os.path.join(REPO, r["file"])).read().split("\n")
                # the line may have moved: find it again
                idx = [i for i, x in enumerate(cur) if x == r["before"]]
                if not idx:
                    continue
                line = min(idx, key=lambda i: abs(i - r["line"]))
                todo.append({"id": r["id"], "file": r["file"], "line": line, "op": r["op"], "before": r["before"],
                             "after": r["after"], "checks": FILES.get(r["file"], r["checks"])})
    for f in files:
        c = candidates(f)
        rng.shuffle(c)
        for (i, op, before, after) in c[:a.per_file]:
            todo.append({"id": "%s:%d:%s" % (os.path.basename(f), i + 1, op), "file": f, "line": i, "op": op,
                         "before": before, "after": after, "checks": FILES[f]})
    if a.skip_done and os.path.exists(a.skip_done):
        done = {json.loads(l)["id"] for l in open(a.skip_done) if json.loads(l)["status"] not in ("infra", "timeout")}
        todo = [m for m in todo if m["id"] not in done]
    print("mutants:", len(todo), "files:", len(files), flush=True)
    lanes = list(range(a.lanes))
    import queue
    q = queue.Queue()
    for l in lanes:
        q.put(l)

    def work(m):
        lane = q.get()
        try:
            r = run_mutant(lane, m, a.out)
            print(r["status"], r["id"], r.get("by", ""), r.get("secs"), flush=True)
        finally:
            q.put(lane)
    with ThreadPoolExecutor(a.lanes) as ex:
        list(ex.map(work, todo))


if __name__ == "__main__":
    main()
