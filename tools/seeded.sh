#!/bin/bash
# Confirm and evaluate a seeded change written by an independent sub-agent.
#   tools/seeded.sh <id> <patch.diff> <demo.cpp> <checks...>
# 1. scratch copy of /repo + patch, built as the repository's own test-suite builds (RelWithDebInfo), ctest
# 2. the demonstration compiled against the unchanged build (/repo/_build) and the changed one
# 3. the given checks run with VERIF_REPO=<copy>
# The copy and its build output are removed afterwards.
set -u
id=$1; patch=$2; demo=$3; shift 3
scratch=/tmp/fm-seed-$id
rm -rf "$scratch"; mkdir -p "$scratch"
rsync -a --exclude _build --exclude .git /repo/ "$scratch"/
(cd "$scratch" && patch -p1 -s < "$patch") || { echo "RESULT $id patch_applies=no"; rm -rf "$scratch"; exit 3; }
cmake -G Ninja -S "$scratch" -B "$scratch/_build" -DCMAKE_BUILD_TYPE=RelWithDebInfo -DFETCHCONTENT_TRY_FIND_PACKAGE_MODE=ALWAYS > "$scratch/cfg.log" 2>&1
cmake --build "$scratch/_build" -j16 > "$scratch/build.log" 2>&1 || { echo "RESULT $id compiles=no"; tail -5 "$scratch/build.log"; rm -rf "$scratch"; exit 3; }
tests=$(ctest --test-dir "$scratch/_build" -j8 2>&1 | grep -E "tests passed|tests failed" | head -1)
# the unchanged library, freshly built
cmake --build /repo/_build -j16 > /dev/null 2>&1
g++ -std=c++17 -O1 -pthread -I/repo/include -I/repo/_build/src "$demo" /repo/_build/src/libfoonathan_memory-*.a -o "$scratch/demo_orig" 2> "$scratch/demo_orig.log"
g++ -std=c++17 -O1 -pthread -I"$scratch/include" -I"$scratch/_build/src" "$demo" "$scratch"/_build/src/libfoonathan_memory-*.a -o "$scratch/demo_mut" 2> "$scratch/demo_mut.log"
timeout 60 "$scratch/demo_orig" > /dev/null 2>&1; ro=$?
timeout 60 "$scratch/demo_mut" > /dev/null 2>&1; rm_=$?
echo "RESULT $id tests='$tests' demo_unchanged_rc=$ro demo_changed_rc=$rm_"
alt=/tmp/verif-alt-$(python3 -c "import hashlib,sys;print(hashlib.sha1(sys.argv[1].encode()).hexdigest()[:10])" "$scratch")
for c in "$@"; do
  out=$(VERIF_REPO="$scratch" /verif/bin/vcheck run "$c" 2>&1); rc=$?
  n=$(echo "$out" | grep -c "^VIOLATION")
  first=$(echo "$out" | grep "guard false" | sed 's/^ *guard false: //' | cut -c1-110 | sort | uniq -c | sort -rn | head -3 | tr '\n' ';')
  echo "CHECK $id $c rc=$rc violations=$n :: $first"
  if [ $rc -eq 2 ]; then echo "$out" | tail -4; fi
done
rm -rf "$scratch" "$alt"
