#!/bin/bash
# mutation self-test helper: apply a patch (or a sed-like replacement) to a scratch copy of /repo,
# run the given checks against the copy, report which ones raise an alarm, remove the copy.
#   tools/mutate.sh <name> <patch-file|-> <checks...>         (patch on stdin with '-')
#   MUT_KEEP=1 keeps the scratch copy; MUT_LOG=<prefix> stores each check's full output in <prefix>.<check>
#   tools/mutate.sh <name> --replace <file> <old> <new> -- <checks...>
set -u
name=$1; shift
scratch=/tmp/fm-mut-$name
rm -rf "$scratch"; mkdir -p "$scratch"
rsync -a --exclude _build --exclude .git /repo/ "$scratch"/
if [ "$1" = "--replace" ]; then
  file=$2; old=$3; new=$4; shift 5
  python3 - "$scratch/$file" "$old" "$new" <<'PY' || { echo "MUTATION FAILED TO APPLY"; rm -rf "$scratch"; exit 3; }
import sys
p,old,new=sys.argv[1:4]
s=open(p).read()
assert s.count(old)>=1, "pattern not found: "+old
open(p,'w').write(s.replace(old,new,1))
PY
else
  patch=$1; shift
  if [ "$patch" = "-" ]; then patch=/dev/stdin; fi
  (cd "$scratch" && patch -p1 -s < "$patch") || { echo "PATCH FAILED"; rm -rf "$scratch"; exit 3; }
fi
alt=/tmp/verif-alt-$(python3 -c "import hashlib,sys;print(hashlib.sha1(sys.argv[1].encode()).hexdigest()[:10])" "$scratch")
caught=""
for c in "$@"; do
  out=$(VERIF_REPO="$scratch" /verif/bin/vcheck run "$c" 2>&1); rc=$?
  n=$(echo "$out" | grep -c "^VIOLATION")
  first=$(echo "$out" | grep "guard false" | head -2 | tr '\n' ' ')
  echo "[$name] $c rc=$rc violations=$n $first"
  if [ $rc -eq 2 ]; then echo "$out" | tail -5; fi
  if [ -n "${MUT_LOG:-}" ]; then echo "$out" > "$MUT_LOG.$c"; fi
done
# MUT_KEEP=1 keeps the copy and its build tree for further runs (VERIF_REPO=$scratch bin/vcheck run ...)
if [ -z "${MUT_KEEP:-}" ]; then rm -rf "$scratch" "$alt"; else echo "kept $scratch (alt $alt)"; fi
