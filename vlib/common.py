"""Paths and small helpers shared by the verification orchestrator."""
import os, sys, subprocess, hashlib, json, time

ROOT = os.path.dirname(os.path.dirname(os.path.abspath(__file__)))
REPO = os.environ.get("VERIF_REPO", "/repo")
if os.environ.get("VERIF_OUT"):
    _OUT = os.environ["VERIF_OUT"]      # private build/work/evidence dirs (parallel development)
    os.makedirs(_OUT, exist_ok=True)
elif REPO == "/repo":
    _OUT = ROOT
else:
    # checks run against a scratch copy (mutation self-tests): keep builds, traces and evidence
    # away from the real ones
    _OUT = os.path.join("/tmp", "verif-alt-" + hashlib.sha1(REPO.encode()).hexdigest()[:10])
    os.makedirs(_OUT, exist_ok=True)
BUILD = os.path.join(_OUT, "build")
WORK = os.path.join(_OUT, "work")          # scratch for scripts/traces of the current run (git-ignored)
REPLAYS = os.path.join(_OUT, "replays")
EVIDENCE = os.path.join(_OUT, "evidence")
SPEC = os.path.join(ROOT, "spec")
NCPU = os.cpu_count() or 4


class InfraError(Exception):
    """Something in the machinery (not in the code under test) went wrong: exit code 2."""


def log(*a):
    print(*a, file=sys.stderr, flush=True)


def run(cmd, timeout=None, cwd=None, env=None, check=False):
    e = dict(os.environ)
    if env:
        e.update(env)
    p = subprocess.run(cmd, cwd=cwd, env=e, timeout=timeout, stdout=subprocess.PIPE,
                       stderr=subprocess.STDOUT, text=True, errors="replace")
    if check and p.returncode != 0:
        raise InfraError("command failed (%d): %s\n%s" % (p.returncode, " ".join(cmd), p.stdout[-4000:]))
    return p.returncode, p.stdout


def sha_tree(paths, exts=None):
    h = hashlib.sha256()
    for base in paths:
        if os.path.isfile(base):
            files = [base]
        else:
            files = []
            for d, dn, fn in os.walk(base):
                dn.sort()
                for f in sorted(fn):
                    files.append(os.path.join(d, f))
        for f in files:
            if exts and not f.endswith(exts):
                continue
            h.update(f.encode())
            try:
                with open(f, "rb") as fh:
                    h.update(fh.read())
            except OSError:
                pass
    return h.hexdigest()
