"""Plans for C08 (composable deallocation recognises exactly its own memory; fallback routing) and
C09 (adapters forward faithfully): driver `compose`, contract ForwardTrace; C08 additionally uses the
`seq` driver with foreign-pointer commands (SeqTrace guards TryDeallocFalseForForeign)."""
import random
from .engine import Job
from . import gen, plans

COMPS_ALL = ["leaf", "leaf_n", "leaf_p", "direct", "direct_n", "ref", "ref_p", "anyref", "anyref_n", "anyref_p", "ts", "ts_ref",
             "aligned", "aligned_n", "tracked", "tracked_n", "tracked_p", "seg2", "seg3", "seg_n", "fb", "fb_n", "fb_nest",
             "fb_nest2", "fb_aligned", "fb_tracked", "tracked_fb", "aligned_tracked", "ts_fb", "anyref_seg", "ref_aligned",
             "seg_fb", "mra", "fb_pool", "fb_apool", "fb_coll",
             # adapters that are stateful only through one of their parts (a stateful tracker / default allocator next to
             # a stateless one), directly and behind a reference: a reference that takes them for stateless would talk
             # to a default constructed object instead of the one it was given
             "tracked_sl", "ref_tracked_sl", "fb_sl", "ref_fb_sl", "ref_seg_sl"]
COMPS_FB = ["fb", "fb_n", "fb_nest", "fb_nest2", "fb_aligned", "fb_tracked", "tracked_fb", "ts_fb", "seg_fb", "fb_pool",
            "fb_apool", "fb_coll", "fb_sl", "ref_fb_sl"]
# compositions that exhibit a listed open finding by construction
COMPS_KNOWN = ["mra_shrinking"]

SIZES = [1, 2, 7, 8, 12, 16, 17, 24, 31, 32, 33, 40, 64, 65, 100, 255, 256, 1000, 4096, 70000]
ALIGNS = [1, 1, 2, 4, 8, 8, 16, 32, 64]


SMART_OK = {"leaf", "leaf_n", "direct", "ref", "ts", "aligned", "tracked", "seg2", "fb", "mra", "tracked_sl", "fb_sl"}


# compositions with a differently configured spare object for the command xm (move assignment + move construction)
XFER_OK = {"direct", "anyref", "anyref_n", "aligned", "aligned_n", "tracked", "seg2", "seg3", "fb", "fb_aligned",
           "aligned_tracked", "ref_aligned", "mra", "fb_pool", "fb_coll"}


COMPS_DEEP = ["deep_pool", "deep_apool", "deep_coll", "deep_stack"]


def deep_cmds(rng, name, n):
    """deeply tracked library allocators: small requests that make the arena grow several times"""
    cmds = []
    top = 64 if name == "deep_coll" else 100 if name == "deep_stack" else 16
    for _ in range(n):
        r = rng.random()
        sz = rng.choice([1, 4, 8, 16, 16] if top == 16 else [1, 8, 16, 17, 32, 33, 64] if top == 64 else [1, 8, 24, 50, 100])
        al = rng.choice([a for a in (1, 2, 4, 8, 16) if sz % a == 0]) if name != "deep_stack" else rng.choice([1, 8, 16, 32])
        if r < 0.45:
            cmds.append("an %d %d" % (sz, al))
        elif r < 0.55 and name != "deep_pool":
            cmds.append("aa %d %d %d" % (rng.choice([1, 2, 3]), sz, al))
        elif r < 0.65:
            cmds.append("tn %d %d" % (sz, al))
        elif r < 0.85:
            cmds.append("d %d" % rng.randint(0, 30))
        elif r < 0.93:
            cmds.append("td %d" % rng.randint(0, 30))
        elif name == "deep_stack" and r < 0.97:
            cmds.append("shr")
        elif name in ("deep_pool", "deep_stack"):
            cmds.append("xm")
        else:
            cmds.append("an %d %d" % (sz, al))
    return cmds


def comp_cmds(rng, name, n):
    if name in COMPS_DEEP:
        return deep_cmds(rng, name, n)
    cmds = []
    mixed = name in ("fb_pool", "fb_apool", "fb_coll")
    smart = name in SMART_OK
    if name in COMPS_FB and not mixed:
        cmds.append("fill 1 %d" % rng.choice([0, 16, 40, 64, 100]))
        if rng.random() < 0.7:
            cmds.append("fill 2 %d" % rng.choice([0, 24, 64, 200]))
    for _ in range(n):
        r = rng.random()
        if mixed:
            sz = rng.choice([4, 8, 16, 16, 16, 17, 24, 32, 40])
            al = rng.choice([1, 2, 4, 8, 8, 16])
        else:
            sz = rng.choice(SIZES)
            al = rng.choice(ALIGNS)
        if r < 0.30:
            cmds.append("an %d %d" % (sz, al))
        elif r < 0.42:
            cmds.append("aa %d %d %d" % (rng.choice([1, 1, 2, 3, 5]), min(sz, 256), al))
        elif r < 0.52:
            cmds.append("tn %d %d" % (sz, al))
        elif r < 0.58:
            cmds.append("ta %d %d %d" % (rng.choice([1, 2, 3]), min(sz, 256), al))
        elif r < 0.66 and smart:
            cmds.append("%s %d %d" % (rng.choice(["uq", "uq", "ua", "sh", "ub", "sa", "sa", "sy"]), rng.choice([0, 1, 2, 3, 4, 4]), rng.choice([1, 2, 3, 7])))
        elif r < 0.70 and smart:
            cmds.append("rs %d" % rng.randint(0, 10))
        elif r < 0.73 and name in XFER_OK:
            cmds.append("xm")
        elif r < 0.82:
            cmds.append("d %d" % rng.randint(0, 30))
        elif r < 0.93:
            cmds.append("td %d" % rng.randint(0, 30))
        elif r < 0.95:
            cmds.append("tdf %d %d" % (rng.choice([0, 0, 1]), rng.choice([8, 16, 40])))
        elif name in COMPS_FB and not mixed:
            cmds.append("fill %d %d" % (rng.choice([1, 2]), rng.choice([0, 32, 64, 128, 100000])))
        else:
            cmds.append("an %d %d" % (sz, al))
    return cmds


def compose_jobs(comps, cfgs, per_comp, n, rng, label):
    J = []
    for cfg in cfgs:
        execs = []
        for name in comps:
            for _ in range(per_comp):
                execs.append(({"comp": name}, comp_cmds(rng, name, n)))
        J.append(Job(cfg, "compose", "ForwardTrace", execs, label))
    return J


def known_jobs(cfgs):
    execs = [({"comp": "mra_shrinking"}, ["an 600 8", "an 100 8", "d 0", "an 200 8", "d 1", "d 0"])]
    return [Job(cfg, "compose", "ForwardTrace", execs, "known") for cfg in cfgs]


def foreign_execs(rng, scale):
    """seq-driver executions with a sibling allocator: pointers of the sibling (optionally carved
    directly after/before own blocks) are offered to try_deallocate_* of the subject."""
    out = []
    for _ in range(int(8 * scale)):
        fam = rng.choice(["pool", "pool", "coll", "stack", "iter"])
        if fam == "pool":
            h = gen.pool_header(rng, src=rng.choice(["grow", "fixed"]))
            h["member"] = 0
            base = gen.pool_cmds(rng, h, 30)
        elif fam == "coll":
            h = gen.coll_header(rng)
            h["member"] = 0
            base = gen.coll_cmds(rng, h, 30)
        elif fam == "stack":
            h = gen.stack_header(rng, src=rng.choice(["grow", "fixed"]))
            h["member"] = 0
            base = gen.stack_cmds(rng, h, 25)
        else:
            h = gen.iter_header(rng, src="grow")
            h["member"] = 0
            base = gen.iter_cmds(rng, h, 25)
        h["sib"] = 1
        h["carve"] = rng.choice([0, 1, 1])
        cmds = []
        for c in base:
            cmds.append(c)
            r = rng.random()
            if r < 0.25:
                sz = int(c.split()[1]) if c.split()[0] in ("an", "tn") else 8
                cmds.append("san %d 1" % max(1, sz))
            elif r < 0.45:
                cmds.append("tdx %d" % rng.randint(0, 20))
        out.append((h, cmds))
    # foreign memory that starts exactly one past the end of an own block (carve mode: blocks are
    # consecutive): after every command that may have taken a new block
    for _ in range(int(10 * scale)):
        fam = rng.choice(["pool", "coll", "stack", "stack", "iter", "iter"])
        if fam == "pool":
            h = gen.pool_header(rng, src="grow")
            base = gen.pool_cmds(rng, h, 14, tries=False)
        elif fam == "coll":
            h = gen.coll_header(rng, src="grow")
            base = gen.coll_cmds(rng, h, 14, tries=False)
        elif fam == "stack":
            h = gen.stack_header(rng, src="grow")
            h["bs"] = rng.choice([64, 128, 256, 512])
            base = gen.stack_cmds(rng, h, 14, tries=False)
        else:
            h = gen.iter_header(rng, src="grow")
            h["bs"] = rng.choice([48, 64, 96, 256, 1024])
            base = gen.iter_cmds(rng, h, 10, tries=False)
        h["member"] = 0
        h["carve"] = 1
        cmds = ["sraw 8", "tdx -1"]
        for c in base:
            cmds.append(c)
            if c.split()[0] in ("an", "aa"):
                cmds += ["sraw %d" % rng.choice([1, 8, 16]), "tdx -1"]
        out.append((h, cmds))
    return out


def own_td_execs(rng, scale):
    """composable release of OWN memory at every age: allocations that make the allocator grow several times,
    interleaved with try_deallocate_* of handles chosen at random among all live ones (also from blocks the
    allocator has left behind)"""
    out = []
    for _ in range(int(10 * scale)):
        fam = rng.choice(["stack", "stack", "pool", "coll", "iter"])
        if fam == "stack":
            h = gen.stack_header(rng, src=rng.choice(["grow", "grow", "static"]))
            if h["src"] == "grow":
                h["bs"] = rng.choice([64, 100, 128])
            sizes = [1, 8, 16, 24, 40]
        elif fam == "pool":
            h = gen.pool_header(rng, src="grow")
            sizes = [h["ns"]]
        elif fam == "coll":
            h = gen.coll_header(rng, src="grow")
            sizes = [s for s in (8, 16, 32, 64) if s <= h["ns"]] or [h["ns"]]
        else:
            h = gen.iter_header(rng, src="grow")
            sizes = [1, 4, 8]
        h["member"] = 0
        cmds = []
        for i in range(rng.randint(20, 50)):
            sz = rng.choice(sizes)
            cmds.append("%s %d %d" % (rng.choice(["an", "an", "tn"]), sz, gen.alignment_for(sz, 8)))
            if rng.random() < 0.35:
                cmds.append("td %d" % rng.randint(0, 60))
        out.append((h, cmds))
    # memory that is still alive in an EARLIER iteration is the iteration allocator's own as well
    for N in (2, 3, 4, 5):
        for bs in (256, 1024):
            h = {"fam": "iter", "N": N, "src": "grow", "place": rng.choice(["lo", "hi"]), "member": 0, "bs": bs}
            cmds = ["an 8 8", "an 4 4", "aa 2 4 4", "ni", "an 8 8", "td 0", "td 0", "an 4 4", "td 0"]
            if N > 2:
                cmds += ["ni", "an 4 4", "td 0", "td 0", "td 0"]
            out.append((h, cmds))
    # arrays that end exactly where the pool's block ends: whole blocks handed out as arrays, then released composably
    for ptype in ("array", "node"):
        for ns, nodes, per in ((16, 8, 4), (16, 8, 2), (8, 12, 3), (32, 6, 6), (24, 9, 3)):
            h = {"fam": "pool", "type": ptype, "src": "grow", "ns": ns, "nodes": nodes, "extra": 0,
                 "place": rng.choice(["lo", "hi"]), "member": rng.choice([0, 1])}
            k = nodes // per
            cmds = ["aa %d %d %d" % (per, ns, 8)] * k + ["td %d" % (k - 1)] + ["td 0"] * (k - 1)
            cmds += ["aa %d %d %d" % (per, ns, 8)] * (2 * k) + ["td %d" % i for i in range(2 * k - 1, -1, -1)]
            out.append((h, cmds))
    return out


def model_compose_execs(limit, seed):
    """fallback compositions driven along the behaviours of the Compose design model (MCComposeGen): the model
    predicts which leaf serves every request and in which shape it is asked (header key cexpect); sizes in units of
    8 bytes, leaf capacities as in the model"""
    from . import models
    out = []
    # segregators (seg2: 32 B; seg3: 16 B / 64 B; seg_fb: 32 B over a fallback; seg_n: 24 B, first leaf without array
    # members): the model routes by the request alone, leaf capacities 48 / 80 / 800 bytes
    for cfgname, comp in (("MCCompose_gen_fb.cfg", "fb"), ("MCCompose_gen_fbn.cfg", "fb_n"), ("MCCompose_gen_nest.cfg", "fb_nest"),
                          ("MCCompose_gen_nest2.cfg", "fb_nest2"), ("MCCompose_gen_seg2.cfg", "seg2"), ("MCCompose_gen_seg3.cfg", "seg3"),
                          ("MCCompose_gen_segfb.cfg", "seg_fb"), ("MCCompose_gen_segn.cfg", "seg_n")):
        beh, _ = models.behaviours("MCComposeGen", cfgname, limit, seed)
        seg = "seg" in comp
        for h in beh:
            cmds = ["fill 1 48", "fill 2 80", "fill 3 800"] if seg else ["fill 1 16", "fill 2 24", "fill 3 800"]
            exp = []
            for c in h:
                if c["op"] == "an":
                    cmds.append("an %d 8" % (8 * c["sz"]))
                elif c["op"] == "aa":
                    cmds.append("aa %d %d 8" % (c["n"], 8 * c["sz"]))
                else:
                    cmds.append("d %d" % c["n"])
                exp.append("%d%s%dx%d" % (c["leaf"], c["kind"], c["qn"], 8 * c["qsz"]))
            out.append(({"comp": comp, "tag": "tlc-compose", "cexpect": ".".join(exp)}, cmds))
    return out


def jobs_c08(prop, tier, seed):
    rng = random.Random(seed * 7919 + 8)
    s = 1 if tier == "quick" else 60
    J = compose_jobs(COMPS_FB, ["base", "dbg"], 5 * s, 45, rng, "fallback")
    for cfg in ("rel", "base", "dbg"):
        J.append(Job(cfg, "seq", "SeqTrace", foreign_execs(rng, s), "foreign"))
        J.append(Job(cfg, "seq", "SeqTrace", own_td_execs(rng, s), "owntd"))
    ex = model_compose_execs(60 if tier == "quick" else 1500, seed)
    J += [Job(cfg, "compose", "ForwardTrace", ex, "tlc-compose") for cfg in ("base", "dbg")]
    return J


def jobs_c09(prop, tier, seed):
    rng = random.Random(seed * 7919 + 9)
    s = 1 if tier == "quick" else 60
    ex = model_compose_execs(60 if tier == "quick" else 1500, seed)
    return (compose_jobs(COMPS_ALL, ["base", "dbg"], 3 * s, 45, rng, "adapters")
            + compose_jobs(COMPS_DEEP, ["base", "dbg"], 4 * s, 60, rng, "deep") + known_jobs(["base"])
            + [Job(cfg, "compose", "ForwardTrace", ex, "tlc-compose") for cfg in ("base", "dbg")])


def smart_cmds(rng, n):
    """mostly smart-pointer helpers: unique_ptr, unique_ptr<T[]>, shared_ptr, unique_base_ptr (converted from a derived
    unique_ptr), through a type-erased reference, over the storage classes"""
    cmds = []
    for _ in range(n):
        r = rng.random()
        if r < 0.7:
            cmds.append("%s %d %d" % (rng.choice(["uq", "ua", "sh", "ub", "ub", "sa", "sy"]), rng.choice([0, 1, 2, 3, 4, 4]), rng.choice([1, 2, 3, 7])))
        elif r < 0.9:
            cmds.append("rs %d" % rng.randint(0, 10))
        else:
            cmds.append("an %d %d" % (rng.choice([8, 16, 40]), 8))
    return cmds


def xfer_cmds(rng, n):
    """adapters as stateful allocators that are moved: requests, move assignment into a differently configured spare
    and move construction back (xm), releases through the new owner"""
    cmds = []
    for _ in range(n):
        r = rng.random()
        if r < 0.4:
            cmds.append("an %d %d" % (rng.choice(SIZES[:-2]), rng.choice(ALIGNS)))
        elif r < 0.5:
            cmds.append("aa %d %d %d" % (rng.choice([1, 2, 3]), rng.choice([8, 16, 40]), rng.choice(ALIGNS)))
        elif r < 0.7:
            cmds.append("xm")
        else:
            cmds.append("d %d" % rng.randint(0, 30))
    return cmds


def extra_jobs(prop, tier, seed):
    """compositions run by the checks of other properties: C03 (the composable interface of fallback chains never throws
    and never grows anything), C05 (deeply tracked library allocators give every block back)"""
    rng = random.Random(seed * 7919 + int(prop[1:]))
    s = 1 if tier == "quick" else 20
    if prop == "C03":
        return compose_jobs(COMPS_FB, ["base"], 3 * s, 40, rng, "fallback")
    if prop == "C10":   # unique_ptr / shared_ptr helpers give each object back to the allocator it came from, as it was taken
        return [Job(cfg, "compose", "ForwardTrace", [({"comp": name}, smart_cmds(rng, 40)) for name in sorted(SMART_OK) for _ in range(2 * s)], "smart")
                for cfg in ("base", "dbg")]
    if prop == "C12":   # adapters are stateful allocators too: moved, they release through the new owner as they allocated
        return [Job(cfg, "compose", "ForwardTrace", [({"comp": name}, xfer_cmds(rng, 40)) for name in sorted(XFER_OK) for _ in range(2 * s)], "xfer")
                for cfg in ("base", "dbg")]
    return compose_jobs(COMPS_DEEP + ["fb_pool", "fb_apool", "fb_coll"], ["base"], 3 * s, 50, rng, "deep")


PROPS = {"C08": {"jobs": jobs_c08}, "C09": {"jobs": jobs_c09}}
