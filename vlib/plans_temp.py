"""Plan for C14 (temporary allocator scopes; per-thread temporary stacks): driver `temp`, contract
TempTrace.  Three families of executions:
  nesting     one or two threads, nested temporary_allocators with allocations that cross block
              boundaries, contents checked while scopes are open, stack position probed around scopes
  api         API-level interleavings of 2..4 threads over get / init / uninit / exit (every step runs
              to completion before the next one starts), including the recorded shapes of F13-F15
  par         the same operations started concurrently and interleaved at the hook points inside the
              stack list by a seeded scheduler (header sched=<seed>)"""
import random
from .engine import Job


def growth_exec(rng):
    """a scope whose allocations make the temporary stack grow by several blocks, nested in an outer scope that
    goes on allocating afterwards: the end of the inner scope has to give all of them back"""
    t = rng.choice([0, 1])
    cmds = ["s %d push" % t, "s %d alloc %d 8" % (t, rng.choice([16, 100, 1000]))]
    for _ in range(rng.randint(1, 3)):
        cmds.append("s %d push" % t)
        for _ in range(rng.randint(2, 5)):
            cmds.append("s %d alloc %d %d" % (t, rng.choice([3000, 5000, 9000, 20000, 40000]), rng.choice([8, 16, 64])))
        cmds += ["s %d check" % t, "s %d pop" % t, "s %d alloc %d 8" % (t, rng.choice([16, 3000])), "s %d check" % t]
    cmds.append("s %d pop" % t)
    return ({"name": "growth"}, cmds)


def pair_exec(rng):
    """twice the same scope on a fresh thread: with / without a shrink_to_fit() request in the first one"""
    t = rng.choice([0, 1, 2])
    cmds = []
    for _ in range(rng.randint(1, 3)):
        cmds.append("s %d pair %d %d %d" % (t, rng.randint(3, 12), rng.choice([1000, 2000, 3000]), rng.randint(0, 1)))
    return ({"name": "pair"}, cmds)


def nesting_exec(rng):
    cmds, depth = [], 0
    t = rng.choice([0, 0, 1])
    for _ in range(rng.randint(8, 30)):
        r = rng.random()
        if depth == 0 or (r < 0.25 and depth < 4):
            cmds.append("s %d push" % t)
            depth += 1
        elif r < 0.70:
            mode = rng.choice([0, 0, 1, 2])
            if mode == 2:   # allocator_traits array: count elements of the size
                cmds.append("s %d alloc %d %d 2 %d" % (t, rng.choice([1, 3, 8, 24, 100, 1000]), rng.choice([1, 2, 8, 16]), rng.choice([1, 2, 3, 7])))
            else:
                cmds.append("s %d alloc %d %d %d" % (t, rng.choice([1, 8, 24, 100, 1000, 3000, 5000, 9000]), rng.choice([1, 2, 8, 16, 64]), mode))
        elif r < 0.80:
            cmds.append("s %d check" % t)
        else:
            cmds.append("s %d pop" % t)
            depth -= 1
    while depth:
        cmds.append("s %d pop" % t)
        depth -= 1
    return ({"name": "nesting"}, cmds)


def api_exec(rng, nthreads):
    """random API-level history; a thread that has exited is not used again"""
    alive = set(range(nthreads))
    init = set()
    cmds = []
    for _ in range(rng.randint(5, 16)):
        if not alive:
            break
        t = rng.choice(sorted(alive))
        r = rng.random()
        if r < 0.35:
            cmds.append("s %d get" % t)
        elif r < 0.50 and t not in init:
            cmds.append("s %d init" % t)
            init.add(t)
        elif r < 0.65 and t in init:
            cmds.append("s %d uninit" % t)
            init.discard(t)
        elif r < 0.80:
            cmds += ["s %d push" % t, "s %d alloc %d 8" % (t, rng.choice([16, 200, 5000])), "s %d check" % t, "s %d pop" % t]
        elif t not in init:
            cmds.append("s %d exit" % t)
            alive.discard(t)
    return ({"name": "api", "threads": nthreads}, cmds)


def known_shapes():
    return [
        ({"name": "shape-uninit-then-other-thread"}, ["s 0 init", "s 0 uninit", "s 1 get", "s 0 get", "s 0 push", "s 1 push",
                                                       "s 0 alloc 64 8", "s 1 alloc 64 8", "s 0 check", "s 1 check", "s 0 pop", "s 1 pop"]),
        ({"name": "shape-adopted-stack-released"}, ["s 0 get", "s 0 exit", "s 1 get", "s 1 exit", "s 2 get", "s 2 exit", "s 3 get"]),
        ({"name": "shape-workers-only-exit"}, ["s 1 get", "s 1 push", "s 1 alloc 64 8", "s 1 pop", "s 2 get"]),
    ]


def par_exec(rng, nthreads):
    cmds = []
    ops = lambda t: rng.choice(["get", "get", "init", "push"])
    started, inits, scopes = set(), set(), {}
    for rnd in range(rng.randint(2, 4)):
        parts = []
        for t in range(nthreads):
            if t in scopes.get("dead", set()):
                continue
            r = rng.random()
            if r < 0.45:
                parts.append("%d get" % t)
            elif r < 0.60 and t not in inits:
                parts.append("%d init" % t)
                inits.add(t)
            elif r < 0.75 and t in inits:
                parts.append("%d uninit" % t)
                inits.discard(t)
            elif r < 0.9 and t not in inits and rnd > 0:
                parts.append("%d exit" % t)
                scopes.setdefault("dead", set()).add(t)
            else:
                parts.append("%d get" % t)
        if len(parts) >= 2:
            cmds.append("par " + " | ".join(parts))
        # use the stacks between the concurrent blocks: sharing shows up as overlapping memory
        for t in range(nthreads):
            if t not in scopes.get("dead", set()):
                cmds += ["s %d push" % t, "s %d alloc %d 8" % (t, rng.choice([32, 400]))]
        for t in range(nthreads):
            if t not in scopes.get("dead", set()):
                cmds += ["s %d check" % t, "s %d pop" % t]
    return ({"name": "par", "threads": nthreads, "sched": rng.randint(1, 10 ** 6)}, cmds)


def race_exec(rng):
    """k released stacks, then more fresh threads than stacks acquire one concurrently"""
    k = rng.choice([1, 1, 2])
    cmds = []
    for t in range(k):
        cmds.append("s %d get" % t)
    if rng.random() < 0.5:
        for t in range(k):
            cmds.append("s %d exit" % t)
    else:   # release through an initializer, the threads stay alive
        cmds = []
        for t in range(k):
            cmds += ["s %d init" % t]
        for t in range(k):
            cmds += ["s %d uninit" % t]
    racers = list(range(k, min(8, k + rng.choice([2, 3]))))
    cmds.append("par " + " | ".join("%d get" % t for t in racers))
    for t in racers:
        cmds += ["s %d push" % t, "s %d alloc %d 8" % (t, rng.choice([32, 400]))]
    for t in racers:
        cmds += ["s %d check" % t, "s %d pop" % t]
    return ({"name": "race", "sched": rng.randint(1, 10 ** 6)}, cmds)


# scenarios of spec/design/MCTempSched.tla: (cfg, released stacks waiting, getters, releasers); model thread t is
# the driver's thread t - 1
SCHED_SCENARIOS = [("f0", 0, (2, 3, 4), ()), ("f1", 1, (2, 3, 4), ()), ("f2", 2, (2, 3, 4), ()),
                   ("r1", 0, (2, 3), (5,)), ("r2", 1, (2, 3), (5, 6)), ("r3", 0, (2, 3, 4), (5,))]


def planned_execs(limit, seed):
    """schedules generated by TLC from spec/design/MCTempSched.tla (one per transition of the state graph of
    threads acquiring a stack concurrently, with released stacks waiting in the list and / or other threads
    releasing theirs at the same time): the driver follows the plan at its hook points"""
    from . import models
    out = []
    for name, free, getters, releasers in SCHED_SCENARIOS:
        beh, _ = models.behaviours("MCTempSched", "MCTempSched_%s.cfg" % name, limit, seed)
        for b in beh:
            cmds = []
            # the list is built oldest first: `free` stacks that are released again, then one per releaser
            makers = [7 - i for i in range(free)]       # driver threads 7, 6 create the stacks that wait in the list
            for t in makers:
                cmds.append("s %d init" % t)
            for t in releasers:
                cmds.append("s %d init" % (t - 1))
            for t in makers:
                cmds.append("s %d uninit" % t)
            cmds.append("par " + " | ".join(["%d get" % (t - 1) for t in getters] + ["%d uninit" % (t - 1) for t in releasers]))
            for t in getters:
                cmds += ["s %d push" % (t - 1), "s %d alloc 40 8" % (t - 1)]
            for t in getters:
                cmds += ["s %d check" % (t - 1), "s %d pop" % (t - 1)]
            out.append(({"name": "tlc-sched", "sc": name, "plan": ".".join(str(t - 1) for t in b), "sched": 7}, cmds))
    return out


def jobs_c14(prop, tier, seed, reduced=False):
    rng = random.Random(seed * 15485863 + 14)
    s = 1 if tier == "quick" else 30
    J = []
    if reduced:     # the part other properties' checks run (C01, C05): nesting, races, a few planned schedules
        s = 1 if tier == "quick" else 6
        execs = known_shapes() + [nesting_exec(rng) for _ in range(8 * s)] + [growth_exec(rng) for _ in range(4 * s)] + [pair_exec(rng) for _ in range(4 * s)] + [race_exec(rng) for _ in range(20 * s)]
        execs += [par_exec(rng, rng.choice([2, 3])) for _ in range(10 * s)] + planned_execs(10 if tier == "quick" else 200, seed)
        return [Job("base", "temp", "TempTrace", execs, "temp", also=("TempListTrace",))]
    for cfg in ("base", "dbg"):
        execs = known_shapes()
        execs += [nesting_exec(rng) for _ in range(12 * s)]
        execs += [growth_exec(rng) for _ in range(6 * s)]
        execs += [pair_exec(rng) for _ in range(6 * s)]
        execs += [api_exec(rng, rng.choice([2, 3, 4])) for _ in range(30 * s)]
        execs += [par_exec(rng, rng.choice([2, 3, 4])) for _ in range(40 * s)]
        execs += [race_exec(rng) for _ in range(60 * s)]
        execs += planned_execs(30 if tier == "quick" else 2500, seed)
        J.append(Job(cfg, "temp", "TempTrace", execs, "temp", also=("TempListTrace",)))
    # temporary stack mode 1 (thread-local storage, lifetime through temporary_stack_initializer only): the same
    # API-level histories; no stack list, so no atomic steps, schedules or design-level validation
    execs = known_shapes()
    execs += [nesting_exec(rng) for _ in range(12 * s)]
    execs += [growth_exec(rng) for _ in range(6 * s)]
    execs += [pair_exec(rng) for _ in range(6 * s)]
    execs += [api_exec(rng, rng.choice([2, 3, 4])) for _ in range(30 * s)]
    execs += [par_exec(rng, rng.choice([2, 3, 4])) for _ in range(20 * s)]
    J.append(Job("tm1", "temp", "TempTrace", execs, "temp-mode1"))
    return J


PROPS = {"C14": {"jobs": jobs_c14,
                 "rule": "nested-scope histories, API-level interleavings of 2-4 threads and concurrent blocks interleaved at the "
                         "hook points of the stack list by a seeded scheduler; an execution is non-trivial if a stack was obtained"}}
