"""Build the library from /repo's working tree plus the drivers, once per debug configuration.

A content hash over /repo/{CMakeLists.txt,cmake,include,src} and the harness sources is compared
with a stamp in the build directory; if it differs the configuration is rebuilt from clean so edits
are picked up regardless of mtimes.  Concurrent checks serialise on a lock file."""
import os, shutil, fcntl, time
from .common import *

CONFIGS = {
    # name: cmake arguments
    "rel":  ["-DCMAKE_BUILD_TYPE=Release"],
    "base": ["-DCMAKE_BUILD_TYPE=RelWithDebInfo"],
    "dbg":  ["-DCMAKE_BUILD_TYPE=Debug"],
    "f16":  ["-DCMAKE_BUILD_TYPE=", "-DCMAKE_CXX_FLAGS=-O1 -g",
             "-DFOONATHAN_MEMORY_DEBUG_ASSERT=OFF", "-DFOONATHAN_MEMORY_DEBUG_FILL=ON",
             "-DFOONATHAN_MEMORY_DEBUG_FENCE=16", "-DFOONATHAN_MEMORY_DEBUG_LEAK_CHECK=ON",
             "-DFOONATHAN_MEMORY_DEBUG_POINTER_CHECK=ON",
             "-DFOONATHAN_MEMORY_DEBUG_DOUBLE_DEALLOC_CHECK=OFF"],
    "tm1":  ["-DCMAKE_BUILD_TYPE=RelWithDebInfo", "-DFOONATHAN_MEMORY_TEMPORARY_STACK_MODE=1"],
}

# configurations built by `vcheck setup` (the others are built on demand by the checks that use them)
SETUP_CONFIGS = ["rel", "base", "dbg", "f16"]


def source_hash():
    return sha_tree([os.path.join(REPO, "CMakeLists.txt"), os.path.join(REPO, "cmake"),
                     os.path.join(REPO, "include"), os.path.join(REPO, "src"),
                     os.path.join(ROOT, "harness")])


def ensure_build(cfg, targets=None):
    """Returns the build directory of configuration `cfg`, (re)building if the sources changed."""
    os.makedirs(BUILD, exist_ok=True)
    bdir = os.path.join(BUILD, cfg)
    stamp = os.path.join(BUILD, cfg + ".stamp")
    want = source_hash() + " " + " ".join(CONFIGS[cfg])
    with open(os.path.join(BUILD, cfg + ".lock"), "w") as lk:
        fcntl.flock(lk, fcntl.LOCK_EX)
        have = open(stamp).read() if os.path.exists(stamp) else ""
        if have == want and os.path.isdir(bdir):
            return bdir
        t0 = time.time()
        if os.path.exists(stamp):
            os.remove(stamp)
        shutil.rmtree(bdir, ignore_errors=True)
        rc, out = run(["cmake", "-G", "Ninja", "-S", os.path.join(ROOT, "harness"), "-B", bdir,
                       "-DVERIF_REPO=" + REPO, "-DFETCHCONTENT_TRY_FIND_PACKAGE_MODE=ALWAYS"] + CONFIGS[cfg],
                      timeout=600)
        if rc != 0:
            raise InfraError("cmake configure failed for %s:\n%s" % (cfg, out[-3000:]))
        rc, out = run(["cmake", "--build", bdir, "-j", str(NCPU)], timeout=1800)
        if rc != 0:
            raise InfraError("build failed for %s (does /repo still compile?):\n%s" % (cfg, out[-6000:]))
        with open(stamp, "w") as f:
            f.write(want)
        log("[build] %s rebuilt in %.1fs" % (cfg, time.time() - t0))
        return bdir
