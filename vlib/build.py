"""Build the library from /repo's working tree plus the drivers, once per debug configuration.

A content hash over /repo/{CMakeLists.txt,cmake,include,src} and the harness sources is compared
with a stamp in the build directory; if it differs the configuration is rebuilt from clean so edits
are picked up regardless of mtimes.  Concurrent checks serialise on a lock file."""
import os, shutil, fcntl, time
from .common import *

CONFIGS = {
    # name: cmake arguments
    "rel":  ["-DCMAKE_BUILD_TYPE=Release"],
    "base": ["-DCMAKE_BUILD_TYPE=RelWithDebInfo"],
    "dbg":  ["-DCMAKE_BUILD_TYPE=Debug"],
    "f16":  ["-DCMAKE_BUILD_TYPE=", "-DCMAKE_CXX_FLAGS=-O1 -g",
             "-DFOONATHAN_MEMORY_DEBUG_ASSERT=OFF", "-DFOONATHAN_MEMORY_DEBUG_FILL=ON",
             "-DFOONATHAN_MEMORY_DEBUG_FENCE=16", "-DFOONATHAN_MEMORY_DEBUG_LEAK_CHECK=ON",
             "-DFOONATHAN_MEMORY_DEBUG_POINTER_CHECK=ON",
             "-DFOONATHAN_MEMORY_DEBUG_DOUBLE_DEALLOC_CHECK=OFF"],
    # pointer and double-free checking without assertions, without fill: a bad call that slips through a check
    # neither trips an assertion nor crashes in a fill loop - it has to be REPORTED
    "pc":   ["-DCMAKE_BUILD_TYPE=", "-DCMAKE_CXX_FLAGS=-O1 -g",
             "-DFOONATHAN_MEMORY_DEBUG_ASSERT=OFF", "-DFOONATHAN_MEMORY_DEBUG_FILL=OFF",
             "-DFOONATHAN_MEMORY_DEBUG_FENCE=0", "-DFOONATHAN_MEMORY_DEBUG_LEAK_CHECK=OFF",
             "-DFOONATHAN_MEMORY_DEBUG_POINTER_CHECK=ON",
             "-DFOONATHAN_MEMORY_DEBUG_DOUBLE_DEALLOC_CHECK=ON"],
    # ThreadSanitizer build (threads driver only): a data race the schedule did not turn into a wrong result is still
    # a report; the child exits with code 66 at the first one (TSAN_OPTIONS set by the engine)
    "tsan": ["-DCMAKE_BUILD_TYPE=RelWithDebInfo", "-DCMAKE_CXX_FLAGS=-fsanitize=thread",
             "-DCMAKE_EXE_LINKER_FLAGS=-fsanitize=thread"],
    "tm1":  ["-DCMAKE_BUILD_TYPE=RelWithDebInfo", "-DFOONATHAN_MEMORY_TEMPORARY_STACK_MODE=1"],
}

# configurations built by `vcheck setup` (the others are built on demand by the checks that use them)
SETUP_CONFIGS = ["rel", "base", "dbg", "f16"]


def source_hash():
    return sha_tree([os.path.join(REPO, "CMakeLists.txt"), os.path.join(REPO, "cmake"),
                     os.path.join(REPO, "include"), os.path.join(REPO, "src"),
                     os.path.join(ROOT, "harness")])


def ensure_build(cfg, target=None):
    """Returns the build directory of configuration `cfg`; (re)builds the library and the driver
    `target` (all drivers if None) when the sources changed.  One stamp per configuration for the
    configure step and the library, one per driver."""
    os.makedirs(BUILD, exist_ok=True)
    bdir = os.path.join(BUILD, cfg)
    want = source_hash() + " " + " ".join(CONFIGS[cfg])
    with open(os.path.join(BUILD, cfg + ".lock"), "w") as lk:
        fcntl.flock(lk, fcntl.LOCK_EX)
        t0 = time.time()
        cstamp = os.path.join(BUILD, cfg + ".stamp")
        have = open(cstamp).read() if os.path.exists(cstamp) else ""
        if have != want or not os.path.isdir(bdir):
            for f in os.listdir(BUILD):
                if f.startswith(cfg + ".") and f.endswith(".stamp"):
                    os.remove(os.path.join(BUILD, f))
            shutil.rmtree(bdir, ignore_errors=True)
            rc, out = run(["cmake", "-G", "Ninja", "-S", os.path.join(ROOT, "harness"), "-B", bdir,
                           "-DVERIF_REPO=" + REPO, "-DFETCHCONTENT_TRY_FIND_PACKAGE_MODE=ALWAYS"] + CONFIGS[cfg],
                          timeout=600)
            if rc != 0:
                raise InfraError("cmake configure failed for %s:\n%s" % (cfg, out[-3000:]))
            rc, out = run(["cmake", "--build", bdir, "-j", str(NCPU), "--target", "foonathan_memory"], timeout=1800)
            if rc != 0:
                raise InfraError("build of the library failed for %s (does /repo still compile?):\n%s" % (cfg, out[-6000:]))
            with open(cstamp, "w") as f:
                f.write(want)
        tstamp = os.path.join(BUILD, "%s.%s.stamp" % (cfg, target or "all"))
        allstamp = os.path.join(BUILD, "%s.all.stamp" % cfg)
        if not os.path.exists(tstamp) and not os.path.exists(allstamp):
            cmd = ["cmake", "--build", bdir, "-j", str(NCPU)] + (["--target", target] if target else [])
            rc, out = run(cmd, timeout=1800)
            if rc != 0:
                raise InfraError("build failed for %s/%s (does /repo still compile?):\n%s" % (cfg, target or "all", out[-6000:]))
            with open(tstamp, "w") as f:
                f.write(want)
            log("[build] %s/%s built in %.1fs" % (cfg, target or "all", time.time() - t0))
        return bdir
