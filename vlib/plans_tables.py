"""Exploration plans for the properties decided through the `tables` driver and the TablesTrace
contract: C19 (size and alignment arithmetic) and the table part of C18 (min_block_size suffices),
registered as "C18T" until it is merged into the C18 check.

An execution is one `X what=...` header without commands; the driver evaluates the real functions
on the complete table the header describes and logs aggregated rows (see drivers/tables.cpp)."""
import random
from .engine import Job

TABLES = ("tables", "TablesTrace")
LISTS = ("node", "array", "small")
POLICIES = ("log2", "identity")
MINEL = {"node": 8, "array": 8, "small": 1}   # only used to keep scripts inside max >= min_element_size


def _x(**kw):
    return (dict(kw), [])


# ---- C19 ----------------------------------------------------------------------------------------
def _pure_execs(rng, tier):
    """complete small domain + boundary classes; thorough adds a larger complete domain and seeded
    windows further up (everything a row carries as a plain integer stays below 2^30)"""
    top = 4096 if tier == "quick" else 16384
    ex = [_x(what="align", **{"from": 0, "to": top, "amax": top}),
          _x(what="alignfor", **{"from": 1, "to": top}),
          _x(what="ilog2", **{"from": 1, "to": top}),
          _x(what="boundary", kfrom=0, kto=63, dfrom=-2, dto=2)]
    if tier != "quick":
        ex.append(_x(what="boundary", kfrom=0, kto=63, dfrom=-17, dto=17))
        for _ in range(6):
            base = rng.randrange(1 << 14, 1 << 29)
            ex.append(_x(what="align", **{"from": base, "to": base + 2048, "amax": 1 << 20}))
            ex.append(_x(what="alignfor", **{"from": base, "to": base + 2048}))
            ex.append(_x(what="ilog2", **{"from": base, "to": base + 2048}))
    return ex


def _bucket_execs(rng, tier):
    """bucket selection for all sizes 1..max, both policies, three list types; max = 4096 plus
    maxima around the minimum element size and around powers of two, plus seeded ones"""
    ex = []
    for lst in LISTS:
        lo = MINEL[lst]
        maxes = {4096, lo, lo + 1, 255, 256, 257, 1000}
        for _ in range(2 if tier == "quick" else 10):
            maxes.add(rng.randrange(lo, 4097))
        if tier != "quick":
            maxes |= {2 ** k + d for k in range(4, 12) for d in (-1, 0, 1)}
        for pol in POLICIES:
            for m in sorted(maxes):
                ex.append(_x(what="bucket", policy=pol, list=lst, max=m))
    ex.append(_x(what="bucket", policy="log2big", list="node", max=0))     # 2^k - 1, 2^k, 2^k + 1 for k = 3..62
    return ex


def _bucket_live_execs(rng, tier):
    """the bucket arithmetic at work: real collections asked for every size around the bucket boundaries up to and
    including max_node_size(), through the throwing and - once a node of that bucket is free again - the composable
    interface (driver seq, contract SeqTrace: the node holds the size, a free node is handed out)"""
    ex = []
    for bd in ("log2", "identity"):
        for ptype in ("node", "array", "small"):
            for maxns in ((64, 100, 128) if bd == "log2" else (12, 16, 32)):
                if ptype == "small" and bd == "identity" and maxns > 16:
                    continue
                sizes = sorted({s for k in range(0, 8) for s in (2 ** k - 1, 2 ** k, 2 ** k + 1) if 1 <= s <= maxns} | {maxns - 1, maxns})
                cmds = []
                for sz in sizes:
                    cmds += ["an %d 1" % sz, "an %d 1" % sz, "d 0", "tn %d 1" % sz, "d 0", "d 0"]
                cmds += ["nofail", "sweep"]
                ex.append(({"fam": "coll", "type": ptype, "bd": bd, "src": "grow", "ns": maxns, "bs": 8192 if bd == "identity" else 4096,
                            "place": rng.choice(["lo", "hi"]), "member": rng.choice([0, 1])}, cmds))
    return ex


def _c19_jobs(tier, seed):
    rng = random.Random(seed * 1000003 + 19)
    cfgs = ["base"] if tier == "quick" else ["base", "dbg"]
    J = []
    for cfg in ("rel", "base", "dbg"):
        J.append(Job(cfg, "seq", "SeqTrace", _bucket_live_execs(random.Random(rng.random()), tier), "buckets-live"))
    for cfg in cfgs:
        J.append(Job(cfg, TABLES[0], TABLES[1], _pure_execs(random.Random(rng.random()), tier), "pure"))
        J.append(Job(cfg, TABLES[0], TABLES[1], _bucket_execs(random.Random(rng.random()), tier), "buckets"))
    return J


# ---- C18 (table part) ---------------------------------------------------------------------------------
def _minblock_execs(prop, ns_lo, ns_hi, n_to, step):
    ex = []
    for pool in LISTS:
        for a in range(ns_lo, ns_hi + 1, step):
            ex.append(_x(what="minblock", prop=prop, pool=pool, ns_from=a, ns_to=min(a + step - 1, ns_hi),
                         n_from=1, n_to=n_to))
    return ex


def _minstack_execs(prop, to):
    return [_x(what="minstack", prop=prop, kind=k, **{"from": 1, "to": to}) for k in ("stack", "arena")]


def _c18t_jobs(prop, tier, seed):
    rng = random.Random(seed * 1000003 + 18)
    J = []
    for cfg in ("rel", "base", "dbg"):
        r = random.Random(rng.random())
        if tier == "quick":
            # complete table ns 1..64 x n 1..1100, plus a seeded sample of node sizes 65..512 with n 1..2000
            ex = _minblock_execs(prop, 1, 64, 1100, 16)
            for pool in LISTS:
                for ns in sorted(r.sample(range(65, 513), 6)):
                    ex.append(_x(what="minblock", prop=prop, pool=pool, ns_from=ns, ns_to=ns, n_from=1, n_to=2000))
            J.append(Job(cfg, TABLES[0], TABLES[1], ex + _minstack_execs(prop, 4096), "minblock"))
        else:
            # full table ns 1..512 x n 1..2000, 64 node sizes per trace
            for lo in range(1, 513, 64):
                J.append(Job(cfg, TABLES[0], TABLES[1], _minblock_execs(prop, lo, lo + 63, 2000, 16),
                             "minblock-%d" % lo))
            J.append(Job(cfg, TABLES[0], TABLES[1], _minstack_execs(prop, 16384), "minstack"))
    return J


def jobs(prop, tier, seed):
    """prop "C19": arithmetic tables; any other name ("C18T", "C18"): the min_block_size tables, with the
    violations reported under that name (the driver echoes `prop=` from the header into its rows)."""
    if prop == "C19":
        return _c19_jobs(tier, seed)
    return _c18t_jobs(prop, tier, seed)


_ASSUME = ["TLC evaluates the contract module TablesTrace on rows recorded by the `tables` driver from the real library",
           "the rows are complete tables over the stated finite domains (exhaustive there); 64-bit behaviour is covered on the "
           "boundary classes 2^k+d and by the design model Arith.tla on a complete 13-bit machine, not on all 2^64 inputs",
           "the driver's aggregation (one row per function and alignment / per pool type and node size) is trusted"]

PROPS = {
    "C19": {"jobs": jobs, "assumptions": _ASSUME,
            "rule": "one execution per table (function family x domain, bucket policy x list type x maximum); every entry of "
                    "every row is checked against the definition"},
    "C18T": {"jobs": jobs, "assumptions": _ASSUME,
             "rule": "one execution per (pool type, block of node sizes) / per stack or arena byte range; every (node size, "
                     "count) entry is a pool really constructed with min_block_size and drained"},
}
