"""Exploration plans for C20 (object-creating helpers are exception safe at every constructor failure
point) and C11 (joint allocations stay inside the object's single block and it is freed whole).

Driver `construct` (harness/drivers/construct*.cpp), contract module ConstructTrace.  One execution =
one scenario: a header choosing the allocator under the helpers (instrumented leaf / real memory_pool /
real memory_stack) and the element type, followed by helper calls with the position k of the
construction that throws (0 = none).  See the command list in harness/drivers/construct_typed.hpp.

Only contract-respecting scripts are produced: stand-alone joint_arrays are dropped before their joint
object, sources of copies are alive, pools are asked for at most one node / arrays they can serve."""
import random
from .engine import Job

DRV = ("construct", "ConstructTrace")

# ---------------------------------------------------------------------------------------------------------
# KNOWN DEFECTS OF THE LIBRARY (reproducers in /verif/work/agentB/, see the final report).  While an entry
# is True the plan leaves out exactly the scenarios that hit the defect; set it to False once the library
# is fixed and the scenarios are generated (and the guards named here will judge them).
# ---------------------------------------------------------------------------------------------------------
KNOWN_DEFECTS = {
    # joint_array<T>::builder::~builder unwinds the joint stack only `if (size_)`: when the constructor
    # of the FIRST element throws, the memory obtained from the joint stack is not given back
    # (C20 JointMemoryReturned).  Excluded: stand-alone joint_array construction whose first element
    # construction throws (k == 1; for the initializer_list form k == n + 1 because the n copies of the
    # list itself come first).  The same failure point inside joint_ptr creation stays covered (there the
    # whole block is released).
    "D1_joint_array_first_element_no_unwind": False,   # fixed in /repo (F21)
    # clone_joint allocates sizeof(T) + capacity_used(source); capacity_used contains the alignment
    # padding of the SOURCE block.  With pieces aligned stricter than alignof(T) (16 > 8) and a new block
    # whose address has another residue modulo 16 the copy needs more padding and clone_joint throws
    # out_of_fixed_memory for a perfectly valid object (C11 CloneIndependent).  Excluded: clone_joint of
    # objects with 16-aligned elements unless source and copy are certain to get blocks with the same
    # residue (instrumented leaf with a uniform skew pattern, or the pool whose nodes are 16-aligned).
    "D2_clone_joint_overaligned_padding": True,
    # Same root cause (the copy is sized by capacity_used of the source): a joint_array built from an empty
    # iterator range allocates nothing, but copying it (`joint_array(other, joint)`) allocates 0 bytes
    # *aligned to alignof(T)*.  If the joint stack top is not aligned at that point (e.g. after a piece of
    # odd size) and no later piece would have needed the padding anyway, the copy needs more than
    # capacity_used and clone_joint throws out_of_fixed_memory (C11 CloneIndependent).  Excluded: clone_joint
    # of layouts for which the copy needs more joint memory than the source used (clone_needs_more()).
    "D3_clone_joint_empty_array_padding": True,
}

# e8n: the same as e8 with noexcept constructors (the helpers' "cannot throw" paths); it never throws
ELEMS = {"e1": (1, 1), "e3": (3, 1), "e4": (4, 4), "e8": (8, 8), "e12": (12, 4), "e16": (16, 16), "e8n": (8, 8)}
ETS = list(ELEMS)
ALLOCS = ["leaf", "pool", "stack"]
F_ABSENT, F_SIZE, F_VALUE, F_ILIST, F_RANGE, F_COPY, F_MOVE = -1, 0, 1, 2, 3, 4, 5
MEMBER_FORMS = [F_SIZE, F_VALUE, F_ILIST, F_RANGE]


def hdr(alloc, et, skew="1", **kw):
    h = {"alloc": alloc, "et": et, "skew": skew}
    h.update(kw)
    return h


def ks_for(total, tier, rng, cap=8):
    """throw positions 0..total+1: all of them, or (quick tier, long sequences) the boundary ones plus a
    few sampled ones"""
    allk = list(range(0, total + 2))
    if tier != "quick" or len(allk) <= cap:
        return allk
    keep = {0, 1, 2, total - 1, total, total + 1}
    rest = [k for k in allk if k not in keep]
    rng.shuffle(rest)
    return sorted(keep | set(rest[:max(0, cap - len(keep))]))


def member_cost(f, n):
    """number of element constructions while a member array is built"""
    if f == F_ABSENT:
        return 0
    return 2 * n if f == F_ILIST else n


def joint_cmd(am, av, k, a, b=(F_ABSENT, 0), c=(F_ABSENT, 0), vres=-1, nv=0):
    return "joint %d %d %d %d %d %d %d %d %d %d %d" % (am, av, k, a[0], a[1], b[0], b[1], c[0], c[1], vres, nv)


def joint_total(a, b=(F_ABSENT, 0), c=(F_ABSENT, 0), nv=0):
    return member_cost(*a) + member_cost(*b) + member_cost(*c) + nv


# ---- C20 scenarios -----------------------------------------------------------------------------------
def sc_single(rng, tier, out):
    """allocate_unique<T>(args) / allocate_shared<T>(args): every argument form, throw at the only
    construction, then a successful repetition and the usual life of the result"""
    for et in ETS:
        for alloc in ALLOCS:
            if tier == "quick" and rng.random() < 0.5:
                continue
            for op in ("uniq", "shared"):
                cmds = []
                for form in range(4):
                    for k in (1, 0, 2):
                        cmds.append("%s %d %d" % (op, form, k))
                    cmds.append("use")
                # results: slots 0.. ; every third+1 is alive (k=0), the k=2 ones as well
                cmds += ["movec 1", "movea 2 4", "reset 5", "swap 7 8" if op == "uniq" else "reset 7", "drop 10"]
                out.append((hdr(alloc, et), cmds))


def sc_array(rng, tier, out):
    """allocate_unique<T[]>(n): n = 0..16, throw at every element"""
    ns = list(range(0, 17)) if tier != "quick" else [0, 1, 2, 3, 4, 5, 7, 8, 12, 15, 16]
    for i, n in enumerate(ns):
        ets = ETS if tier != "quick" else [ETS[i % len(ETS)], ETS[(i + 3) % len(ETS)]]
        for et in ets:
            allocs = ALLOCS if tier != "quick" else [ALLOCS[(i + ETS.index(et)) % 3], "leaf"]
            for alloc in dict.fromkeys(allocs):
                if n == 0 and alloc != "leaf":
                    continue
                cmds = []
                for k in ks_for(n, tier, rng, 9):
                    cmds += ["arr %d %d" % (n, k), "use"]
                nres = len(cmds) // 2
                cmds += ["arr %d 0" % n, "movec 0", "movea %d %d" % (nres, nres - 1), "reset %d" % nres]
                out.append((hdr(alloc, et), cmds))


def layouts(tier, rng):
    """member layouts of the joint test object: (a, b, c, vres, nv)"""
    L = []
    for f in MEMBER_FORMS:
        for n in ([0, 1, 2, 3, 5] if tier == "quick" else [0, 1, 2, 3, 4, 5, 8, 11, 16]):
            L.append(((f, n), (F_ABSENT, 0), (F_ABSENT, 0), -1, 0))
    L.append(((F_SIZE, 2), (F_VALUE, 3), (F_ABSENT, 0), -1, 0))
    L.append(((F_RANGE, 2), (F_ILIST, 1), (F_SIZE, 2), -1, 0))
    L.append(((F_VALUE, 1), (F_SIZE, 1), (F_RANGE, 3), 3, 3))
    L.append(((F_ILIST, 2), (F_RANGE, 3), (F_VALUE, 2), 2, 1))
    L.append(((F_ABSENT, 0), (F_ABSENT, 0), (F_ABSENT, 0), 4, 4))
    L.append(((F_SIZE, 3), (F_ABSENT, 0), (F_ABSENT, 0), 2, 2))
    if tier != "quick":
        for _ in range(12):
            L.append(((rng.choice(MEMBER_FORMS), rng.randint(0, 6)), (rng.choice(MEMBER_FORMS + [F_ABSENT]), rng.randint(0, 5)),
                      (rng.choice(MEMBER_FORMS + [F_ABSENT]), rng.randint(0, 6)), rng.choice([-1, 3, 5]), rng.randint(0, 3)))
    return L


def clone_needs_more(et, a, b, c, vres, nv):
    """KNOWN_DEFECTS D3: would a member-wise copy need more joint memory than the source used, source and
    copy lying in blocks with the same address residue modulo 16 (different residues are the business of
    D2)?  The object itself is 8-aligned and its size a multiple of 8."""
    sz, al = ELEMS[et]
    up = lambda p, q: (p + q - 1) // q * q
    arrs = [(a, sz, al), (b, 1, 1), (c, sz, al)]
    for r in (0, 8):
        src = cp = r
        for (f, n), s, q in arrs:
            allocates = not (f == F_ABSENT or (f == F_RANGE and n == 0))
            if allocates:
                src = up(src, q) + n * s
            cp = up(cp, q) + (n * s if allocates else 0)     # the copy always allocates (possibly 0 bytes)
        if vres > 0:
            src = up(src, al) + vres * sz
        if nv > 0:
            cp = up(cp, al) + nv * sz
        if cp > src:
            return True
    return False


def clone_ok(et, alloc, skew, layout=None):
    """may clone_joint be called in this execution (see KNOWN_DEFECTS D2, D3)?"""
    if layout is not None and KNOWN_DEFECTS["D3_clone_joint_empty_array_padding"] and clone_needs_more(et, *layout):
        return False
    if not KNOWN_DEFECTS["D2_clone_joint_overaligned_padding"]:
        return True
    if ELEMS[et][1] <= 8:
        return True
    return alloc == "pool" or (alloc == "leaf" and len(set(skew)) == 1)


def sc_joint_create(rng, tier, out):
    """joint_ptr creation with a throw at every construction of every member, then clone_joint and the
    move with allocator with a throw at every copy / move"""
    for i, (a, b, c, vres, nv) in enumerate(layouts(tier, rng)):
        nv_eff = nv if vres >= nv else 0
        total = joint_total(a, b, c, nv_eff)
        ets = ETS if tier != "quick" else [ETS[i % len(ETS)], ETS[(i + 1 + i // len(ETS)) % len(ETS)]]
        for et in dict.fromkeys(ets):
            alloc = ALLOCS[(i + ETS.index(et)) % 3] if total * ELEMS[et][0] < 300 else "leaf"
            skew = rng.choice(["0", "1"])
            # creation: every k, each followed by a plain request; big enough additional size
            cmds = []
            for k in ks_for(total, tier, rng, 10):
                if k == 0:
                    continue
                cmds += [joint_cmd(1, 32, k, a, b, c, vres, nv_eff), "use"]
            base = len(cmds) // 2
            cmds += [joint_cmd(1, 0, 0, a, b, c, vres, nv_eff)]           # slot base: the survivor (exact fit)
            out.append((hdr(alloc, et, skew), cmds + ["movec %d" % base, "reset %d" % base]))
            # clone / jmove of a survivor with a throw at every element
            if not clone_ok(et, alloc, skew, (a, b, c, vres, nv_eff)):
                continue
            cnt = a[1] * (a[0] != F_ABSENT) + b[1] * (b[0] != F_ABSENT) + c[1] * (c[0] != F_ABSENT) + nv_eff
            cmds = [joint_cmd(1, 0, 0, a, b, c, vres, nv_eff)]
            for k in ks_for(cnt, tier, rng, 8):
                cmds += ["clone 0 %d" % k]
            nslots = len(cmds)
            cmds += ["use", "swap 0 %d" % (nslots - 1), "reset 0"]
            out.append((hdr(alloc, et, skew), cmds))
            cmds = []
            ks = ks_for(cnt, tier, rng, 6)
            for j, k in enumerate(ks):
                # the source of a move is used once (its elements are moved-from afterwards)
                cmds += [joint_cmd(1, 0, 0, a, b, c, vres, nv_eff), "jmove %d 1 0 %d" % (2 * j, k), "use"]
            out.append((hdr(alloc, et, skew), cmds))


def ja_skipped(form, n, k):
    """KNOWN_DEFECTS D1: the first element construction of a stand-alone joint_array throws"""
    if not KNOWN_DEFECTS["D1_joint_array_first_element_no_unwind"] or n == 0:
        return False
    return k == (n + 1 if form == F_ILIST else 1)


def sc_joint_array(rng, tier, out):
    """every joint_array constructor form as a stand-alone array on an existing joint object, n = 0..16,
    throw at every element"""
    ns = list(range(0, 17)) if tier != "quick" else [0, 1, 2, 3, 4, 6, 9, 16]
    for form in (F_SIZE, F_VALUE, F_ILIST, F_RANGE, F_COPY, F_MOVE):
        for i, n in enumerate(ns):
            ets = ETS if tier != "quick" else [ETS[(i + form) % len(ETS)], ETS[(i + form + 2) % len(ETS)]]
            for et in ets:
                alloc = ALLOCS[(i + form + ETS.index(et)) % 3] if tier == "quick" else rng.choice(ALLOCS)
                total = 2 * n if form == F_ILIST else n
                ks = [k for k in ks_for(total, tier, rng, 9) if not ja_skipped(form, n, k)]
                cmds = []
                src = -1
                if form in (F_COPY, F_MOVE):
                    cmds.append("ja 0 %d %d 0" % (F_VALUE, n))
                    src = 1
                first = len(cmds) + 1
                for k in ks:
                    if form == F_MOVE and k != ks[0]:
                        # a fresh source per attempt (the previous one holds moved-from elements)
                        cmds.append("ja 0 %d %d 0" % (F_VALUE, n))
                        src = len(cmds)
                    cmds.append("ja 0 %d %d %d %d" % (form, n, k, src))
                # joint object with nothing but room: every attempt takes at most n*size (+ padding)
                room = len(cmds) * (n * ELEMS[et][0] + 16) + 64
                if room > 800 and alloc == "pool":
                    alloc = "leaf"
                cmds = [joint_cmd(0, room, 0, (F_ABSENT, 0))] + cmds
                nslots = len(cmds)
                cmds += ["pieces 0", "use", "movec %d" % first, "drop %d" % nslots]
                out.append((hdr(alloc, et, rng.choice(["0", "1"])), cmds))


# ---- C11 scenarios -----------------------------------------------------------------------------------
def sc_fit(rng, tier, out):
    """additional size 0, exact fit, one byte short, one element short, generous; mixed alignments"""
    lay = [((F_SIZE, 3), (F_ABSENT, 0), (F_ABSENT, 0), -1, 0),
           ((F_VALUE, 2), (F_SIZE, 1), (F_SIZE, 2), -1, 0),
           ((F_SIZE, 1), (F_SIZE, 3), (F_RANGE, 2), 2, 2),
           ((F_RANGE, 4), (F_VALUE, 5), (F_ILIST, 1), -1, 0),
           ((F_ILIST, 2), (F_ABSENT, 0), (F_SIZE, 0), 3, 1),
           ((F_SIZE, 0), (F_SIZE, 0), (F_SIZE, 0), -1, 0),
           ((F_ABSENT, 0), (F_VALUE, 7), (F_SIZE, 1), 1, 1),
           ((F_SIZE, 16), (F_SIZE, 1), (F_SIZE, 16), -1, 0),
           # the iterator-range constructor takes its memory element by element (joint_stack::bump): make it
           # the member that runs out
           ((F_RANGE, 5), (F_ABSENT, 0), (F_ABSENT, 0), -1, 0),
           ((F_SIZE, 1), (F_SIZE, 1), (F_RANGE, 3), -1, 0),
           ((F_ABSENT, 0), (F_RANGE, 7), (F_ABSENT, 0), -1, 0)]
    if tier != "quick":
        for _ in range(24):
            lay.append(((rng.choice(MEMBER_FORMS), rng.randint(0, 16)), (rng.choice(MEMBER_FORMS + [F_ABSENT]), rng.randint(0, 9)),
                        (rng.choice(MEMBER_FORMS + [F_ABSENT]), rng.randint(0, 16)), rng.choice([-1, 1, 4]), rng.randint(0, 1)))
    for i, (a, b, c, vres, nv) in enumerate(lay):
        for et in (ETS if tier != "quick" else [ETS[i % len(ETS)], "e16"]):
            sz = ELEMS[et][0]
            for skew in ("0", "1"):
                cmds = []
                for am, av in ((1, 0), (1, -1), (1, -sz), (0, 0), (1, 1), (1, 64)):
                    cmds += [joint_cmd(am, av, 0, a, b, c, vres, nv), "pieces %d" % (len(cmds) // 2)]
                n = len(cmds) // 2
                cmds += ["use", "reset 0", "movec %d" % (n - 1), "drop %d" % (n - 2)]
                out.append((hdr("leaf", et, skew), cmds))
            if tier != "quick" or i % 2 == 0:
                alloc = ["pool", "stack"][i % 2]
                if (a[1] + c[1] + max(vres, 0)) * sz + b[1] < 700:
                    cmds = [joint_cmd(1, 0, 0, a, b, c, vres, nv), joint_cmd(1, -1, 0, a, b, c, vres, nv),
                            joint_cmd(1, 16, 0, a, b, c, vres, nv), "pieces 0", "pieces 2", "use", "reset 0"]
                    out.append((hdr(alloc, et), cmds))


def sc_raw(rng, tier, out):
    """joint_allocator used directly: sequences of requests with alignments 1..16, release of the last
    and of an earlier piece, requests one past the capacity"""
    reps = 10 if tier == "quick" else 120
    for r in range(reps):
        et = rng.choice(ETS)
        alloc = rng.choice(["leaf", "leaf", "pool", "stack"])
        cap = rng.choice([0, 1, 7, 16, 24, 40, 64, 100])
        cmds = [joint_cmd(0, cap, 0, (F_ABSENT, 0))]
        live = 0
        for _ in range(rng.randint(3, 12)):
            p = rng.random()
            if p < 0.6 or live == 0:
                sz = rng.choice([0, 1, 2, 3, 4, 8, 12, 16, 17, cap, cap + 1, max(cap - 1, 0)])
                cmds.append("jraw 0 %d %d" % (sz, rng.choice([1, 1, 2, 4, 8, 16])))
                live += 1
            elif p < 0.8:
                cmds.append("jrawfree 0 %d" % (live - 1))          # most likely the last one
            else:
                cmds.append("jrawfree 0 %d" % rng.randint(0, live))
        cmds += ["pieces 0", "use"]
        out.append((hdr(alloc, et, rng.choice(["0", "1"])), cmds))
    # the member container grows (old storage is not the last allocation), then more requests
    for i, et in enumerate(ETS if tier != "quick" else ["e4", "e16", "e3"]):
        sz = ELEMS[et][0]
        for alloc in (["leaf", "stack"] if tier == "quick" else ALLOCS):
            cmds = [joint_cmd(0, 40 * sz + 64, 0, (F_SIZE, 2), (F_SIZE, 1), (F_ABSENT, 0), 2, 2),
                    "vpush 0 3 0", "jraw 0 %d %d" % (sz, ELEMS[et][1]), "ja 0 %d 2 0" % F_VALUE, "vpush 0 4 2",
                    "jraw 0 3 1", "vpush 0 40 0", "pieces 0", "use", "drop 1"]
            out.append((hdr(alloc, et, "01"), cmds))


def sc_vmove(rng, tier, out):
    """container move assignment between the vector members of two joint objects (with and without room in the target):
    every piece of an object stays inside that object's own block"""
    for i, et in enumerate(ETS if tier != "quick" else ["e4", "e16", "e3", "e8"]):
        sz = ELEMS[et][0]
        for room in (0, 2 * sz, 40 * sz + 64):
            for alloc in (["leaf"] if tier == "quick" else ["leaf", "stack"]):
                cmds = [joint_cmd(0, room, 0, (F_ABSENT, 0)),                 # target
                        joint_cmd(0, 40 * sz + 64, 0, (F_ABSENT, 0)),         # source
                        "vpush 1 5 0", "pieces 1", "vmove 0 1", "pieces 0", "vpush 0 2 0", "pieces 0", "pieces 1",
                        "use", "drop 1", "use", "pieces 0"]
                out.append((hdr(alloc, et, rng.choice(["0", "1", "01"])), cmds))


def sc_orders(rng, tier, out):
    """orders of create / move-with-allocator / clone / reset / swap / move of joint_ptrs"""
    reps = 14 if tier == "quick" else 160
    for r in range(reps):
        et = rng.choice(ETS)
        alloc = rng.choice(ALLOCS)
        skew = rng.choice(["0", "1", "01", "10", "001"])
        a = (rng.choice(MEMBER_FORMS), rng.randint(0, 4))
        b = (rng.choice(MEMBER_FORMS + [F_ABSENT]), rng.randint(0, 3))
        c = (rng.choice(MEMBER_FORMS + [F_ABSENT]), rng.randint(0, 4))
        vres = rng.choice([-1, 2, 3])
        nv = rng.randint(0, 2) if vres > 0 else 0
        can_clone = clone_ok(et, alloc, skew, (a, b, c, vres, nv))
        cmds = [joint_cmd(1, rng.choice([0, 0, 8, 33]), 0, a, b, c, vres, nv)]
        slots = 1            # all slots hold joint_ptrs here
        if r % 2 == 0:
            # two joint_ptrs bound to different allocator objects, then one of assignment / swap / move construction:
            # each object has to go back to the allocator object it came from
            cmds += ["ualloc 1", joint_cmd(1, rng.choice([0, 7]), 0, a, b, c, vres, nv),
                     rng.choice(["movea 0 1", "movea 1 0", "swap 0 1", "swap 1 0", "movec 1"])]
            slots = 2 if not cmds[-1].startswith("movec") else 3
        for _ in range(rng.randint(3, 10)):
            p = rng.random()
            s = rng.randrange(slots)
            t = rng.randrange(slots)
            if rng.random() < 0.3:
                cmds.append("ualloc %d" % rng.randint(0, 1))     # which allocator object the next creations use
            if p < 0.18:
                cmds.append(joint_cmd(1, rng.choice([0, 5]), 0, a, b, c, vres, nv)); slots += 1
            elif p < 0.36 and can_clone:
                cmds.append("clone %d %d%s" % (s, rng.choice([0, 0, 0, 1, 2, 3]), rng.choice(["", "", " 1"]))); slots += 1
            elif p < 0.46:
                cmds.append("jmove %d 1 %d %d" % (s, rng.choice([0, 9]), rng.choice([0, 0, 2]))); slots += 1
            elif p < 0.58:
                cmds.append("movec %d" % s); slots += 1
            elif p < 0.70 and s != t:
                cmds.append("movea %d %d" % (s, t))
            elif p < 0.82 and s != t:
                cmds.append("swap %d %d" % (s, t))
            elif p < 0.92:
                cmds.append("reset %d" % s)
            else:
                cmds.append("pieces %d" % s)
        cmds.append("use")
        out.append((hdr(alloc, et, skew), cmds))


def _jobs(prop, tier, seed, cfgs, scenario_fns, chunk):
    J = []
    for ci, cfg in enumerate(cfgs):
        rng = random.Random(seed * 7919 + int(prop[1:]) * 131 + ci)
        execs = []
        for fn in scenario_fns:
            part = []
            fn(rng, tier, part)
            for h, cmds in part:
                h = dict(h)
                h["sc"] = fn.__name__[3:]
                execs.append((h, cmds))
        for i in range(0, len(execs), chunk):
            J.append(Job(cfg, DRV[0], DRV[1], execs[i:i + chunk], "construct%d" % (i // chunk)))
    return J


def jobs_c20(prop, tier, seed):
    return _jobs(prop, tier, seed, ["base", "dbg"], [sc_single, sc_array, sc_joint_create, sc_joint_array],
                 150 if tier == "quick" else 400)


def model_joint_execs(limit, seed):
    """the joint stack driven along the behaviours of the Joint design model (MCJointGen): raw requests and releases
    on a joint object of 104 bytes (element type e3) whose block lies at residue 0 / 8 modulo 16; the model predicts
    the outcome of every step and the offsets of the live pieces (header key jexpect)"""
    from . import models
    beh, _ = models.behaviours("MCJointGen", "MCJoint_gen.cfg", limit, seed)
    out = []
    for h in beh:
        if not h or h[0]["op"] != "create":
            continue
        cmds, exp = [], []
        for c in h:
            if c["op"] == "create":
                cmds.append(joint_cmd(0, c["b"], 0, (F_ABSENT, 0)))
            elif c["op"] == "alloc":
                cmds.append("jraw 0 %d %d" % (c["a"], c["b"]))
            else:
                cmds.append("jrawfree 0 %d" % c["a"])
            exp.append(c["res"] + "=" + ",".join("%d@%d+%d" % tuple(pc) for pc in c["live"]))
        out.append((hdr("leaf", "e3", "0" if h[0]["a"] == 0 else "1", tag="tlc-joint", jexpect="|".join(exp), jres=h[0]["a"]), cmds))
    return out


def jobs_c03(prop, tier, seed):
    """joint memory as a fixed source that runs out (C03)"""
    return _jobs(prop, tier, seed, ["base", "dbg"], [sc_fit, sc_raw], 150 if tier == "quick" else 400)


def jobs_c09(prop, tier, seed):
    """the smart-pointer helpers with a constructor that throws at every position: each block still goes back to the
    allocator exactly once, as it was taken (C09)"""
    return _jobs(prop, tier, seed, ["base"], [sc_single, sc_array], 150 if tier == "quick" else 400)


def jobs_c17(prop, tier, seed):
    """joint allocations in the configurations with fences: the fill of new memory stays inside the joint block (C17:
    "without touching neighbouring live memory")"""
    return _jobs(prop, tier, seed, ["dbg", "f16"], [sc_fit, sc_raw], 150 if tier == "quick" else 400)


def jobs_c11(prop, tier, seed):
    J = _jobs(prop, tier, seed, ["rel", "base", "dbg"], [sc_fit, sc_raw, sc_orders, sc_joint_create, sc_vmove],
              150 if tier == "quick" else 400)
    J.append(Job("base", DRV[0], DRV[1], known_finding_execs(), "known"))
    ex = model_joint_execs(120 if tier == "quick" else 2500, seed)
    for cfg in ("rel", "base", "dbg"):
        J.append(Job(cfg, DRV[0], DRV[1], ex, "tlc-joint"))
    return J


_RULE = ("scenario scripts per helper / constructor form / element type / allocator and every throw position k "
         "(vlib/plans_construct.py); an execution counts as non-trivial if at least one helper call returned ok")

def known_finding_execs():
    """dedicated reproducers of the listed open findings F22 / F23 (clone_joint under-sizes the copy): shown
    against the real code on every run; matched by the kf= tag in known_findings.json"""
    return [({"alloc": "leaf", "et": "e16", "skew": "10", "kf": "F22"}, ["joint 1 0 0 0 2", "clone 0 0"]),
            ({"alloc": "leaf", "et": "e4", "skew": "0", "kf": "F23"}, ["joint 1 0 0 -1 0 0 3 3 0", "clone 0 0"])]


PROPS = {
    "C20": {"jobs": jobs_c20, "rule": _RULE},
    "C11": {"jobs": jobs_c11, "rule": _RULE},
}
