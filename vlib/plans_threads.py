"""Plan for C13 (thread_safe_allocator serialises all access): driver `threads`, contract LockTrace."""
import random
from .engine import Job


def jobs_c13(prop, tier, seed):
    rng = random.Random(seed * 104729 + 13)
    s = 1 if tier == "quick" else 100
    J = []
    for cfg in ("base", "dbg"):
        execs = []
        # deterministic single-threaded pass over every forwarding member and the lock() proxy
        for store in ("direct", "ref", "anyref", "stateless", "factory_m", "emptystateful"):
            execs.append(({"store": store, "mode": "single"}, []))
        # free-running stress, validated the same way (factory_m / factory: what make_thread_safe_allocator builds,
        # with the instrumented and with the library's default mutex)
        for store in ("direct", "ref", "anyref", "factory_m", "factory", "emptystateful"):
            for k in range(2 * s):
                execs.append(({"store": store, "mode": "stress", "threads": rng.choice([2, 3, 4, 8]),
                               "ops": rng.choice([40, 80, 150]), "seed": rng.randint(1, 10 ** 6)}, []))
        execs.append(({"store": "stateless", "mode": "stress", "threads": 4, "ops": 60, "seed": rng.randint(1, 10 ** 6)}, []))
        # stateless low-level allocators without any lock: the process-wide leak counter stays exact
        sl = min(s, 25)
        for low in ("low_heap", "low_malloc", "low_new"):
            for k in range(sl):
                execs.append(({"store": low, "threads": rng.choice([4, 8]), "ops": 400 * sl}, []))
        J.append(Job(cfg, "threads", "LockTrace", execs, "threads"))
    # the same kinds of executions under ThreadSanitizer (fewer, shorter: about ten times slower)
    execs = []
    for store in ("direct", "ref", "anyref", "stateless", "factory_m", "factory", "emptystateful"):
        execs.append(({"store": store, "mode": "single"}, []))
        for k in range(s if tier == "quick" else 20):
            execs.append(({"store": store, "mode": "stress", "threads": rng.choice([2, 3, 4]), "ops": rng.choice([30, 60]),
                           "seed": rng.randint(1, 10 ** 6)}, []))
    for low in ("low_heap", "low_malloc", "low_new"):
        for k in range(2 if tier == "quick" else 10):
            execs.append(({"store": low, "threads": rng.choice([2, 4]), "ops": 100}, []))
    J.append(Job("tsan", "threads", "LockTrace", execs, "tsan"))
    return J


PROPS = {"C13": {"jobs": jobs_c13,
                 "rule": "one single-threaded pass per storage policy over every forwarding member and the lock() proxy, plus "
                         "free-running multi-threaded stress runs (2-8 threads) whose logged linearisation is validated; an "
                         "execution is non-trivial if at least one allocation succeeded"}}
