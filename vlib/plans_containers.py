"""Plan for C10 (standard containers on std_allocator return every node to the allocator it came
from): driver `containers`, contract ContainerTrace.  Operation sequences come from the Propagate
design model (one behaviour per transition of its state graph) and from a seeded generator; they are
run for every container kind on a grid of element types."""
import random
from .engine import Job
from . import models

CONTS = ["vector", "deque", "list", "forward_list", "set", "multiset", "map", "multimap", "unordered_set",
         "unordered_multiset", "unordered_map", "unordered_multimap"]
ELEMS = ["E1_1", "E2_2", "E3_1", "E4_4", "E7_1", "E8_8", "E9_1", "E16_16", "E17_1", "E24_8", "E32_16", "E64_8", "E128_16"]


def conv(h):
    out = []
    for c in h:
        op = c["op"]
        if op == "ins":
            out.append("ins %d %d" % (c["a"], 2))
        elif op in ("era", "del"):
            out.append("%s %d" % (op, c["a"]))
        elif op == "new":
            out.append("new %d %d" % (c["a"], c["c"] - 1))
        else:
            out.append("%s %d %d" % (op, c["a"], c["c"]))
    return out


def random_cmds(rng, n):
    cmds = []
    for _ in range(n):
        r = rng.random()
        a, d = rng.randint(0, 2), rng.randint(0, 2)
        if r < 0.30:
            cmds.append("ins %d %d" % (a, rng.choice([1, 2, 5, 12])))
        elif r < 0.40:
            cmds.append("era %d" % a)
        elif r < 0.44:
            cmds.append("clr %d" % a)
        elif r < 0.52:
            cmds.append("del %d" % a)
        elif r < 0.60:
            cmds.append("new %d %d" % (a, rng.randint(0, 1)))
        elif r < 0.67:
            cmds.append("cpy %d %d" % (a, d))
        elif r < 0.74:
            cmds.append("mov %d %d" % (a, d))
        elif r < 0.81:
            cmds.append("cas %d %d" % (a, d))
        elif r < 0.88:
            cmds.append("mas %d %d" % (a, d))
        elif r < 0.94:
            cmds.append("swp %d %d" % (a, d))
        elif r < 0.97:
            cmds.append("spl %d %d" % (a, d))
        else:
            cmds.append("eq %d %d" % (a, d))
    return cmds


def jobs_c10(prop, tier, seed):
    rng = random.Random(seed * 32452843 + 10)
    quick = tier == "quick"
    beh, _ = models.behaviours("Propagate", "MCProp_gen.cfg", 60 if quick else 600, seed)
    execs = []
    pairs = [(c, e) for c in CONTS for e in ELEMS]
    rng.shuffle(pairs)
    pairs = pairs[: (len(pairs) if not quick else 70)]
    for i, (c, e) in enumerate(pairs):
        hdr = {"cont": c, "elem": e}
        # model-generated behaviours: spread over the (container, element) grid
        for k in range(2 if quick else 6):
            execs.append((hdr, conv(beh[(i * 7 + k) % len(beh)]) + ["eq 0 1", "eq 0 2", "eq 1 2"]))
        for k in range(1 if quick else 4):
            execs.append((hdr, random_cmds(rng, 30)))
    # allocator with user-specialised propagation traits (assignment does not propagate, swap does)
    for c in ["vector", "deque", "list", "forward_list", "set", "map", "unordered_set"]:
        for e in ["E8_8", "E17_1"]:
            hdr = {"cont": c, "elem": e, "np": 1}
            for k in range(2 if quick else 8):
                execs.append((hdr, conv(beh[rng.randrange(len(beh))]) + ["eq 0 1"]))
            for k in range(2 if quick else 6):
                execs.append((hdr, random_cmds(rng, 30)))
    # containers over the type-erased any_std_allocator (no equality queries: any_std_allocator::operator== is the
    # listed finding F10, shown by the dedicated execution below)
    for c in ["vector", "deque", "list", "set", "map", "unordered_set"]:
        for e in ["E8_8", "E24_8"]:
            hdr = {"cont": c, "elem": e, "any": 1, "single": 1}
            for k in range(2 if quick else 8):
                execs.append((hdr, [x for x in conv(beh[rng.randrange(len(beh))]) if not x.startswith("eq")]))
            for k in range(2 if quick else 6):
                execs.append((hdr, [x for x in random_cmds(rng, 30) if not x.startswith(("eq", "spl"))]))
    hdr = {"cont": "string", "elem": "char"}
    for k in range(6 if quick else 40):
        execs.append((hdr, random_cmds(rng, 30)))
    execs.append(({"cont": "pool", "elem": "-", "n": 40}, []))
    execs.append(({"cont": "sharedeq", "elem": "-"}, []))  # shared allocators (joint_allocator) and operator!=
    execs.append(({"cont": "anyeq", "elem": "-"}, []))     # exhibits the listed open finding F10
    execs.append(({"cont": "pmreq", "elem": "-"}, []))     # memory_resource_adapter: equal only to itself
    # ... and what it does to a container: libstdc++ clears the target of a copy assignment before it takes the
    # source's allocator only if the two allocators compare unequal; any_std_allocator compares equal always, so the
    # old nodes are released through the new allocator object (same finding F10, matched by the kf tag)
    execs.append(({"cont": "list", "elem": "E8_8", "any": 1, "kf": "F10"}, ["ins 0 3", "ins 1 2", "cas 0 1", "del 1", "del 0"]))
    return [Job("base", "containers", "ContainerTrace", execs, "containers")] + \
           ([Job("dbg", "containers", "ContainerTrace", execs[::3], "containers")] if not quick else [])


PROPS = {"C10": {"jobs": jobs_c10,
                 "rule": "operation sequences from the Propagate design model (one per transition) and seeded ones, for 12 container "
                         "kinds x 13 element types plus basic_string, and real pools sized with the library's node size constants; "
                         "non-trivial if at least one container operation was recorded"}}
