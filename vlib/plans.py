"""Per-property exploration plans for the properties decided through the `seq` driver and the
SeqTrace contract: which subjects, histories, configurations and fault positions are explored."""
import random
from . import gen
from .engine import Job

SEQ = ("seq", "SeqTrace")


def _batch(rng, scale, makers):
    """makers: list of (count, fn(rng) -> list of (hdr, cmds))"""
    execs = []
    for count, fn in makers:
        for _ in range(max(1, int(count * scale))):
            execs.extend(fn(rng))
    return execs


def pool_exec(n=60, **kw):
    def f(rng):
        h = gen.pool_header(rng, kw.get("ptype"), kw.get("src"))
        return [(h, gen.pool_cmds(rng, h, n, fail=kw.get("fail", False)))]
    return f


def coll_exec(n=70, **kw):
    def f(rng):
        h = gen.coll_header(rng, kw.get("ptype"), kw.get("bd"), kw.get("src"))
        return [(h, gen.coll_cmds(rng, h, n, fail=kw.get("fail", False)))]
    return f


def stack_exec(n=60, **kw):
    def f(rng):
        h = gen.stack_header(rng, kw.get("src"))
        return [(h, gen.stack_cmds(rng, h, n, fail=kw.get("fail", False)))]
    return f


def stack_replay_exec(**kw):
    def f(rng):
        h = gen.stack_header(rng, kw.get("src"))
        return [(h, gen.stack_replay_cmds(rng, h))]
    return f


def iter_exec(n=50, **kw):
    def f(rng):
        h = gen.iter_header(rng, kw.get("N"), kw.get("src"))
        return [(h, gen.iter_cmds(rng, h, n))]
    return f


def static_exec(n=25):
    def f(rng):
        return [(gen.static_header(rng), gen.static_cmds(rng, n))]
    return f


def moved(maker, p=0.08):
    def f(rng):
        return [(h, gen.with_moves(rng, cmds, p)) for h, cmds in maker(rng)]
    return f


def move_all_positions(maker, maxlen=14):
    def f(rng):
        out = []
        for h, cmds in maker(rng):
            cmds = cmds[:maxlen]
            for kind in ("mv", "ma"):
                out += gen.move_everywhere(h, cmds, kind, rng.randint(0, 1))
        return out
    return f


def fail_all_positions(maker, maxk=4):
    def f(rng):
        out = []
        for h, cmds in maker(rng):
            if h.get("src") == "static":
                continue
            out += gen.fail_everywhere(h, cmds, maxk)
        return out
    return f


def jobs_for(prop, tier, seed):
    rng = random.Random(seed * 1000003 + int(prop[1:]))
    s = 1.0 if tier == "quick" else 12.0
    J = []

    def add(cfgs, label, makers, scale=s):
        for cfg in cfgs:
            r = random.Random(rng.random())
            J.append(Job(cfg, SEQ[0], SEQ[1], _batch(r, scale, makers), label))

    if prop in ("C01", "C02"):
        add(["rel", "base", "dbg", "f16"], "pools", [(14, pool_exec()), (10, coll_exec())])
        add(["rel", "base", "dbg", "f16"], "stacks", [(8, stack_exec()), (8, iter_exec()), (2, static_exec()),
                                                      (3, stack_replay_exec())])
        add(["base", "dbg"], "moves", [(4, moved(pool_exec())), (3, moved(coll_exec())), (3, moved(stack_exec())),
                                       (2, moved(iter_exec()))])
    elif prop == "C03":
        add(["rel", "base", "dbg"], "exhaust", [(6, pool_exec(src="fixed", n=80)), (6, coll_exec(src="fixed", n=90)),
                                                (4, stack_exec(src="fixed", n=50)), (4, stack_exec(src="static", n=80)),
                                                (6, iter_exec(n=60)), (3, static_exec(40))])
        add(["base", "dbg"], "faults", [(3, fail_all_positions(pool_exec(n=40))), (3, fail_all_positions(coll_exec(n=40))),
                                        (3, fail_all_positions(stack_exec(n=40))), (2, fail_all_positions(iter_exec(n=10), 1))])
        add(["base"], "randfail", [(6, pool_exec(fail=True)), (6, coll_exec(fail=True)), (6, stack_exec(fail=True))])
    elif prop == "C04":
        add(["rel", "base", "dbg"], "pools", [(8, pool_exec(ptype="node", n=90)), (10, pool_exec(ptype="array", n=90)),
                                              (6, pool_exec(ptype="small", n=90))])
        add(["rel", "base", "dbg"], "colls", [(14, coll_exec(n=100))])
    elif prop == "C05":
        add(["rel", "base", "dbg"], "arena", [(6, pool_exec()), (6, coll_exec()), (8, stack_exec(n=80)), (4, iter_exec()),
                                              (4, stack_replay_exec())])
        add(["base", "dbg"], "moves", [(4, moved(pool_exec())), (4, moved(stack_exec())), (3, moved(coll_exec())),
                                       (3, moved(iter_exec()))])
        add(["base", "dbg"], "faults", [(3, fail_all_positions(pool_exec(n=40))), (3, fail_all_positions(stack_exec(n=50))),
                                        (3, fail_all_positions(coll_exec(n=40)))])
    elif prop == "C06":
        add(["rel", "base", "dbg", "f16"], "stack", [(14, stack_exec(n=90)), (10, stack_replay_exec())])
        add(["base", "dbg"], "moves", [(5, moved(stack_exec(n=60))), (3, moved(stack_replay_exec(), 0.05))])
    elif prop == "C07":
        add(["rel", "base", "dbg", "f16"], "iter", [(30, iter_exec(n=70))])
    elif prop == "C12":
        add(["rel", "base", "dbg"], "everypos", [(2, move_all_positions(pool_exec(n=12))), (2, move_all_positions(coll_exec(n=12))),
                                                 (2, move_all_positions(stack_exec(n=12))), (1, move_all_positions(iter_exec(n=10)))])
        add(["rel", "base", "dbg"], "random", [(6, moved(pool_exec(), 0.1)), (5, moved(coll_exec(), 0.1)),
                                               (5, moved(stack_exec(), 0.1)), (4, moved(iter_exec(), 0.1)),
                                               (3, moved(stack_replay_exec(), 0.06))])
    elif prop == "C15":
        def leaky(maker):
            def f(rng):
                out = []
                for h, cmds in maker(rng):
                    h = dict(h)
                    h["leak"] = rng.choice([0, 1, 1])
                    h["member"] = 0
                    out.append((h, cmds))
                return out
            return f
        add(["base", "dbg"], "leaks", [(10, leaky(pool_exec(n=40))), (8, leaky(coll_exec(n=40))), (8, leaky(stack_exec(n=40))),
                                       (5, leaky(moved(pool_exec(n=40), 0.1))), (4, leaky(moved(stack_exec(n=40), 0.1))),
                                       (4, leaky(moved(coll_exec(n=40), 0.1)))])
        add(["rel"], "nochecker", [(4, leaky(pool_exec(n=30))), (3, leaky(stack_exec(n=30)))])
    elif prop == "C18":
        add(["rel", "base", "dbg", "f16"], "counters", [(8, pool_exec()), (6, coll_exec()), (8, stack_exec()), (6, iter_exec()),
                                                        (2, static_exec())])
    else:
        raise KeyError(prop)
    return J
