"""Per-property exploration plans for the properties decided through the `seq` driver and the
SeqTrace contract: which subjects, histories, configurations and fault positions are explored."""
import random
from . import gen
from .engine import Job

SEQ = ("seq", "SeqTrace")


def _batch(rng, scale, makers):
    """makers: list of (count, fn(rng) -> list of (hdr, cmds))"""
    execs = []
    for count, fn in makers:
        for _ in range(max(1, int(count * scale))):
            execs.extend(fn(rng))
    return execs


def pool_exec(n=60, **kw):
    def f(rng):
        h = gen.pool_header(rng, kw.get("ptype"), kw.get("src"))
        return [(h, gen.pool_cmds(rng, h, n, fail=kw.get("fail", False)))]
    return f


def coll_exec(n=70, **kw):
    def f(rng):
        h = gen.coll_header(rng, kw.get("ptype"), kw.get("bd"), kw.get("src"))
        return [(h, gen.coll_cmds(rng, h, n, fail=kw.get("fail", False)))]
    return f


def coll_fill_exec(**kw):
    """a collection whose buckets are filled until the block is used up several times over: the rest of every
    block goes to the bucket that asked (insert_rest), the next reservation comes from a fresh block"""
    def f(rng):
        h = gen.coll_header(rng, kw.get("ptype"), kw.get("bd"), "grow")
        # (the constructor requires max_node_size <= block_size / number of buckets; small node lists need a
        # chunk header per reservation on top of that, see F25: their sizes stay as coll_header chose them)
        if h["type"] != "small":
            if h["bd"] == "identity":
                h["ns"] = rng.choice([16, 24])
                h["bs"] = rng.choice([1500, 2000, 2500, 3000])
            else:
                h["ns"] = rng.choice([32, 48, 64])
                h["bs"] = rng.choice([700, 1000, 1234, 1500, 2000, 3000])
        sizes = [s for s in (8, 16, 24, 32, 48, 64) if s <= h["ns"]]
        fav = rng.sample(sizes, min(2, len(sizes)))
        cmds = []
        for _ in range(3 * h["bs"] // min(fav) // 2 + 10):
            sz = rng.choice(fav)
            cmds.append("an %d %d" % (sz, gen.alignment_for(sz)))
            if rng.random() < 0.1:
                cmds.append("d %d" % rng.randint(0, 40))
        cmds += ["sweep"] + ["drain %d" % x for x in fav]
        return [(h, cmds)]
    return f


def coll_small_try_exec():
    """small-node collections filled through the composable interface only (what fallback / segregator compositions
    use): the rest of the block goes bucket by bucket through insert_rest, buckets refill after they ran empty"""
    def f(rng):
        h = {"fam": "coll", "type": "small", "bd": "identity", "src": rng.choice(["fixed", "fixed", "grow"]),
             "ns": rng.choice([2, 3, 4, 8]), "bs": rng.choice([3000, 4096, 5000]), "place": rng.choice(["lo", "hi"]),
             "member": rng.choice([0, 1])}
        sizes = list(range(1, h["ns"] + 1))
        cmds = []
        for rnd in range(rng.randint(2, 4)):
            for sz in rng.sample(sizes, len(sizes)):
                for _ in range(rng.choice([40, 150, 300, 600])):
                    cmds.append("tn %d 1" % sz)
                cmds.append("sweep")
            for _ in range(rng.randint(0, 30)):
                cmds.append("td %d" % rng.randint(0, 500))
        cmds.append("sweep")
        return [(h, cmds)]
    return f


def coll_try_tail_exec():
    """node / array collections driven through the composable interface until every bucket has refused: the tail of
    the block goes to whichever bucket asks first (insert_rest on the try_ path), later buckets find what is left"""
    def f(rng):
        bd = rng.choice(["identity", "log2"])
        h = {"fam": "coll", "type": rng.choice(["node", "array"]), "bd": bd, "src": rng.choice(["fixed", "fixed", "grow"]),
             "ns": rng.choice([12, 16, 24, 32]) if bd == "identity" else rng.choice([32, 64, 100]),
             "bs": rng.choice([1024, 1500, 2048, 3000, 4096]) if bd == "log2" else rng.choice([2048, 3000, 4096]),
             "place": rng.choice(["lo", "hi"]), "member": rng.choice([0, 1])}
        sizes = [x for x in (8, 9, 12, 16, 17, 24, 31, 32, 33, 64, 100) if x <= h["ns"]]
        cmds = []
        for rnd in range(rng.randint(2, 3)):
            for sz in rng.sample(sizes, len(sizes)):
                for _ in range(rng.choice([10, 40, 120])):
                    cmds.append("tn %d 1" % sz)
                if rng.random() < 0.3:
                    cmds.append("ta %d %d 1" % (rng.choice([2, 3, 5]), sz))
                cmds.append("sweep")
            for _ in range(rng.randint(0, 30)):
                cmds.append("td %d" % rng.randint(0, 300))
        cmds.append("sweep")
        return [(h, cmds)]
    return f


def coll_max_exec():
    """array requests at and just below / above what the collection reports as max_array_size(), with element sizes
    that round up to bigger bucket nodes (F26, F27)"""
    def f(rng):
        h = gen.coll_header(rng, rng.choice(["node", "array"]), None, "grow")
        sizes = [s for s in (7, 9, 15, 17, 31, 33, 63, 65, 100) if s <= h["ns"]]
        cmds = []
        for _ in range(rng.randint(2, 6)):
            sz = rng.choice(sizes)
            cmds.append("an %d 1" % sz)
            cmds.append("aam %d %d 1" % (sz, rng.choice([-2, -1, -1, 0, 0, 1])))
            if rng.random() < 0.5:
                cmds.append("da %d" % rng.randint(0, 5))
        return [(h, cmds)]
    return f


def stack_exec(n=60, **kw):
    def f(rng):
        h = gen.stack_header(rng, kw.get("src"))
        return [(h, gen.stack_cmds(rng, h, n, fail=kw.get("fail", False)))]
    return f


def stack_growth_align_exec():
    """over-aligned requests that force a growth, sized around next_capacity(): the fit check of the growth path has to
    use the padding the NEW block needs (old top and new block start differ in their residue modulo the alignment)"""
    def f(rng):
        bs = rng.choice([200, 256, 1000, 1008, 1024])
        h = {"fam": "stack", "src": rng.choice(["grow", "grow", "fixed"]), "place": rng.choice(["lo", "hi"]), "member": 0, "bs": bs}
        if rng.random() < 0.3:
            h["down"] = 1
        al = rng.choice([32, 64, 64])
        out = []
        # the old top is aligned for the request (padding 0) / has some other residue
        for pre in (["an %d %d" % (al, al)], ["an 8 8"], ["an %d %d" % (al, al), "an 24 8"], ["an 40 8"]):
            for d in (0, 8, 16, 24, 32, 40, 48, 56):
                out.append((h, pre + ["anr %d %d" % (d, al), "an 8 8"] + pre[:1] + ["anr %d %d" % (d + 8, al), "an 8 8", "sweep", "d 0", "d 0"]))
        return out
    return f


def stack_replay_exec(**kw):
    def f(rng):
        h = gen.stack_header(rng, kw.get("src"))
        return [(h, gen.stack_replay_cmds(rng, h))]
    return f


def iter_exec(n=50, **kw):
    def f(rng):
        h = gen.iter_header(rng, kw.get("N"), kw.get("src"))
        return [(h, gen.iter_cmds(rng, h, n))]
    return f


def arena_exec(n=40, **kw):
    def f(rng):
        h = gen.arena_header(rng, kw.get("src"))
        return [(h, gen.arena_cmds(rng, n, fail=kw.get("fail", False), moves=kw.get("moves", True)))]
    return f


def static_exec(n=25):
    def f(rng):
        return [(gen.static_header(rng), gen.static_cmds(rng, n))]
    return f


def static_handover_exec():
    """a small fixed storage changes hands (move construction / assignment at a random point) and is then used
    up: the new owner refuses at the end of the storage it took over - not earlier, not later"""
    def f(rng):
        bs = rng.choice([256, 512, 1024])
        if rng.random() < 0.5:
            h = {"fam": "stack", "src": "static", "place": rng.choice(["lo", "hi"]), "member": 0, "ssz": 2048, "bs": bs}
            one = "an %d 8" % (bs // 3)
        else:
            ns = rng.choice([16, 32, 64])
            h = {"fam": "pool", "type": rng.choice(["node", "array", "small"]), "src": "static", "ns": ns,
                 "place": rng.choice(["lo", "hi"]), "member": 0, "ssz": 2048, "bs": bs}
            one = "an %d 8" % ns
        if rng.random() < 0.5:     # the assignment target has another block size: it has to come along
            h["tbs"] = rng.choice([x for x in (256, 512, 1024) if x != bs])
        per_block = max(1, (bs - 32) // (bs // 3 if h["fam"] == "stack" else h["ns"]))
        before = rng.randint(0, per_block * (2048 // bs))
        cmds = [one] * before + ["%s %d" % (rng.choice(["ma", "ma", "mv"]), rng.randint(0, 1)), "kz"]
        cmds += [one] * (per_block * (2048 // bs) + 3 - before)
        if rng.random() < 0.5:
            cmds += ["%s %d" % (rng.choice(["ma", "mv"]), rng.randint(0, 1)), "kz"] + [one] * 3
        cmds += ["nofail", "sweep"] + ["d 0"] * 6
        return [(h, cmds)]
    return f


def moved(maker, p=0.08):
    def f(rng):
        # every second execution assigns onto targets built with other parameters (node size, block size)
        return [(gen.alt_target(rng, h) if rng.random() < 0.5 else h, gen.with_moves(rng, cmds, p)) for h, cmds in maker(rng)]
    return f


def move_all_positions(maker, maxlen=14):
    def f(rng):
        out = []
        for h, cmds in maker(rng):
            cmds = cmds[:maxlen]
            for kind in ("mv", "ma"):
                out += gen.move_everywhere(h, cmds, kind, rng.randint(0, 1))
        return out
    return f


def move_chains(maker, maxlen=12):
    def f(rng):
        out = []
        for h, cmds in maker(rng):
            out += gen.move_chain_everywhere(h, cmds[:maxlen], rng.randint(0, 1))
        return out
    return f


def fail_all_positions(maker, maxk=4):
    def f(rng):
        out = []
        for h, cmds in maker(rng):
            if h.get("src") == "static":
                continue
            out += gen.fail_everywhere(h, cmds, maxk)
        return out
    return f


# ---- behaviours generated by TLC from the design models, replayed on the real code ------------------
def _expect_freelist(h, ns, first_slot, hdr=16):
    """offsets the design model predicts for the successive allocations of behaviour h (single block)"""
    return [hdr + (c["res"] - first_slot) * ns for c in h if c["op"] in ("an", "aa") and c.get("res", -1) >= 0]


def _conv_freelist(h, ns):
    out = []
    for c in h:
        if c["op"] == "an":
            out.append("an %d %d" % (ns, 8 if ns % 8 == 0 else 1))
        elif c["op"] == "aa":      # k halves of a node
            out.append("aa %d %d %d" % (c["k"], ns // 2, 8 if (ns // 2) % 8 == 0 else 1))
        elif c["op"] == "da":
            out.append("da %d" % c["k"])
        elif c["op"] == "mv":
            out.append("mv 0")
    return out


def _conv_stack(h, scale):
    out = []
    for c in h:
        if c["op"] in ("an", "tn"):
            out.append("%s %d %d" % (c["op"], c["a"] * scale, c["b"]))
        elif c["op"] == "mk":
            out.append("mk")
        elif c["op"] == "uw":
            out.append("uw %d" % c["a"])
        elif c["op"] == "sh":
            out.append("sh")
    return out


def _conv_iter(h, scale):
    return [("an %d 1" % (c["a"] * scale)) if c["op"] == "an" else "ni" for c in h]


_BEH_CACHE = {}


def model_execs(kind, limit, seed):
    """(header, cmds) executions derived from TLC behaviours of the design model `kind`"""
    from . import models
    key = (kind, limit, seed)
    if key in _BEH_CACHE:
        return _BEH_CACHE[key]
    res = []
    if kind == "ordered":      # array_pool always uses the ordered list; node_pool in dbg too
        beh, _ = models.behaviours("FreeListOrdered", "MCOrd_gen.cfg", limit, seed)
        for i, h in enumerate(beh):
            hdr = {"fam": "pool", "type": "array", "src": "grow", "ns": 16, "nodes": 6, "extra": 0,
                   "place": "lo" if i % 2 else "hi", "member": 0, "tag": "tlc-ordered",
                   "expect": ",".join("0:%d" % v for v in _expect_freelist(h, 16, 10)) or "-"}
            res.append((hdr, _conv_freelist(h, 16)))
    elif kind == "lifo":
        beh, _ = models.behaviours("FreeListLIFO", "MCLifo_gen.cfg", limit, seed)
        for i, h in enumerate(beh):
            hdr = {"fam": "pool", "type": "node", "src": "grow", "ns": 16, "nodes": 5, "extra": 0,
                   "place": "lo" if i % 2 else "hi", "member": 0, "tag": "tlc-lifo",
                   "expect": ",".join("0:%d" % v for v in _expect_freelist(h, 16, 10)) or "-"}
            res.append((hdr, _conv_freelist(h, 16)))
    elif kind == "small":
        beh, _ = models.behaviours("FreeListSmall", "MCSmall_gen.cfg", limit, seed)
        for i, h in enumerate(beh):
            hdr = {"fam": "pool", "type": "small", "src": "grow", "ns": 4, "nodes": 2, "extra": 0,
                   "place": "lo" if i % 2 else "hi", "member": 0, "tag": "tlc-small"}
            res.append((hdr, _conv_freelist(h, 4)))
    elif kind == "stack":
        # the Gen configuration uses the block sizes of a real memory_stack(24): the model predicts the
        # block and offset of every allocation (configurations without fences)
        beh, _ = models.behaviours("MCStack", "MCStack_gen.cfg", limit, seed)
        for i, h in enumerate(beh):
            exp = ["%d:%d" % (c["rb"] - 1, 16 + c["ro"]) for c in h if c["op"] in ("an", "tn") and c.get("rb", -1) >= 0]
            hdr = {"fam": "stack", "src": "grow", "bs": 24, "place": "lo" if i % 2 else "hi", "member": i % 3 == 0 and 1 or 0,
                   "tag": "tlc-stack", "expect": ",".join(exp) or "-", "nofence": 1}
            res.append((hdr, _conv_stack(h, 1)))
    elif kind == "iter":
        beh, _ = models.behaviours("Iteration", "MCIter_gen.cfg", limit, seed)
        for i, h in enumerate(beh):
            exp = ["0:%d" % c["res"] for c in h if c["op"] == "an" and c.get("res", -1) >= 0]
            hdr = {"fam": "iter", "N": 3, "src": "grow", "bs": 10, "place": "lo" if i % 2 else "hi", "member": 0,
                   "tag": "tlc-iter", "expect": ",".join(exp) or "-", "nofence": 1}
            res.append((hdr, _conv_iter(h, 1)))
    elif kind in ("arena_c", "arena_u"):
        # memory_arena driven along the behaviours of the Arena design model (one object, refusing source included):
        # the model predicts which block every allocate_block returns
        cached = kind == "arena_c"
        beh, _ = models.behaviours("Arena", "MCArena_gen_cached.cfg" if cached else "MCArena_gen_uncached.cfg", limit, seed)
        for i, h in enumerate(beh):
            cmds, exp = [], []
            for c in h:
                if c["op"] == "alloc_block":
                    if c["res"] == 0:
                        cmds += ["fail 1", "ab", "nofail"]
                    else:
                        cmds.append("ab")
                        exp.append("%d:16" % (c["res"] - 1))
                elif c["op"] == "dealloc_block":
                    cmds.append("db")
                elif c["op"] == "shrink":
                    cmds.append("sh")
            hdr = {"fam": "arena", "src": ["grow", "virtual", "static"][i % 3] if not cached or i % 2 else "grow", "cached": 1 if cached else 0,
                   "place": "lo" if i % 2 else "hi", "tag": "tlc-arena", "expect": ",".join(exp) or "-"}
            hdr["bs"] = 1024 if hdr["src"] == "static" else 4096 if hdr["src"] == "virtual" else 64
            res.append((hdr, cmds))
    elif kind == "virtual":
        # an uncached memory_arena over virtual_block_allocator driven along the histories of the VirtualBlocks
        # design model (refused commits included): the model predicts every commit / decommit / release the
        # operating system sees
        beh, _ = models.behaviours("MCVirtualGen", "MCVirtual_gen.cfg", limit, seed)
        for i, h in enumerate(beh):
            cmds, exp, out = [], [], []
            for c in h:
                if c["op"] == "ab":
                    cmds.append("ab")
                    exp.append("c%d" % c["blk"])
                    out.append(c["blk"])
                elif c["op"] == "abf":
                    cmds += ["fail 1", "ab", "nofail"]
                    exp.append("x%d" % c["blk"])
                else:
                    cmds.append("db")
                    exp.append("d%d" % c["blk"])
                    out.pop()
            # destruction: the arena gives the outstanding blocks back youngest first, the source releases its range
            exp += ["d%d" % b for b in reversed(out)] + ["r0"]
            res.append(({"fam": "arena", "src": "virtual", "cached": 0, "bs": 4096, "place": "lo" if i % 2 else "hi",
                         "tag": "tlc-virtual", "vmexpect": ".".join(exp)}, cmds))
    elif kind == "coll":
        # every sequence the PoolCollection model distinguishes (two buckets, throwing and composable requests,
        # releases by age) on a real two-bucket collection over one fixed block: the reservations, insert_rest
        # and the exhaustion of the block are reached systematically.  No address prediction (the model leaves
        # the choice of the node to the free list); the contract judges.
        beh, _ = models.behaviours("MCPoolCollection", "MCPC_gen.cfg", limit, seed)
        for i, h in enumerate(beh):
            cmds = []
            for c in h:
                sz = 8 if c["k"] == 1 else 16
                if c["op"] in ("an", "tn"):
                    cmds.append("%s %d 8" % (c["op"], sz))
                elif c["op"] == "d":
                    cmds.append("d %d" % c["k"])
            hdr = {"fam": "coll", "type": "node" if i % 2 else "array", "bd": "log2", "src": "fixed", "ns": 16,
                   "bs": 150 + 8 * (i % 7), "place": "lo" if i % 2 else "hi", "member": 1 if i % 3 == 0 else 0, "tag": "tlc-coll"}
            res.append((hdr, cmds))
    _BEH_CACHE[key] = res
    return res


def with_move_at_every_position(execs, rng, maxn):
    out = []
    for h, cmds in execs[:maxn]:
        for kind in ("mv", "ma"):
            out += gen.move_everywhere(h, cmds, kind, rng.randint(0, 1))
    return out


THOROUGH_SCALE = {"C01": 20.0, "C02": 20.0, "C03": 120.0, "C04": 100.0, "C05": 150.0, "C06": 150.0, "C07": 150.0, "C12": 90.0,
                  "C15": 150.0, "C18": 60.0}


def jobs_for(prop, tier, seed):
    rng = random.Random(seed * 1000003 + int(prop[1:]))
    # thorough tier: executions per scenario multiplied so that every property runs for some minutes on 16 cores
    s = 1.0 if tier == "quick" else THOROUGH_SCALE.get(prop, 40.0)
    J = []

    def add(cfgs, label, makers, scale=s):
        for cfg in cfgs:
            r = random.Random(rng.random())
            J.append(Job(cfg, SEQ[0], SEQ[1], _batch(r, scale, makers), label))

    if prop in ("C01", "C02"):
        add(["rel", "base", "dbg", "f16"], "pools", [(14, pool_exec()), (10, coll_exec()), (4, coll_fill_exec()), (3, coll_small_try_exec()), (3, coll_try_tail_exec())])
        add(["rel", "base", "dbg", "f16"], "stacks", [(8, stack_exec()), (8, iter_exec()), (2, static_exec()),
                                                      (3, stack_replay_exec())])
        add(["rel", "base", "dbg", "f16"], "growalign", [(2, stack_growth_align_exec())], scale=min(s, 4.0))
        add(["base", "dbg"], "moves", [(4, moved(pool_exec())), (3, moved(coll_exec())), (3, moved(stack_exec())),
                                       (2, moved(iter_exec()))])
        # fixed storages that change hands: the new owner must stay inside the storage it took over
        add(["rel", "dbg"], "static", [(3, moved(stack_exec(src="static", n=70), 0.06)), (3, moved(pool_exec(src="static", n=90), 0.06)),
                                       (2, arena_exec(src="static", n=50)), (6, static_handover_exec())])
        # arrays around the reported maxima (the last-resort reservation of a collection)
        add(["rel", "base"], "maxima", [(6, coll_max_exec())])
    elif prop == "C03":
        add(["rel", "base", "dbg"], "exhaust", [(6, pool_exec(src="fixed", n=80)), (6, coll_exec(src="fixed", n=90)),
                                                (4, stack_exec(src="fixed", n=50)), (4, stack_exec(src="static", n=80)),
                                                (6, iter_exec(n=60)), (3, static_exec(40))])
        add(["base", "dbg"], "faults", [(3, fail_all_positions(pool_exec(n=40))), (3, fail_all_positions(coll_exec(n=40))),
                                        (3, fail_all_positions(stack_exec(n=40))), (2, fail_all_positions(iter_exec(n=10), 1))])
        add(["base"], "randfail", [(6, pool_exec(fail=True)), (6, coll_exec(fail=True)), (6, stack_exec(fail=True))])
        add(["rel", "dbg", "f16"], "maxima", [(8, coll_max_exec())])
        add(["rel", "base", "dbg"], "arena", [(6, arena_exec(fail=True)), (8, arena_exec(src="fixed", fail=True, n=30)),
                                              (2, fail_all_positions(arena_exec(src="fixed", n=14, moves=False))),
                                              (2, fail_all_positions(arena_exec(src="grow", n=14, moves=False)))])
    elif prop == "C04":
        add(["rel", "base", "dbg"], "pools", [(8, pool_exec(ptype="node", n=90)), (10, pool_exec(ptype="array", n=90)),
                                              (6, pool_exec(ptype="small", n=90))])
        add(["rel", "base", "dbg"], "colls", [(14, coll_exec(n=100))])
        # a pool that was moved (all nodes handed out, some, none) takes its nodes back and hands them out again
        add(["rel", "base", "dbg"], "moves", [(5, moved(pool_exec(n=60), 0.1)), (3, moved(coll_exec(n=60), 0.1)),
                                              (1, move_all_positions(pool_exec(ptype="small", n=10))),
                                              (1, move_all_positions(pool_exec(ptype="node", n=10)))])
    elif prop == "C05":
        add(["rel", "base", "dbg"], "arena", [(6, pool_exec()), (6, coll_exec()), (8, stack_exec(n=80)), (4, iter_exec()),
                                              (4, stack_replay_exec())])
        add(["rel", "base", "dbg"], "direct", [(14, arena_exec()), (6, arena_exec(fail=True)), (4, arena_exec(src="static", n=60))])
        add(["base", "dbg"], "moves", [(4, moved(pool_exec())), (4, moved(stack_exec())), (3, moved(coll_exec())),
                                       (3, moved(iter_exec()))])
        add(["base", "dbg"], "faults", [(3, fail_all_positions(pool_exec(n=40))), (3, fail_all_positions(stack_exec(n=50))),
                                        (3, fail_all_positions(coll_exec(n=40)))])
    elif prop == "C06":
        add(["rel", "base", "dbg", "f16"], "stack", [(14, stack_exec(n=90)), (10, stack_replay_exec())])
        add(["base", "dbg"], "moves", [(5, moved(stack_exec(n=60))), (3, moved(stack_replay_exec(), 0.05))])
    elif prop == "C07":
        add(["rel", "base", "dbg", "f16"], "iter", [(30, iter_exec(n=70))])
        add(["base", "dbg"], "moves", [(8, moved(iter_exec(n=50), 0.08))])
    elif prop == "C12":
        add(["rel", "base", "dbg"], "everypos", [(2, move_all_positions(pool_exec(n=12))), (2, move_all_positions(coll_exec(n=12))),
                                                 (2, move_all_positions(stack_exec(n=12))), (1, move_all_positions(iter_exec(n=10)))])
        # the moved-from object is assigned to (mz), at every position, for every pool type / collection / stack
        add(["rel", "base", "dbg"], "chains", [(3, move_chains(pool_exec(n=12))), (2, move_chains(coll_exec(n=12))),
                                               (2, move_chains(stack_exec(n=12))), (1, move_chains(iter_exec(n=10)))])
        add(["rel", "base", "dbg"], "arena", [(10, arena_exec(n=50))])
        # fixed storages: after a move or swap the new owner has to run into the end of the SOURCE's storage
        add(["rel", "base", "dbg"], "static", [(5, moved(stack_exec(src="static", n=70), 0.06)), (5, moved(pool_exec(src="static", n=90), 0.06)),
                                               (4, arena_exec(src="static", n=50)), (6, static_handover_exec())])
        add(["rel", "base", "dbg"], "random", [(6, moved(pool_exec(), 0.1)), (5, moved(coll_exec(), 0.1)),
                                               (5, moved(stack_exec(), 0.1)), (4, moved(iter_exec(), 0.1)),
                                               (3, moved(stack_replay_exec(), 0.06))])
    elif prop == "C15":
        def leaky(maker):
            def f(rng):
                out = []
                for h, cmds in maker(rng):
                    h = dict(h)
                    h["leak"] = rng.choice([0, 1, 1])
                    h["member"] = 0
                    out.append((h, cmds))
                return out
            return f
        add(["base", "dbg"], "leaks", [(10, leaky(pool_exec(n=40))), (8, leaky(coll_exec(n=40))), (8, leaky(stack_exec(n=40))),
                                       (5, leaky(moved(pool_exec(n=40), 0.1))), (4, leaky(moved(stack_exec(n=40), 0.1))),
                                       (4, leaky(moved(coll_exec(n=40), 0.1)))])
        add(["rel"], "nochecker", [(4, leaky(pool_exec(n=30))), (3, leaky(stack_exec(n=30)))])
    elif prop == "C18":
        add(["rel", "base", "dbg", "f16"], "counters", [(8, pool_exec()), (6, coll_exec()), (8, stack_exec()), (6, iter_exec()),
                                                        (2, static_exec()), (6, arena_exec(moves=False))])
        add(["rel", "base", "dbg", "f16"], "maxima", [(6, coll_max_exec()), (6, coll_try_tail_exec())])
        add(["rel", "base", "dbg", "f16"], "growalign", [(2, stack_growth_align_exec())], scale=min(s, 4.0))
        # a request that fails because the upstream refuses must leave every figure as it was
        add(["rel", "base", "dbg"], "faults", [(4, pool_exec(fail=True)), (4, coll_exec(fail=True)), (5, stack_exec(fail=True)),
                                               (2, fail_all_positions(stack_exec(n=30))), (2, fail_all_positions(pool_exec(n=30)))])
    else:
        raise KeyError(prop)

    # TLC-generated behaviours (one per transition of the design model's state graph, sampled in quick)
    lim = 120 if tier == "quick" else 2500
    def addm(cfgs, kinds, label="tlc"):
        for cfg in cfgs:
            execs = []
            for k in kinds:
                if k == "lifo" and cfg == "dbg":
                    continue  # node pools use the ordered list there
                e = model_execs(k, lim, seed)
                if k == "ordered" and cfg == "dbg":
                    e = e + [(dict(h, type="node"), c) for h, c in e[: len(e) // 2]]
                execs += e
            if execs:
                J.append(Job(cfg, SEQ[0], SEQ[1], execs, label))
    if prop == "C01":
        # dedicated reproducer of the listed open finding F25 (see known_findings.json)
        J.append(Job("base", SEQ[0], SEQ[1], [({"fam": "coll", "type": "small", "bd": "log2", "src": "grow", "ns": 100, "bs": 1024,
                                                "place": "lo", "member": 1, "kf": "F25"}, ["an 65 1"])], "known"))
    if prop in ("C01", "C04"):
        addm(["rel", "base", "dbg"], ["ordered", "lifo", "small"])
    if prop in ("C01", "C03", "C04"):
        addm(["rel", "base", "dbg"], ["coll"], "tlc-coll")
    if prop in ("C05", "C03", "C18"):
        addm(["rel", "base", "dbg"], ["arena_c", "arena_u"], "tlc-arena")
    if prop in ("C05", "C03"):
        addm(["rel", "base", "dbg"], ["virtual"], "tlc-virtual")
    if prop in ("C01", "C02", "C06"):
        addm(["base", "dbg", "f16"], ["stack"])
    if prop in ("C01", "C07"):
        addm(["base", "dbg"], ["iter"])
    if prop == "C12":
        r2 = random.Random(seed + 77)
        n = 12 if tier == "quick" else 80
        for cfg in ("base", "dbg"):
            execs = []
            for k in ("ordered", "lifo", "small", "stack", "iter"):
                if k == "lifo" and cfg == "dbg":
                    continue
                execs += with_move_at_every_position(model_execs(k, lim, seed), r2, n)
            J.append(Job(cfg, SEQ[0], SEQ[1], execs, "tlc-moves"))
    return J
