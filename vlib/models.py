"""Design models (spec/design): exhaustive TLC runs that belong to each property's check.

A ModelRun names a module, a configuration file and what is expected:
  expect="ok"       the invariants of the configuration hold on every reachable state
  expect="witness"  the configuration checks INVARIANT ~Witness and TLC must report it violated,
                    i.e. the interesting situation is reachable within the constants (guards against
                    vacuous models)
The result (distinct states, generated states = transitions examined) goes into the evidence."""
import os, json, hashlib, re
from concurrent.futures import ThreadPoolExecutor
from .common import *
from . import tlc

DESIGN_DIR = os.path.join(SPEC, "design")


class ModelRun:
    def __init__(self, module, cfg, expect="ok", tier="quick", workers=4, heap="6g", timeout=1800, subdir=None):
        self.module, self.cfg, self.expect, self.tier = module, cfg, expect, tier
        self.workers, self.heap, self.timeout = workers, heap, timeout
        self.dir = os.path.join(SPEC, subdir) if subdir else DESIGN_DIR


class ApalacheRun:
    """inductive-invariant check with Apalache: Init => Inv (length 0), Inv /\\ Next => Inv' (length 1),
    Inv => each property (length 0).  Unbounded in the integers of the model, for the constants of CInit."""
    def __init__(self, module, cinit, init, indinv, props, tier="thorough", timeout=900):
        self.module, self.cinit, self.init, self.indinv, self.props, self.tier, self.timeout = module, cinit, init, indinv, props, tier, timeout
        self.cfg, self.expect, self.dir = "apalache:" + indinv, "ok", DESIGN_DIR


def _run_apalache(m):
    import tempfile, shutil, time
    t0 = time.time()
    out_dir = tempfile.mkdtemp(prefix="apalache-", dir=WORK)
    steps = [(m.init, m.indinv, 0), (m.indinv, m.indinv, 1)] + [(m.indinv, p, 0) for p in m.props]
    ok, tail = True, ""
    try:
        for init, inv, length in steps:
            rc, out = run(["apalache-mc", "check", "--out-dir=" + out_dir, "--cinit=" + m.cinit, "--init=" + init, "--inv=" + inv,
                           "--length=%d" % length, m.module + ".tla"], cwd=m.dir, timeout=m.timeout)
            tail = out[-1500:]
            if rc != 0 or "EXITCODE: OK" not in out:
                if "EXITCODE: ERROR (12)" in out or "violat" in out.lower():
                    ok = False
                    break
                raise InfraError("apalache failed on %s (%s => %s):\n%s" % (m.module, init, inv, out[-2000:]))
    finally:
        shutil.rmtree(out_dir, ignore_errors=True)
    return {"module": m.module, "cfg": m.cfg, "expect": "ok", "outcome": "ok" if ok else "violated", "as_expected": ok,
            "distinct": 0, "generated": 0, "obligations": len(steps), "wall_s": round(time.time() - t0, 2), "tail": tail}


def _run(m):
    if isinstance(m, ApalacheRun):
        return _run_apalache(m)
    r = tlc.check_model(m.dir, m.module, m.cfg, workers=m.workers, timeout=m.timeout, heap=m.heap)
    out = r["out"]
    if r["rc"] == 0:
        outcome = "ok"
    elif "Invariant" in out and "is violated" in out or "violated" in out and r["rc"] in (12, 13):
        outcome = "violated"
    else:
        raise InfraError("TLC failed on %s/%s (rc=%d):\n%s" % (m.module, m.cfg, r["rc"], out[-3000:]))
    exp_outcome = "ok" if m.expect == "ok" else "violated"
    return {"module": m.module, "cfg": m.cfg, "expect": m.expect, "outcome": outcome,
            "as_expected": outcome == exp_outcome, "distinct": r["distinct"], "generated": r["generated"],
            "wall_s": round(r["wall_s"], 2), "tail": out[-2500:]}


def run_models(model_runs, tier):
    runs = [m for m in model_runs if m.tier == "quick" or tier == "thorough"]
    if not runs:
        return []
    os.makedirs(WORK, exist_ok=True)
    with ThreadPoolExecutor(max_workers=4) as ex:
        return list(ex.map(_run, runs))


def write_model_replay(prop, m):
    os.makedirs(os.path.join(REPLAYS, prop), exist_ok=True)
    path = os.path.join(REPLAYS, prop, "model-%s-%s.json" % (m["module"], m["cfg"].replace(".cfg", "")))
    with open(path, "w") as f:
        json.dump({"property": prop, "kind": "design-model", **{k: m[k] for k in m if k != "tail"}, "tlc_output_tail": m["tail"]}, f, indent=1)
    return path


_BEH = re.compile(r'<<"BEHAVIOUR", "(.*)">>\s*$')


def behaviours(module, cfg, limit=None, seed=1, subdir=None):
    """Runs the Gen configuration of a design model (ACTION_CONSTRAINT Emit prints the command
    history of every generated transition) and returns the behaviours as lists of dicts.  With a
    limit, the longest behaviours that are not a prefix of another one are preferred and the rest
    is sampled with `seed`."""
    import random
    d = os.path.join(SPEC, subdir) if subdir else DESIGN_DIR
    r = tlc.check_model(d, module, cfg, workers=1, timeout=900, heap="4g")
    if r["rc"] != 0:
        raise InfraError("behaviour emission failed for %s/%s:\n%s" % (module, cfg, r["out"][-2000:]))
    seen, out = set(), []
    for line in r["out"].splitlines():
        m = _BEH.search(line)
        if m:
            js = json.loads('"' + m.group(1) + '"')
            if js not in seen:
                seen.add(js)
                out.append(json.loads(js))
    if limit and len(out) > limit:
        keys = {json.dumps(b) for b in out}
        prefixes = {json.dumps(b[:-1]) for b in out}
        leaves = [b for b in out if json.dumps(b) not in prefixes]
        rng = random.Random(seed)
        rng.shuffle(leaves)
        pick = leaves[:limit]
        if len(pick) < limit:
            rest = [b for b in out if json.dumps(b) in prefixes]
            rng.shuffle(rest)
            pick += rest[:limit - len(pick)]
        out = pick
    return out, {"module": module, "cfg": cfg, "emitted": len(seen), "distinct": r["distinct"], "generated": r["generated"]}


def M(module, cfg, expect="ok", tier="quick", **kw):
    return ModelRun(module, cfg, expect, tier, **kw)


FREELIST = [M("FreeListOrdered", "MCOrd_above.cfg"), M("FreeListOrdered", "MCOrd_below.cfg"),
            M("FreeListOrdered", "MCOrd_two_below.cfg", tier="thorough"), M("FreeListOrdered", "MCOrd_two_above.cfg", tier="thorough"),
            M("FreeListOrdered", "MCOrd_regress_proxy.cfg", "witness"), M("FreeListOrdered", "MCOrd_regress_ceil.cfg", "witness"),
            M("FreeListOrdered", "MCOrd_wit_cache_end.cfg", "witness"), M("FreeListOrdered", "MCOrd_wit_array_mid.cfg", "witness"),
            M("FreeListLIFO", "MCLifo.cfg"), M("FreeListLIFO", "MCLifo_two.cfg", tier="thorough"),
            M("FreeListLIFO", "MCLifo_regress_ceil.cfg", "witness"), M("FreeListLIFO", "MCLifo_wit.cfg", "witness"),
            M("FreeListSmall", "MCSmall_2x3.cfg"), M("FreeListSmall", "MCSmall_3x2.cfg", tier="thorough"),
            M("FreeListSmall", "MCSmall_wit_all.cfg", "witness")]
COLL = [M("MCPoolCollection", "MCPC_fixed.cfg"), M("MCPoolCollection", "MCPC_grow.cfg"),
        M("MCPoolCollection", "MCPC_three.cfg", tier="thorough", workers=8, heap="12g"),
        M("MCPoolCollection", "MCPC_regress_dup.cfg", "witness"), M("MCPoolCollection", "MCPC_regress_crash.cfg", "witness"),
        M("MCPoolCollection", "MCPC_wit_rest.cfg", "witness"), M("MCPoolCollection", "MCPC_wit_null.cfg", "witness")]
ARENA = [M("Arena", "MCArena_cached.cfg"), M("Arena", "MCArena_uncached.cfg"), M("Arena", "MCArena_regress_order.cfg", "witness"),
         M("Arena", "MCArena_wit_shrink.cfg", "witness"), M("Arena", "MCArena_wit_fail.cfg", "witness")]
STACK = [M("MCStack", "MCStack_f0.cfg"), M("MCStack", "MCStack_f1.cfg"), M("MCStack", "MCStack_regress_drop.cfg", "witness"),
         M("MCStack", "MCStack_wit_two.cfg", "witness"), M("MCStack", "MCStack_wit_end.cfg", "witness"),
         M("MCStack", "MCStack_wit_throw.cfg", "witness")]
ITER = [M("Iteration", "MCIter_%s.cfg" % k) for k in ("1_7", "2_9", "3_10", "3_11", "4_10")] + \
       [M("Iteration", "MCIter_5_13.cfg", tier="thorough"), M("Iteration", "MCIter_regress_ctor.cfg", "witness"),
        M("Iteration", "MCIter_wit_cycle.cfg", "witness"), M("Iteration", "MCIter_wit_full.cfg", "witness")]
MOVE = [M("FreeListSmall", "MCSmall_regress_move.cfg", "witness"), M("FreeListSmall", "MCSmall_2x3.cfg"), M("Arena", "MCArena_cached.cfg"),
        M("Arena", "MCArena_uncached.cfg")]

COMPOSE = [M("MCCompose", "MCCompose_t%d_%s.cfg" % (t, a), tier="quick" if (t, a) in ((1, "ArrAll"), (2, "ArrAll"), (3, "ArrNone2")) else "thorough")
           for t in (1, 2, 3) for a in ("ArrAll", "ArrNone1", "ArrNone2")] + \
          [M("MCCompose", "MCCompose_regress_f6.cfg", "witness"), M("MCCompose", "MCCompose_wit.cfg", "witness")] + \
          [M("MCCompose", "MCCompose_%s.cfg" % c) for c in ("seg2", "seg3", "segfb", "segn")] + \
          [M("MCCompose", "MCCompose_%s.cfg" % c, "witness") for c in ("seg_regress_bysize", "seg_wit_third", "seg_wit_both")]
LEAK = [M("LeakCounter", "MCLeak.cfg"), M("LeakCounter", "MCLeak_regress_rmw.cfg", "witness"),
        M("LeakCounter", "MCLeak_regress_move.cfg", "witness"), M("LeakCounter", "MCLeak_wit.cfg", "witness")]

# property -> design model runs
MODELS = {
    "C01": FREELIST + COLL + STACK[:2] + ITER[:4],
    "C02": STACK[:2] + [STACK[4]],
    "C03": COLL + [STACK[0], STACK[5]] + [ARENA[0], ARENA[4]],
    "C04": FREELIST + COLL[:2],
    "C05": ARENA + [M("VirtualBlocks", "MCVirtual_ok.cfg"), M("VirtualBlocks", "MCVirtual_cursor.cfg", "witness"),
                    M("VirtualBlocks", "MCVirtual_decommit.cfg", "witness"), M("VirtualBlocks", "MCVirtual_full.cfg", "witness")],
    "C06": STACK,
    "C07": ITER,
    "C12": MOVE,
    "C15": LEAK,
    "C08": COMPOSE,
    "C09": COMPOSE,
    "C18": [STACK[0], ITER[2]],
    "C14": [M("TempStackList", "MCTemp_3x2.cfg"), M("TempStackList", "MCTemp_2x3.cfg"), M("TempStackList", "MCTemp_3x3.cfg"),
            M("TempStackList", "MCTemp_4x2.cfg", tier="thorough", workers=8), M("TempStackList", "MCTemp_4x3.cfg", tier="thorough", workers=16),
            M("TempStackList", "MCTemp_regress_push.cfg", "witness"), M("TempStackList", "MCTemp_wit_pushretry.cfg", "witness"),
            M("TempStackList", "MCTemp_regress_release.cfg", "witness"),
            M("TempMode1", "MCTempMode1_ok.cfg"), M("TempMode1", "MCTempMode1_regress.cfg", "witness"),
            M("TempMode1", "MCTempMode1_wit.cfg", "witness"),
            M("TempStackList", "MCTemp_regress_uninit.cfg", "witness"), M("TempStackList", "MCTemp_regress_detector.cfg", "witness"),
            M("TempStackList", "MCTemp_regress_nifty.cfg", "witness"), M("TempStackList", "MCTemp_regress_cas.cfg", "witness"),
            M("TempStackList", "MCTemp_wit_adopt.cfg", "witness"), M("TempStackList", "MCTemp_wit_race.cfg", "witness"),
            ApalacheRun("TempAdoptInd", "CInit", "Init", "IndInv", ["NoShare", "OwnedInUse"])],
    "C10": [M("Propagate", "MCProp.cfg"), M("Propagate", "MCProp_noprop.cfg"), M("Propagate", "MCProp_regress_swap.cfg", "witness"),
            M("Propagate", "MCProp_regress_eq.cfg", "witness"), M("Propagate", "MCProp_wit.cfg", "witness")],
    "C13": [M("Storage", "MCStorage.cfg"), M("Storage", "MCStorage_regress.cfg", "witness"), M("Storage", "MCStorage_wit.cfg", "witness")] + LEAK
           + [ApalacheRun("StorageInd", "CInit", "Init", "IndInv", ["AtMostOneInside", "NoLostUpdate"])],
}

# C19 / table part of C18 (plans_tables.py): arithmetic definitions vs. bit tricks, min_block_size layout
MODELS.setdefault("C19", []).extend([
    ModelRun("Arith", "MCArith.cfg"), ModelRun("Arith", "MCArith_loop16.cfg"),
    ModelRun("Arith", "MCArith_wit_wrap.cfg", "witness"), ModelRun("Arith", "MCArith_wit_cap.cfg", "witness"),
    ModelRun("Arith", "MCArith_regress_noclamp.cfg", "witness")])
MODELS.setdefault("C18T", []).extend([
    ModelRun("SmallLayout", "MCSmallLayout.cfg"), ModelRun("SmallLayout", "MCSmallLayout_full.cfg", tier="thorough"),
    ModelRun("SmallLayout", "MCSmallLayout_regress_F16.cfg", "witness"),
    ModelRun("SmallLayout", "MCSmallLayout_wit_buffer.cfg", "witness")])

# C17 (plans_lowlevel.py): fence check on release as debug_fill_free / debug_is_filled do it
MODELS.setdefault("C17", []).extend([
    ModelRun("Fence", "MCFence.cfg"),
    ModelRun("Fence", "MCFence_less.cfg", "witness"), ModelRun("Fence", "MCFence_backonly.cfg", "witness"),
    ModelRun("Fence", "MCFence_W1.cfg", "witness"), ModelRun("Fence", "MCFence_W2.cfg", "witness")])
# C16 (plans_lowlevel.py): two-ended chunk search of small_free_memory_list::deallocate; the F18
# configuration is the transcription of the loop before the repair and must be found non-terminating
MODELS.setdefault("C16", []).extend([
    ModelRun("SmallChunkSearch", "MCSmallChunkSearch.cfg"),
    ModelRun("SmallChunkSearch", "MCSmallChunkSearch_F18.cfg", "witness"),
    ModelRun("SmallChunkSearch", "MCSmallChunkSearch_W1.cfg", "witness"),
    ModelRun("SmallChunkSearch", "MCSmallChunkSearch_W2.cfg", "witness"),
    ModelRun("SmallChunkSearch", "MCSmallChunkSearch_W3.cfg", "witness")])

# C20 (plans_construct.py): rollback mechanisms of the object-creating helpers (smart_ptr.hpp detail::construct,
# raw_ptr guard, joint_array::builder, joint_ptr::create), n = 0..4 x every throw position.  "witness"
# = the configuration's invariant must be VIOLATED: reachability witness, seeded-defect regressions, and the
# design-level statement of finding D1 (~builder does not unwind when the first element throws).
MODELS.setdefault("C20", []).extend([
    ModelRun("Construct", "MCConstruct.cfg"), ModelRun("Construct", "MCConstruct_16.cfg", tier="thorough"),
    ModelRun("Construct", "MCConstruct_witness.cfg", "witness"),
    ModelRun("Construct", "MCConstruct_first.cfg", "witness"),
    ModelRun("Construct", "MCConstruct_bug_rollback_one_too_few.cfg", "witness"),
    ModelRun("Construct", "MCConstruct_bug_create_no_dealloc.cfg", "witness")])
# C11 (plans_construct.py): joint stack bump allocation with capacity check, last-allocation-only release,
# release with sizeof(T)+capacity, clone sized by capacity_used.  MCJoint_clone_residue / _empty state the
# findings D2 / D3 (clone_joint under-sizes the copy) and must be violated while they exist.
MODELS.setdefault("C11", []).extend([
    ModelRun("Joint", "MCJoint.cfg"), ModelRun("Joint", "MCJoint_raw.cfg"),
    ModelRun("Joint", "MCJoint_big.cfg", tier="thorough"), ModelRun("Joint", "MCJoint_raw_big.cfg", tier="thorough"),
    ModelRun("Joint", "MCJoint_witness.cfg", "witness"), ModelRun("Joint", "MCJoint_witness_reuse.cfg", "witness"),
    ModelRun("Joint", "MCJoint_witness_overflow.cfg", "witness"),
    ModelRun("Joint", "MCJoint_clone_residue.cfg", "witness"), ModelRun("Joint", "MCJoint_clone_empty.cfg", "witness"),
    ModelRun("Joint", "MCJoint_bug_bound_off_by_one.cfg", "witness"), ModelRun("Joint", "MCJoint_bug_always_unwind.cfg", "witness"),
    ModelRun("Joint", "MCJoint_bug_release_sizeof_only.cfg", "witness"),
    ModelRun("Joint", "MCJoint_bug_alignment_dropped.cfg", "witness")])
