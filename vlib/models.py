"""Design models (spec/design): exhaustive TLC runs that belong to each property's check.

A ModelRun names a module, a configuration file and what is expected:
  expect="ok"       the invariants of the configuration hold on every reachable state
  expect="witness"  the configuration checks INVARIANT ~Witness and TLC must report it violated,
                    i.e. the interesting situation is reachable within the constants (guards against
                    vacuous models)
The result (distinct states, generated states = transitions examined) goes into the evidence."""
import os, json, hashlib
from concurrent.futures import ThreadPoolExecutor
from .common import *
from . import tlc

DESIGN_DIR = os.path.join(SPEC, "design")


class ModelRun:
    def __init__(self, module, cfg, expect="ok", tier="quick", workers=4, heap="6g", timeout=1800, subdir=None):
        self.module, self.cfg, self.expect, self.tier = module, cfg, expect, tier
        self.workers, self.heap, self.timeout = workers, heap, timeout
        self.dir = os.path.join(SPEC, subdir) if subdir else DESIGN_DIR


def _run(m):
    r = tlc.check_model(m.dir, m.module, m.cfg, workers=m.workers, timeout=m.timeout, heap=m.heap)
    out = r["out"]
    if r["rc"] == 0:
        outcome = "ok"
    elif "Invariant" in out and "is violated" in out or "violated" in out and r["rc"] in (12, 13):
        outcome = "violated"
    else:
        raise InfraError("TLC failed on %s/%s (rc=%d):\n%s" % (m.module, m.cfg, r["rc"], out[-3000:]))
    exp_outcome = "ok" if m.expect == "ok" else "violated"
    return {"module": m.module, "cfg": m.cfg, "expect": m.expect, "outcome": outcome,
            "as_expected": outcome == exp_outcome, "distinct": r["distinct"], "generated": r["generated"],
            "wall_s": round(r["wall_s"], 2), "tail": out[-2500:]}


def run_models(model_runs, tier):
    runs = [m for m in model_runs if m.tier == "quick" or tier == "thorough"]
    if not runs:
        return []
    os.makedirs(WORK, exist_ok=True)
    with ThreadPoolExecutor(max_workers=4) as ex:
        return list(ex.map(_run, runs))


def write_model_replay(prop, m):
    os.makedirs(os.path.join(REPLAYS, prop), exist_ok=True)
    path = os.path.join(REPLAYS, prop, "model-%s-%s.json" % (m["module"], m["cfg"].replace(".cfg", "")))
    with open(path, "w") as f:
        json.dump({"property": prop, "kind": "design-model", **{k: m[k] for k in m if k != "tail"}, "tlc_output_tail": m["tail"]}, f, indent=1)
    return path


# property -> design model runs (filled below as models are written)
MODELS = {}
