"""vcheck: command line of the verification machinery.

  vcheck setup                         build all configurations, parse all TLA+ modules
  vcheck run <Cxx> [--tier quick|thorough]
  vcheck replay <path>
"""
import os, sys, json, time, argparse, traceback
from .common import *
from . import build, tlc, engine, plans


def seed_from_env():
    try:
        return int(os.environ.get("VERIF_SEED", "1"))
    except ValueError:
        return 1


def write_evidence(prop, tier, seed, level, coverage, wall, violations, assumptions):
    os.makedirs(EVIDENCE, exist_ok=True)
    ev = {"property_id": prop, "tier": tier, "seed": seed, "level": level, "coverage": coverage,
          "assumptions": assumptions, "wall_s": round(wall, 2), "violations": violations}
    with open(os.path.join(EVIDENCE, prop + ".json"), "w") as f:
        json.dump(ev, f, indent=1)


def _shorten(v, n=8):
    """long result tables are cut in samples (the evidence file is a description, not an archive)"""
    if isinstance(v, list):
        return [_shorten(i, n) for i in v[:n]] + (["... %d more" % (len(v) - n)] if len(v) > n else [])
    if isinstance(v, dict):
        return {k: _shorten(i, n) for k, i in v.items()}
    return v


def sample_of(job, k=0):
    h, cmds = job.execs[k]
    ev = []
    with open(job.trace) as f:
        xn = -1
        for ln in f:
            if ln.startswith('{"e":"x"'):
                xn += 1
            if xn == k:
                ev.append(_shorten(json.loads(ln)))
            if xn > k or len(ev) >= 12:
                break
    return {"cfg": job.cfg, "header": h, "commands": cmds[:25], "first_events": ev}


# guards of another property that a check reports as its own: a LIFO block source that reports a valid return of a
# block as an invalid pointer (C16/ValidReleaseNeverReported) did not get "each block back unchanged" from its own
# point of view, which is what C05 is about
# ... and a moved / swapped allocator that then hands out memory it does not own, overlaps live memory or runs over
# its fixed storage (C01, C03 guards) did not "transfer all its memory" (C12)
# ... and a stack / iteration allocator that hands out memory overlapping what is still live (C01 guards) after
# unwinding or switching did not keep "everything allocated before the marker valid" (C06, C07)
# ("Cxx" = every guard of that property, "Cxx/Rule" = one guard.)  C01 names temporary_allocator among the allocator
# kinds and C05 the temporary block source: their checks run the temp driver too and report its overlap / content /
# block-return guards; C03 runs fallback compositions (try_ functions never throw, never grow); C05 runs the deeply
# tracked library allocators (every block goes back to the source)
# ... and C02 ("non-null memory of the full size") reports a throwing function that returned null; C01 ("inside
# owned memory") a fixed storage that was overrun; C03 names joint memory among the fixed sources: its check runs the
# joint-memory exhaustion scenarios of the construct driver and reports writes outside the joint block
# ... C09 names the smart-pointer helpers: its check runs them with throwing constructors (driver `construct`) and
# reports memory that did not go back as it was taken; C10 names unique_ptr / shared_ptr: its check runs the smart
# pointer operations of the compose driver and reports C09's release guards; C12 covers "any stateful allocator":
# its check moves the adapters too (same guards) and reports a moved-from object that raises a leak report; C17 demands
# fills "without touching neighbouring live memory": its check runs joint allocations between fences
ALSO_RULES_OF = {"C02": ("C03/ThrowingNeverNull",),
                 "C09": ("C20/MemoryReturnedSameShape",),
                 "C10": ("C09/ReleaseSameShape", "C09/ReleaseOnce", "C09/EverythingReleasedToLeaves"),
                 "C17": ("C11/NoWriteOutsideBlock", "C11/PieceAligned"),
                 # "the bucket chosen for a size always has nodes at least that large": on real collections the node holds
                 # the size (C01 / C02 guards) and a free node of the bucket is handed out
                 "C19": ("C01", "C02", "C04/FreeNodeIsUsable"),
                 # "counters change by exactly the amount an operation consumes or returns": C04's accounting guards say that
                 "C18": ("C04/CapacityMovesByTaken", "C04/DeallocReturnsWhatWasTaken", "C04/ReportedCapacityIsUsable", "C04/FailureKeepsCapacity"),
                 "C05": ("C16", "C14/AllFreedAtExit", "C14/ShrinkRequestReturnsBlocks", "C14/BlocksKeptForReuse", "C09/UpstreamBlocksReturnedAtEnd"), "C12": ("C01", "C03", "C15/MovedFromSilent", "C09/ReleaseSameShape", "C09/ReleaseOnce", "C09/EverythingReleasedToLeaves"),
                 "C06": ("C01", "C14/BlocksKeptForReuse", "C14/ScopeRestoresStack", "C14/ShrinkRequestReturnsBlocks"), "C07": ("C01",), "C03": ("C01", "C11/NoWriteOutsideBlock", "C11/PieceAfterObjectInsideBlock",
                         # "a failed request leaves ... the allocator able to serve later valid requests": it leaves the
                         # figures that decide about later requests as they were
                         "C18/FailedRequestKeepsNextCapacity", "C18/FailedRequestKeepsCapacity"),
                 "C01": ("C03/FixedStorageNeverOverrun", "C14/TemporaryMemoryDisjoint", "C14/ContentIntactUntilScopeEnds", "C14/NoTwoLiveThreadsShareAStack",
                         "C14/CasResultAsModel", "C14/HeldStackMarkedInUse")}


def run_trace_property(prop, tier, seed, jobs, model_runs=(), assumptions=None, rule=None):
    """Generic check: run the jobs (driver + TLC trace validation against a contract), run the
    design-model checks of the property, attribute violations, confirm, write evidence."""
    t0 = time.time()
    from . import models
    mres = models.run_models(model_runs, tier)
    engine.run_jobs(jobs, prop)
    # in every scenario the histories are valid: a report of the library's invalid-pointer / buffer-overflow handler
    # means that the operation under test misbehaved, whichever property the scenario belongs to
    violations, known, others, infra = engine.attribute(
        jobs, prop, also=("ANY", "C16/ValidReleaseNeverReported", "C17/InBoundsNeverReported") + ALSO_RULES_OF.get(prop, ()))
    if infra:
        for r in infra[:5]:
            log("[infra] %s" % json.dumps(r["v"]))
        raise InfraError("harness/contract mismatch (%d records)" % len(infra))
    wdir = os.path.join(WORK, prop)
    reported = []
    seen_rules = {}
    for rec in sorted(violations, key=lambda r: (r["v"]["rule"], len(r["cmds"]))):
        key = (rec["v"]["prop"], rec["v"]["rule"], rec["job"].cfg)
        if seen_rules.get(key, 0) >= 2:
            continue
        if engine.confirm(rec, prop, wdir):
            seen_rules[key] = seen_rules.get(key, 0) + 1
            reported.append((rec, engine.write_replay(rec, prop)))
        else:
            log("[unreproduced] %s" % json.dumps(rec["v"]))
    st = engine.exec_stats(jobs)
    conf = engine.conformance(jobs)
    if conf["executions_with_model_prediction"]:
        if conf["matched"] != conf["executions_with_model_prediction"]:
            for d in conf["drift_samples"][:3]:
                print("DRIFT design-model prediction differs: cfg=%s tag=%s expected=%s observed=%s"
                      % (d["cfg"], d["header"].get("tag"), d["expected"], d["observed"]))
        print("[%s] design-model conformance: %d of %d model-generated executions behaved exactly as the design model predicts (addresses / schedules)"
              % (prop, conf["matched"], conf["executions_with_model_prediction"]))
    kf_seen = {}
    for kf, v, job, xn in known:
        kf_seen.setdefault(kf["id"], kf)
    for kf in kf_seen.values():
        if kf["property"] == prop or prop in kf.get("also", []):
            print("KNOWN-FINDING: property=%s %s (%s)" % (prop, kf["what"], kf["id"]))
    rules = {}
    for job in jobs:
        for v in job.verdict["viol"]:
            rules[v["prop"] + "/" + v["rule"]] = rules.get(v["prop"] + "/" + v["rule"], 0) + 1
    model_violations = []
    for m in mres:
        if not m["as_expected"]:
            model_violations.append(m)
    coverage = {
        "states": sum(m["distinct"] for m in mres) + sum(j.stats.get("tlc_states", 0) for j in jobs),
        "transitions": sum(m["generated"] for m in mres) + st["events"],
        "design_models": [{k: m[k] for k in ("module", "cfg", "expect", "outcome", "distinct", "generated", "wall_s", "as_expected")} for m in mres],
        "trace_validation_states": sum(j.stats.get("tlc_states", 0) for j in jobs),
        "design_model_conformance": conf,
        "traces_validated_against_impl": st["executions"],
        "evaluations": st["executions"],
        "distinct_nontrivial": st["distinct_nontrivial"],
        "rule": rule or "seeded command scripts per subject family and configuration (vlib/plans*.py); an execution counts as "
                "non-trivial if at least one operation succeeded; distinct by hash of configuration+script",
        "samples": [sample_of(jobs[0]), sample_of(jobs[-1])],
        "events_judged": st["events"],
        "configs": sorted({j.cfg for j in jobs}),
        "configs_left_out_because_they_do_not_build": sorted(engine.SKIPPED_CONFIGS),
        "false_guards_by_rule_including_known_and_other_properties": rules,
        "known_findings_seen": sorted(kf_seen),
        "exhaustive": False,
    }
    write_evidence(prop, tier, seed, "model_checking", coverage, time.time() - t0, len(reported) + len(model_violations),
                   assumptions or
                   ["TLC evaluates the contract module on traces recorded by the harness drivers from the real library",
                    "the instrumented upstream allocator and the drivers' bookkeeping are trusted",
                    "explored histories are bounded samples; design models are exhaustive only within their constants; see DESIGN.md"])
    for m in model_violations:
        path = models.write_model_replay(prop, m)
        print("  design model %s/%s: expected %s, got %s" % (m["module"], m["cfg"], m["expect"], m["outcome"]))
        print("VIOLATION property=%s replay=%s" % (prop, path))
    for rec, path in reported:
        print("  guard false: %s/%s cfg=%s info=%s" % (rec["v"]["prop"], rec["v"]["rule"], rec["job"].cfg, rec["v"]["info"]))
        print("VIOLATION property=%s replay=%s" % (prop, path))
    print("[%s] %s: %d executions, %d events, %d violations, %d known, %.1fs"
          % (prop, tier, st["executions"], st["events"], len(reported), len(kf_seen), time.time() - t0))
    return 1 if (reported or model_violations) else 0


def run_seq_property(prop, tier, seed):
    from . import models
    jobs = plans.jobs_for(prop, tier, seed)
    mods = list(models.MODELS.get(prop, ()))
    if prop in ("C01", "C02", "C05", "C15"):
        # the stateless low-level allocators (heap, malloc, new, virtual memory): driver `lowlevel`, contract FenceTrace
        from . import plans_lowlevel
        jobs += plans_lowlevel.history_jobs(prop, tier, seed, leak_only=(prop == "C15"))
    if prop in ("C01", "C05", "C06"):
        # temporary_allocator / temporary block source (driver `temp`): a reduced C14 plan (C06: a temporary allocator
        # is a marker on the temporary stack - when it ends the stack is as it was, the blocks it took stay cached)
        from . import plans_temp
        jobs += plans_temp.jobs_c14(prop, tier, seed, reduced=True)
    if prop == "C05":
        # the LIFO-only block sources refuse (report) a block that is not the youngest: driver `badcall`
        from . import plans_lowlevel
        jobs += plans_lowlevel.block_order_jobs(prop, tier, seed)
    if prop in ("C03", "C05"):
        from . import plans_compose
        jobs += plans_compose.extra_jobs(prop, tier, seed)
    if prop == "C12":
        from . import plans_compose
        jobs += plans_compose.extra_jobs(prop, tier, seed)
    if prop == "C03":
        # joint memory is one of the fixed sources C03 names: exact fit, one byte / one element short, the
        # element-by-element range constructor running out (driver `construct`, contract ConstructTrace)
        from . import plans_construct
        jobs += plans_construct.jobs_c03(prop, tier, seed)
    if prop == "C18":      # the table part: min_block_size suffices (driver `tables`, contract TablesTrace)
        from . import plans_tables
        jobs += plans_tables.jobs("C18", tier, seed)
        mods += list(models.MODELS.get("C18T", ()))
    return run_trace_property(prop, tier, seed, jobs, mods)


SEQ_PROPS = {"C01", "C02", "C03", "C04", "C05", "C06", "C07", "C12", "C15", "C18"}


def cmd_run(args):
    prop = args.prop
    tier = args.tier or os.environ.get("VERIF_TIER", "quick")
    seed = seed_from_env()
    os.makedirs(WORK, exist_ok=True)
    if prop in SEQ_PROPS:
        return run_seq_property(prop, tier, seed)
    from . import registry
    if prop in registry.PROPS:
        from . import models
        spec = registry.PROPS[prop]
        jobs = spec["jobs"](prop, tier, seed)
        # scenarios of another driver that the property's text covers as well (see ALSO_RULES_OF)
        if prop == "C09":
            from . import plans_construct
            jobs += plans_construct.jobs_c09(prop, tier, seed)
        if prop == "C10":
            from . import plans_compose
            jobs += plans_compose.extra_jobs(prop, tier, seed)
        if prop == "C17":
            from . import plans_construct
            jobs += plans_construct.jobs_c17(prop, tier, seed)
        return run_trace_property(prop, tier, seed, jobs, models.MODELS.get(prop, ()),
                                  spec.get("assumptions"), spec.get("rule"))
    raise InfraError("no check registered for " + prop)


def cmd_setup(args):
    os.makedirs(WORK, exist_ok=True)
    for cfg in build.SETUP_CONFIGS:
        build.ensure_build(cfg)
    bad = 0
    for d, dn, fn in os.walk(SPEC):
        for f in sorted(fn):
            if f.endswith(".tla"):
                rc, out = run(["java", "-Djava.io.tmpdir=" + WORK, "-cp", tlc.TLA_CP, "tla2sany.SANY", f], cwd=d, timeout=120)
                if rc != 0 or "error" in out.lower().replace("0 error", ""):
                    log("[sany] %s FAILED\n%s" % (f, out[-1500:]))
                    bad += 1
    if bad:
        raise InfraError("%d TLA+ modules do not parse" % bad)
    print("setup ok")
    return 0


def main(argv=None):
    ap = argparse.ArgumentParser(prog="vcheck")
    sub = ap.add_subparsers(dest="cmd", required=True)
    sub.add_parser("setup")
    r = sub.add_parser("run")
    r.add_argument("prop")
    r.add_argument("--tier", choices=["quick", "thorough"])
    p = sub.add_parser("replay")
    p.add_argument("path")
    args = ap.parse_args(argv)
    try:
        if args.cmd == "setup":
            return cmd_setup(args)
        if args.cmd == "run":
            return cmd_run(args)
        if args.cmd == "replay":
            os.makedirs(WORK, exist_ok=True)
            return engine.replay(args.path)
    except InfraError as e:
        log("INFRASTRUCTURE ERROR: %s" % e)
        return 2
    except Exception:
        traceback.print_exc()
        return 2
