"""Generates MANIFEST.json from the table of registered checks (single source of truth)."""
import json, os
from .common import ROOT

CHECKS = {
    "C01": ("SeqTrace contract (InsideOwned, DisjointFromLive, ContentIntact*, NoWriteOutsideOwnedBlocks) on recorded executions of every stateful allocator", "9 C01"),
    "C02": ("SeqTrace contract (Aligned, FullSizeUsable) on recorded executions", "9 C02"),
    "C03": ("SeqTrace contract (ThrowingNeverNull, TryNeverThrows, TryNeverGrows, ThrowIsLibraryFamily, HandlerCalledFirst) with exhaustion and upstream faults at every position", "9 C03"),
    "C04": ("SeqTrace contract (CapacityMovesByTaken, DeallocReturnsWhatWasTaken, NoGrowthWhileNodeFree, FullReleaseRestoresCapacity)", "9 C04"),
    "C05": ("SeqTrace contract (UpFreeReverseOrder, UpFreeSameSizeAlign, NoUnknownOrDoubleReturn, AllReturnedAtDestroy, CacheReusedBeforeUpstream, ShrinkEmptiesCache)", "9 C05"),
    "C06": ("SeqTrace contract (UnwindRestoresCapacity, ReplaySameAddresses, MarkerOrderConsistent, UnwoundBlocksCached)", "9 C06"),
    "C07": ("SeqTrace contract (LivesNIterations, SwitchRestoresFullCapacity, OtherRegionsUntouched, RegionsCoverNoMoreThanBlock)", "9 C07"),
    "C12": ("SeqTrace contract (MoveCtorNoUpstreamTraffic, AssignReleasesOldOnce, MovedFromIsHarmless, MovedFromReleasesNothing) with a move at every position", "9 C12"),
    "C15": ("SeqTrace contract (ReportIffNonZero, ReportAmountIsNet, MovedFromSilent, ReportOnlyAtDestroy)", "9 C15"),
    "C18": ("SeqTrace contract (AboveMaxNeverSucceeds, StackCapacityMovesExactly, pool counter guards) and TablesTrace contract (MinBlockSizeSuffices on the complete table node size x count per pool type, MinBlockSizeCapacityExact for stacks/arenas); SmallLayout design model", "9 C18"),
    "C08": ("SeqTrace contract (TryDeallocFalseForForeign, FalseChangesNothing, TryDeallocTrueForOwn: own, sibling and block-adjacent foreign pointers) and ForwardTrace contract (ReleaseSameLeaf, ReleaseSameShape, ReleasedToServingPool in fallback nests)", "9 C08"),
    "C09": ("ForwardTrace contract (OneLeafRequestPerRequest, LeafBytesAtLeast, LeafAlignAtLeast, ReleaseSameLeaf, ReleaseSameShape, ReleaseOnce, TrackerSeesEachSuccessOnce) over a catalogue of wrapper compositions on instrumented leaves", "9 C09"),
    "C13": ("LockTrace contract (EnterHoldsMutex, AtMostOneInside, MutexIsExclusive, UnlockByHolder, StatelessTakesNoLock, DisjointUnderConcurrency, StatelessNetExact) on single-threaded passes over every forwarding member and on multi-threaded stress; Storage design model for the interleavings", "9 C13"),
    "C19": ("TablesTrace contract (RoundUpIsLeastMultiple, AlignOffsetIsLeast, IsAlignedIffOffsetZero, AlignmentForIsLargestPow2Capped, Ilog2IsFloor, Ilog2CeilIsCeil, BucketHoldsSize, Log2BucketLessThanTwice, IdentityBucketExact) on complete result tables of the real functions (small domain complete, 64-bit boundary classes as limbs); Arith design model proves transcription = definition on a complete 13-bit machine", "9 C19"),
    "C14": ("TempTrace contract (ScopeRestoresStack, ContentIntactUntilScopeEnds, NoTwoLiveThreadsShareAStack, AdoptBeforeCreate, TemporaryMemoryDisjoint, AllFreedAtExit) on nested-scope histories, API-level interleavings and concurrent blocks interleaved at the guarded hook points by a seeded scheduler; TempStackList design model over all interleavings of 2-4 threads", "9 C14"),
    "C16": ("ReportTrace contract (BadReleaseReportedOrStopped, ReportedBeforeStateChange) on valid prefixes followed by one invalid release in a child process, SeqTrace ValidReleaseNeverReported on valid histories; SmallChunkSearch design model", "9 C16"),
    "C17": ("FenceTrace contract (OverflowReportedAtFirstDirtyByte, InBoundsNeverReported, FreshMemoryIsNewPattern, NeighboursUntouched, FencesExistWhenEnabled) with one byte written at every fence offset, system allocations observed through linker interposition; Fence design model", "9 C17"),
    "C10": ("ContainerTrace contract (ReleaseSameLeaf, ReleaseSameShape, BoundAsPropagationSays, EqIffInterchangeable, ContentsMatchTwin, NodeRequestWithinConstant, EveryNodeReturned) for 12 container kinds x 13 element types on two allocator objects; Propagate design model generates the operation sequences", "9 C10"),
    "C11": ("ConstructTrace contract (PieceAfterObjectInsideBlock, PiecesDisjoint, PieceAligned, OverflowThrowsFixedMemory, ObjectDestroyedOnce, BlockReleasedOnceSameSizeAlign, CloneIndependent); Joint design model", "9 C11"),
    "C20": ("ConstructTrace contract (EachConstructedDestroyedOnce, NoDestroyOfUnconstructed, MemoryReturnedSameShape, ExceptionPropagatesUnchanged, AllocatorUsableAfter, JointMemoryReturned) with a throw at every construction index; Construct design model", "9 C20"),
}

NOT_YET = {
}


def _hook_commits():
    import subprocess
    out = subprocess.run(["git", "-C", "/repo", "log", "--format=%H %s"], capture_output=True, text=True).stdout
    return [l.split()[0] for l in out.splitlines() if l.split(" ", 1)[1].startswith("verif hook")]


HOOK_COMMITS = _hook_commits()


def generate():
    checks = []
    for pid in sorted(CHECKS):
        tech, ref = CHECKS[pid]
        checks.append({
            "property_id": pid,
            "quick_cmd": "bin/vcheck run %s --tier quick" % pid,
            "thorough_cmd": "bin/vcheck run %s --tier thorough" % pid,
            "evidence_file": "evidence/%s.json" % pid,
            "replay_cmd_template": "bin/vcheck replay {path}",
            "engine": "vcheck",
            "level_claimed": {
                "category": "model_checking",
                "text": "Every clause of the property is a named guard of an explicit TLA+ contract specification; TLC replays "
                        "traces recorded from the real library (built from /repo's working tree in several debug "
                        "configurations, driven by seeded scripts, model-generated behaviours, upstream faults and moves at "
                        "every position) through the contract and reports every false guard. Bounded design models of the "
                        "mechanisms are checked exhaustively by TLC. " + tech,
                "design_ref": "DESIGN.md section " + ref,
            },
            "level_note": "Trusted: TLC, the harness drivers' observation function (instrumented upstream allocator, content "
                          "patterns, projection of pointers to block/offset), g++/cmake. Explored histories are bounded "
                          "samples, not all histories.",
            "technique": "TLA+ contract specification checked by TLC trace validation of recorded executions of the real code "
                         "(plus TLC-checked design models and model-generated behaviours)",
        })
    m = {
        "version": 1,
        "setup_cmd": "bin/vcheck setup",
        "hooks": {
            "guard": "FOONATHAN_MEMORY_VERIF",
            "enable": "harness/CMakeLists.txt: add_compile_definitions(FOONATHAN_MEMORY_VERIF=1) before add_subdirectory(/repo)",
            "baseline_off_cmd": "cmake -G Ninja -S /repo -B /repo/_build -DCMAKE_BUILD_TYPE=RelWithDebInfo -DFETCHCONTENT_TRY_FIND_PACKAGE_MODE=ALWAYS && cmake --build /repo/_build -j16 && ctest --test-dir /repo/_build -j8 --timeout 900",
            "source_commits": HOOK_COMMITS,
            "add_only": True,
        },
        "engines": [{"name": "vcheck", "path": "bin/vcheck", "serves_properties": sorted(CHECKS),
                     "kind_free_text": "python orchestrator: builds /repo + C++ drivers, generates scripts, records NDJSON traces, runs TLC (trace validation against spec/contract, exhaustive runs of spec/design)"}],
        "checks": checks,
        "not_applicable": [{"property_id": k, "reason": v} for k, v in sorted(NOT_YET.items())],
        "notes": "See DESIGN.md. known_findings.json lists genuine defects (fixed ones are documentation only).",
    }
    with open(os.path.join(ROOT, "MANIFEST.json"), "w") as f:
        json.dump(m, f, indent=1)
    return m


if __name__ == "__main__":
    generate()
