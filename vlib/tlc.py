"""Thin wrappers around TLC: trace validation against a contract module, exhaustive runs of design
models, and behaviour emission."""
import os, re, json, shutil, tempfile, time
from .common import *

_VERDICT = re.compile(r'<<"VERDICT", "(.*)">>\s*$')
_STATES = re.compile(r'(\d+) states generated, (\d+) distinct states found')


def _unescape(s):
    # TLC prints the JSON string as a TLA+ string literal: \" and \\ escaped
    return json.loads('"' + s + '"')


def validate_trace(module_dir, module, trace, timeout=1200, heap="4g"):
    """Replays `trace` through <module>.tla; returns (verdict dict, stats).  Raises InfraError if TLC
    did not consume the trace (a structural problem of the log or of the spec, not a verdict)."""
    md = tempfile.mkdtemp(prefix="tlc-md-", dir=WORK)
    t0 = time.time()
    try:
        for attempt in (1, 2):
            rc, out = run(["java", "-XX:+UseParallelGC", "-Xmx" + heap, "-Djava.io.tmpdir=" + md, "-cp", TLA_CP, "tlc2.TLC",
                           "-workers", "1", "-metadir", os.path.join(md, str(attempt)), "-noGenerateSpecTE",
                           "-config", module + ".cfg", module + ".tla"],
                          cwd=module_dir, env={"TRACE": trace}, timeout=timeout)
            verdict = None
            for line in out.splitlines():
                m = _VERDICT.search(line)
                if m:
                    verdict = json.loads(_unescape(m.group(1)))
            if verdict is not None and rc == 0:
                m = _STATES.search(out)
                return verdict, {"tlc_states": int(m.group(2)) if m else 0, "wall_s": time.time() - t0}
            if attempt == 2:
                raise InfraError("trace validation failed (rc=%d) for %s on %s:\n%s"
                                 % (rc, module, trace, out[-3000:]))
    finally:
        shutil.rmtree(md, ignore_errors=True)


def check_model(module_dir, module, cfgfile, workers=None, timeout=3600, heap="12g", extra=()):
    """Exhaustive TLC run.  Returns dict(rc, states, distinct, out).  rc 0 = no error,
    12 = invariant violated, other = error."""
    md = tempfile.mkdtemp(prefix="tlc-md-", dir=WORK)
    t0 = time.time()
    try:
        rc, out = run(["java", "-XX:+UseParallelGC", "-Xmx" + heap, "-Djava.io.tmpdir=" + md, "-cp", TLA_CP, "tlc2.TLC",
                       "-workers", str(workers or NCPU), "-metadir", md, "-noGenerateSpecTE", "-config", cfgfile] + list(extra)
                      + [module + ".tla"], cwd=module_dir, timeout=timeout)
        m = _STATES.search(out)
        return {"rc": rc, "generated": int(m.group(1)) if m else 0, "distinct": int(m.group(2)) if m else 0,
                "out": out, "wall_s": time.time() - t0}
    finally:
        shutil.rmtree(md, ignore_errors=True)


TLA_CP = os.environ.get("VERIF_TLA_CP", "")
if not TLA_CP:
    jar = "/opt/veriftools/tla/tla2tools.jar"
    cm = "/opt/veriftools/tla/CommunityModules-deps.jar"
    cands = [jar] + [os.path.join("/opt/veriftools/tla", f) for f in sorted(os.listdir("/opt/veriftools/tla"))
                     if f.endswith(".jar") and f != "tla2tools.jar"]
    TLA_CP = ":".join(cands)
