"""Seeded generators of command scripts for the `seq` driver.

A script is a list of executions; an execution is (header dict, [command strings]).  Commands are
inputs only (handles are addressed relatively: "d 3" releases the 3rd live allocation modulo the
number of live ones), so a script stays meaningful whatever the implementation answers.  Only
contract-respecting scripts are produced: sizes/alignments within the documented limits except
where a *reported* failure is the point (C03), same parameters on release, nested unwinds, no use
of moved-from objects."""
import random

POW2 = [1, 2, 4, 8, 16, 32, 64, 128, 256]


def alignment_for(size, cap=16):
    a = 1
    while a < cap and size % (a * 2) == 0:
        a *= 2
    return a


class Script:
    def __init__(self):
        self.execs = []  # (hdr dict, [cmds])

    def add(self, hdr, cmds, tag=None):
        h = dict(hdr)
        if tag:
            h["tag"] = tag
        self.execs.append((h, list(cmds)))

    def text(self):
        out = []
        for h, cmds in self.execs:
            out.append("X " + " ".join("%s=%s" % kv for kv in h.items()))
            out.extend(cmds)
        return "\n".join(out) + "\n"

    def __len__(self):
        return len(self.execs)


def exec_text(h, cmds):
    return "X " + " ".join("%s=%s" % kv for kv in h.items()) + "\n" + "\n".join(cmds) + "\n"


# ------------------------------------------------------------------------------------------------
def pool_header(rng, ptype=None, src=None):
    ptype = ptype or rng.choice(["node", "array", "small"])
    src = src or rng.choice(["grow", "grow", "fixed", "static", "virtual"])
    ns = rng.choice([1, 2, 3, 4, 5, 7, 8, 9, 12, 16, 17, 24, 32, 40, 48, 64, 100])
    h = {"fam": "pool", "type": ptype, "src": src, "ns": ns,
         "place": rng.choice(["lo", "hi"]), "member": 1 if rng.random() < 0.25 else 0}
    if src == "static":
        if ns > 64:
            h["ns"] = ns = 64
        h["bs"] = rng.choice([512, 1024, 2048, 4096])
        if rng.random() < 0.5:      # a small storage that a few blocks use up
            h["ssz"] = 2048
            h["bs"] = rng.choice([256, 512, 1024])
    elif src == "virtual":
        h["bs"] = 4096                     # one page per block, 6 blocks reserved
        h["ns"] = ns = rng.choice([64, 100, 200, 256, 500, 1000])   # few nodes per page so that blocks run out
    else:
        h["nodes"] = rng.choice([2, 3, 4, 5, 6, 8, 12, 20])
        h["extra"] = rng.choice([0, 0, 1, 7, 8, 15, 16, 33])
        if rng.random() < 0.3:
            h["down"] = 1
    return h


def around_max(rng, sz, arrays):
    """a request at or just beyond what allocator_traits reports as maximum (decided at run time)"""
    if rng.random() < 0.2:
        # the same with the library's default handlers selected through set_handler(nullptr)
        return "hnull\n" + around_max(rng, sz, arrays) + "\nhset"
    r = rng.random()
    if r < 0.4:
        return "anm %d %d" % (rng.choice([-1, 0, 1, 1, 2, 8, 1000]), rng.choice([1, 1, 8]))
    if r < 0.7 and arrays:
        return "aam %d %d %d" % (max(1, sz), rng.choice([-1, 0, 1, 1, 2, 50]), 1)
    return "anl %d %d" % (max(1, sz), rng.choice([1, 1, 2, 5]))


def pool_cmds(rng, h, n, arrays=None, tries=True, fail=False):
    ns = h["ns"]
    eff = ns if h["type"] == "small" else max(ns, 8)
    amax = alignment_for(eff)
    if arrays is None:
        arrays = h["type"] != "small"
    cmds = []
    for _ in range(n):
        r = rng.random()
        sz = ns if (h["member"] or rng.random() < 0.6) else rng.randint(1, ns)
        al = rng.choice([a for a in POW2 if a <= amax])
        if r < 0.34:
            cmds.append("an %d %d" % (sz, al))
        elif r < 0.46 and arrays:
            cnt = rng.choice([1, 2, 2, 3, 3, 4, 5, 7])
            cmds.append("aa %d %d %d" % (cnt, sz, al))
        elif r < 0.54 and tries:
            cmds.append("tn %d %d" % (sz, al))
        elif r < 0.58 and tries and arrays:
            cmds.append("ta %d %d %d" % (rng.choice([2, 3, 4]), sz, al))
        elif r < 0.80:
            cmds.append("d %d" % rng.randint(0, 40))
        elif r < 0.90:
            cmds.append("da %d" % rng.randint(0, 40))
        elif r < 0.95 and tries:
            cmds.append("td %d" % rng.randint(0, 40))
        elif r < 0.97:
            cmds.append("sweep")
        elif fail:
            cmds.append("fail %d" % rng.randint(1, 3))
        else:
            cmds.append("an %d %d" % (sz, al))
        if rng.random() < 0.04:
            cmds.append("drain %d" % ns)
        if rng.random() < 0.05:
            cmds += around_max(rng, ns, arrays).split("\n")
    cmds += ["nofail", "drain %d" % ns]
    return cmds


def coll_header(rng, ptype=None, bd=None, src=None):
    ptype = ptype or rng.choice(["node", "array", "small"])
    bd = bd or rng.choice(["identity", "log2"])
    src = src or rng.choice(["grow", "grow", "fixed"])
    if ptype == "small":
        # small node lists need a chunk header (and fences) per reservation on top of the node: keep
        # block size / number of buckets comfortably above that (the library's own constructor check
        # does not account for it: known finding F25)
        if bd == "identity":
            maxns = rng.choice([8, 12, 16])
            bs = rng.choice([4096, 6000, 8192])
        else:
            maxns = rng.choice([16, 32, 64])
            bs = rng.choice([4096, 5000, 8192])
    elif bd == "identity":
        maxns = rng.choice([8, 12, 16, 24, 32])
        bs = rng.choice([2048, 3000, 4096, 6000, 8192])
    else:
        maxns = rng.choice([16, 32, 64, 100, 128])
        bs = rng.choice([1024, 1500, 2048, 4096, 5000])
    h = {"fam": "coll", "type": ptype, "bd": bd, "src": src, "ns": maxns, "bs": bs,
         "place": rng.choice(["lo", "hi"]), "member": 1 if rng.random() < 0.25 else 0}
    if rng.random() < 0.3:
        h["down"] = 1
    return h


def coll_cmds(rng, h, n, arrays=None, tries=True, fail=False):
    cmds = _coll_cmds(rng, h, n, arrays, tries, fail)
    # memory_pool_collection::reserve(node_size, capacity) here and there (capacity below next_capacity())
    out = []
    for c in cmds:
        out.append(c)
        if rng.random() < 0.03:
            out.append("rsv %d %d" % (rng.randint(1, h["ns"]), rng.choice([16, 64, 100, 256, 300])))
    return out


def _coll_cmds(rng, h, n, arrays=None, tries=True, fail=False):
    maxns = h["ns"]
    if arrays is None:
        arrays = h["type"] != "small"
    sizes = sorted(set([1, 2, 3, 4, 7, 8, 9, 15, 16, 17, 31, 32, 33, 63, 64, 65, 100, 127, 128]) & set(range(1, maxns + 1)))
    fav = rng.sample(sizes, min(len(sizes), 3))
    cmds = []
    for _ in range(n):
        r = rng.random()
        sz = rng.choice(fav) if rng.random() < 0.8 else rng.choice(sizes)
        al = rng.choice([a for a in POW2 if a <= alignment_for(sz)])
        if r < 0.36:
            cmds.append("an %d %d" % (sz, al))
        elif r < 0.46 and arrays:
            cmds.append("aa %d %d %d" % (rng.choice([1, 2, 3, 4, 6]), sz, al))
        elif r < 0.56 and tries:
            cmds.append("tn %d %d" % (sz, al))
        elif r < 0.60 and tries and arrays:
            cmds.append("ta %d %d %d" % (rng.choice([2, 3]), sz, al))
        elif r < 0.82:
            cmds.append("d %d" % rng.randint(0, 40))
        elif r < 0.90:
            cmds.append("da %d" % rng.randint(0, 40))
        elif r < 0.95 and tries:
            cmds.append("td %d" % rng.randint(0, 40))
        elif r < 0.97:
            cmds.append("sweep")
        elif fail:
            cmds.append("fail %d" % rng.randint(1, 2))
        else:
            cmds.append("an %d %d" % (sz, al))
        if rng.random() < 0.03:
            cmds.append("drain %d" % rng.choice(fav))
        if rng.random() < 0.05:
            cmds += around_max(rng, rng.choice(fav), arrays).split("\n")
        if rng.random() < 0.04 and not h["member"]:
            # more alignment than the size guarantees (still at most max_alignment): must be refused
            big = [a for a in (2, 4, 8, 16) if a > alignment_for(sz)]
            if big:
                cmds.append("an %d %d" % (sz, rng.choice(big)))
    cmds.append("nofail")
    cmds += ["drain %d" % f for f in fav]
    return cmds


def stack_header(rng, src=None):
    src = src or rng.choice(["grow", "grow", "fixed", "static", "virtual"])
    h = {"fam": "stack", "src": src, "place": rng.choice(["lo", "hi"]),
         "member": 1 if rng.random() < 0.3 else 0}
    h["bs"] = rng.choice([512, 1024, 2048]) if src == "static" else 4096 if src == "virtual" else rng.choice([64, 100, 128, 200, 256, 500, 1024])
    if src == "static" and rng.random() < 0.5:
        h["ssz"] = 2048
        h["bs"] = rng.choice([256, 512, 1024])
    if src in ("grow", "fixed") and rng.random() < 0.35:
        h["down"] = 1      # every new upstream block lies below the earlier ones
    return h


def stack_cmds(rng, h, n, tries=True, fail=False, big_align=True):
    bs = h["bs"]
    cmds = []
    depth = 0
    for _ in range(n):
        r = rng.random()
        sz = rng.choice([1, 2, 3, 5, 8, 13, 16, 24, 40, 64, 100, bs // 3, bs // 2])
        sz = max(1, min(sz, bs // 2))
        al = rng.choice([1, 1, 2, 4, 8, 8, 16, 16] + ([32, 64] if big_align else []))
        if r < 0.40:
            cmds.append("an %d %d" % (sz, al))
        elif r < 0.44:
            cmds.append("aa %d %d %d" % (rng.choice([1, 2, 3, 5]), max(1, sz // 4), al))
        elif r < 0.50:
            # at and around the end of the current / the next block
            cmds.append("%s %d %d" % (rng.choice(["anc", "anc", "anr", "anr", "tnc"]), rng.choice([-9, -1, 0, 0, 1, 2, 7, 8, 15, 16, 17, 31, 33, 63]),
                                      rng.choice([1, 2, 8, 16, 32, 64])))
        elif r < 0.56 and tries:
            cmds.append("tn %d %d" % (sz, al))
        elif r < 0.66:
            cmds.append("mk")
            depth += 1
        elif r < 0.78 and depth:
            j = rng.randint(0, depth - 1)
            q = rng.random()
            if q < 0.75:
                cmds.append("uw %d" % j)
            elif q < 0.92:
                cmds.append("uwr %d %d" % (j, rng.randint(0, 2)))      # through memory_stack_raii_unwind
            else:
                cmds.append("rk %d" % j)                               # an unwinder that lives on ...
                cmds.append("an %d %d" % (rng.choice([1, 8, 24]), rng.choice([1, 8])))
                cmds.append("rd")                                      # ... and unwinds when it dies
            depth = j + 1
        elif r < 0.82:
            cmds.append("cmp")
        elif r < 0.86:
            cmds.append("sh")
        elif r < 0.90:
            cmds.append("d %d" % rng.randint(0, 40))
        elif r < 0.93 and tries:
            # composable release of own memory, possibly from a block the stack has left behind
            cmds.append("td %d" % rng.randint(0, 40))
        elif r < 0.95:
            cmds.append("sweep")
        elif fail:
            cmds.append("fail %d" % rng.randint(1, 2))
        else:
            cmds.append("an %d %d" % (sz, al))
    return cmds


def stack_replay_cmds(rng, h, rounds=3):
    """mark; requests; unwind; the same requests again: addresses must repeat (C06)."""
    bs = h["bs"]
    cmds = ["an %d 1" % rng.randint(1, 20)]
    for _ in range(rounds):
        reqs = []
        for _ in range(rng.randint(2, 7)):
            sz = max(1, min(rng.choice([1, 3, 8, 20, 50, bs // 3, bs // 2]), bs // 2))
            reqs.append("an %d %d" % (sz, rng.choice([1, 2, 4, 8, 16, 32])))
        cmds.append("mk")
        cmds += reqs
        if rng.random() < 0.4:
            cmds.append("mk")
            cmds += reqs[:2]
            cmds.append("uw 1")
            cmds += reqs[:2]
        cmds.append("sweep")
        cmds.append("uw 0")
        cmds += reqs
        cmds.append("uw 0")
        cmds.append("cmp")
    return cmds


def iter_header(rng, N=None, src=None):
    N = N or rng.randint(1, 5)
    src = src or rng.choice(["grow", "grow", "static"])
    h = {"fam": "iter", "N": N, "src": src, "place": rng.choice(["lo", "hi"]),
         "member": 1 if rng.random() < 0.3 else 0}
    h["bs"] = rng.choice([512, 1024, 2048]) if src == "static" else rng.choice(
        [5 * N, 7 * N + 1, 64, 100, 101, 127, 200, 256, 257, 511, 1000, 1024, 1025, 1500])
    return h


def iter_cmds(rng, h, n, tries=True):
    per = max(1, h["bs"] // h["N"])
    cmds = []
    for _ in range(n):
        r = rng.random()
        sz = max(1, min(rng.choice([1, 2, 3, 5, 8, 16, 30, per // 3, per // 2, per]), per))
        al = rng.choice([1, 1, 2, 4, 8, 16, 32])
        if r < 0.45:
            cmds.append("an %d %d" % (sz, al))
        elif r < 0.50:
            cmds.append("aa %d %d %d" % (rng.choice([1, 2, 3]), max(1, sz // 3), al))
        elif r < 0.56:
            cmds.append("%s %d %d" % (rng.choice(["anc", "tnc"]), rng.choice([-5, -1, 0, 0, 1, 3, 7, 8, 9, 15]), rng.choice([1, 2, 4, 8, 16])))
        elif r < 0.64 and tries:
            cmds.append("tn %d %d" % (sz, al))
        elif r < 0.88:
            cmds.append("ni")
        elif r < 0.94:
            cmds.append("sweep")
        elif r < 0.97 and tries:
            cmds.append("td %d" % rng.randint(0, 20))
        else:
            cmds.append("d %d" % rng.randint(0, 20))
    return cmds


def arena_header(rng, src=None):
    src = src or rng.choice(["grow", "grow", "static", "virtual", "fixed"])
    h = {"fam": "arena", "src": src, "cached": rng.choice([0, 1, 1]), "place": rng.choice(["lo", "hi"])}
    h["bs"] = rng.choice([1024, 2048, 4096]) if src == "static" else 4096 if src == "virtual" else rng.choice([64, 100, 256])
    if src == "static" and rng.random() < 0.6:
        h["ssz"] = 2048
        h["bs"] = rng.choice([256, 512, 1024])
    if src in ("grow", "fixed") and rng.random() < 0.3:
        h["down"] = 1
    return h


def arena_cmds(rng, n, fail=False, moves=True, max_ab=12):
    """growing block sources double the block size with every block they ever hand out: the number of
    allocate_block calls per execution is bounded so that sizes stay small"""
    cmds = []
    nab = 0
    for _ in range(n):
        r = rng.random()
        if r < 0.38 and nab < max_ab:
            cmds.append("ab")
            nab += 1
        elif r < 0.66:
            cmds.append("db")
        elif r < 0.74:
            cmds.append("sh")
        elif r < 0.86:
            cmds.append("own %d %d" % (rng.randint(0, 9), rng.randint(0, 3)))
        elif r < 0.90 and moves:
            cmds.append("mv %d" % rng.randint(0, 1))
        elif r < 0.94 and moves:
            cmds.append("ma %d" % rng.randint(0, 1))
        elif r < 0.97 and moves:
            cmds.append("sw %d" % rng.randint(0, 1))
        elif fail:
            cmds.append("fail %d" % rng.randint(1, 2))
        elif nab < max_ab:
            cmds.append("ab")
            nab += 1
    cmds.append("nofail")
    return cmds


def static_header(rng):
    return {"fam": "static", "place": rng.choice(["lo", "hi"])}


def static_cmds(rng, n):
    cmds = []
    for _ in range(n):
        sz = rng.choice([1, 3, 8, 16, 33, 100, 500, 2000, 5000])
        al = rng.choice([1, 2, 4, 8, 16, 32, 64])
        cmds.append(("an %d %d" % (sz, al)) if rng.random() < 0.8 else "aa %d %d %d" % (rng.randint(1, 5), sz, al))
        if rng.random() < 0.1:
            cmds.append("d %d" % rng.randint(0, 10))
        if rng.random() < 0.12:
            cmds.append("anc %d %d" % (rng.choice([-3, 0, 1, 5, 9, 17, 40]), rng.choice([1, 4, 8, 16, 64])))
    return cmds


def with_moves(rng, cmds, p=0.08, kinds=("mv", "ma")):
    """insert move construction / move assignment at random positions"""
    out = []
    for c in cmds:
        out.append(c)
        if rng.random() < p:
            out.append("%s %d" % (rng.choice(kinds), rng.randint(0, 1)))
            if rng.random() < 0.5:
                out.append("kz")
    return out


def alt_target(rng, h):
    """header keys for the target of move assignments: an object of the same type built with other parameters"""
    h = dict(h)
    if h["fam"] == "coll":
        # same ranges as coll_header: the constructor requires max_node_size < block_size / number of pools
        if h["bd"] == "identity":
            sizes = (8, 12, 16) if h["type"] == "small" else (8, 12, 16, 24, 32)
        else:
            sizes = (16, 32, 64) if h["type"] == "small" else (16, 32, 64, 100, 128)
        h["tns"] = rng.choice([x for x in sizes if x != h["ns"]])
        h["tbs"] = max(h["bs"], 4096) if h["bd"] == "identity" or h["type"] == "small" else h["bs"]
    elif h["fam"] == "pool" and "nodes" in h:
        h["tns"] = rng.choice([x for x in (4, 8, 16, 24, 48) if x != h["ns"]])
        h["tnodes"] = rng.choice([2, 5, 9])
    elif h["fam"] == "stack" and h["src"] in ("grow", "fixed"):
        h["tbs"] = rng.choice([64, 200, 1024])
    elif h["fam"] in ("stack", "pool") and h["src"] == "static":
        # another block size over a storage of its own: a swap / assignment has to take the block size along
        h["tbs"] = rng.choice([x for x in (256, 512, 1024) if x != h["bs"]])
    return h


def move_everywhere(h, cmds, kind, hi):
    """one execution per position: the same history with a move inserted at position k"""
    res = []
    for k in range(len(cmds) + 1):
        res.append((h, cmds[:k] + ["%s %d" % (kind, hi)] + cmds[k:]))
    return res


def move_chain_everywhere(h, cmds, hi):
    """one execution per position k: move construction at k, then the moved-from object is assigned to (mz) directly
    or two commands later, and once more back: chains through moved-from objects"""
    res = []
    for k in range(len(cmds) + 1):
        res.append((h, cmds[:k] + ["mv %d" % hi, "mz %d" % hi] + cmds[k:]))
        res.append((h, cmds[:k] + ["mv %d" % hi] + cmds[k:k + 2] + ["mz %d" % hi] + cmds[k + 2:k + 4] + ["mz %d" % hi] + cmds[k + 4:]))
    return res


def fail_everywhere(h, cmds, maxk):
    """one execution per upstream call position k: the k-th upstream allocation fails.
    position 0 of the script is before construction, so the constructor's own block request is
    included (fail is armed through the header)."""
    res = []
    for k in range(1, maxk + 1):
        hh = dict(h)
        hh["failat"] = k
        res.append((hh, cmds))
    return res
