"""Exploration plans for
  C17  fences beside low-level allocations / fill patterns   (driver `lowlevel`, contract FenceTrace)
  C16  invalid releases are reported, valid ones never       (driver `badcall`, contract ReportTrace,
                                                               plus valid histories of the `seq` driver
                                                               judged by SeqTrace/ValidReleaseNeverReported)

Scripts contain inputs only.  Fence probes are addressed relative to the node ("idx bytes before the
start" / "idx bytes behind the end"); the driver skips a probe whose byte is not a fence byte it
found, so nothing here decides a verdict: FENCE_BYTES below only says how far the plan *tries*."""
import os
import random
from . import plans
from .engine import Job

LOW = ("lowlevel", "FenceTrace")
BAD = ("badcall", "ReportTrace")

HEAP, MALLOC, NEW, VIRTUAL = 0, 1, 2, 3
PAGE = 4096
# how many bytes before/behind a node the probes reach in each configuration (coverage intent only)
FENCE_BYTES = {"rel": 0, "base": 0, "dbg": 16, "f16": 16}
VALUES = [0x00, 0xFC, 0xFE]      # three byte values different from the fence pattern 0xFD
FENCE_PATTERN = 0xFD
ALIGNS = [1, 2, 4, 8, 16]

# ------------------------------------------------------------------------------------------------
# KNOWN DEFECT F18 -- scenario shape excluded until the repair (work/agentC/F18.patch) is committed.
# Releasing a pointer that lies outside the only chunk of a memory_pool<small_node_pool> which has
# not deallocated anything since it was constructed never terminates (find_chunk_impl walks over the
# proxy node).  REMOVE THIS EXCLUSION (set to False) once the fix is in /repo.
# VERIF_INCLUDE_F18=1 in the environment runs the excluded scenarios anyway (to show the defect, or to
# verify a repair on a scratch copy: VERIF_REPO=<copy> VERIF_INCLUDE_F18=1 bin/vcheck run C16).
EXCLUDE_F18_SHAPE = False   # F18 is fixed in /repo (see known_findings.json): the shape is part of the plan


def is_f18_shape(h, cmds):
    """small-node pool, one chunk in total, no release before the bad call, pointer outside the chunk"""
    if h.get("fam") != "pool" or h.get("type") != "small":
        return False
    if h.get("nodes", 0) > 255 or sum(1 for c in cmds if c == "an") > 255:
        return False                      # several chunks (a chunk holds 255 nodes) / the pool grows
    if any(c.startswith("dn") for c in cmds):
        return False
    return cmds[-1].startswith("bad foreign")
# ------------------------------------------------------------------------------------------------


def _chunks(lst, n):
    for i in range(0, len(lst), n):
        yield lst[i:i + n]


# ---- C17 --------------------------------------------------------------------------------------------
def probe2(kind, iface, sz, al, idx, idx2, val, side=4):
    """one node with two bytes written: side 4 = into the fence in front of it (idx) AND into the one behind it
    (idx2), 5 = both into the front fence, 6 = both into the back fence"""
    return "probe %d %d %d %d %d %d %d %d" % (kind, iface, sz, al, side, idx, val, idx2)


def probe(kind, iface, sz, al, side, idx, val):
    return "probe %d %d %d %d %d %d %d" % (kind, iface, sz, al, side, idx, val)


def fence_grid(cfg, tier, rng):
    """probes of single nodes: every byte of both fences, in-bounds writes, fence-pattern writes"""
    reach = FENCE_BYTES[cfg]
    cmds = []
    if tier == "quick":
        sizes = [1, 2, 3, 4, 5, 7, 8, 9, 13, 15, 16, 17, 24, 31, 32, 33, 48, 63, 64]
        combos = [(sz, ALIGNS[i % 5]) for i, sz in enumerate(sizes)]
        nvals = 2
    else:
        combos = [(sz, al) for sz in range(1, 65) for al in ALIGNS]
        nvals = 3
    k = 0
    for kind in (HEAP, MALLOC, NEW):
        for sz, al in combos:
            iface = k % 3
            k += 1
            cmds.append(probe(kind, iface, sz, al, 0, 0, 0))                       # nothing written
            cmds.append(probe(kind, iface, sz, al, 3, 0, FENCE_PATTERN))           # first byte of the node
            cmds.append(probe(kind, iface, sz, al, 3, sz - 1, VALUES[k % 3]))      # last byte of the node
            for side in (1, 2):
                if reach == 0:
                    cmds.append(probe(kind, iface, sz, al, side, 0, VALUES[k % 3]))  # no fence: skipped by the driver
                    continue
                cmds.append(probe(kind, iface, sz, al, side, rng.randrange(reach), FENCE_PATTERN))  # not dirty
                cmds.append(probe(kind, iface, sz, al, side, reach, VALUES[k % 3]))                 # beyond the fence
                for idx in range(reach):
                    for v in range(nvals):
                        cmds.append(probe(kind, iface, sz, al, side, idx, VALUES[(k + idx + v) % 3]))
            if reach:
                for _ in range(2 if tier == "quick" else 6):
                    cmds.append(probe2(kind, iface, sz, al, rng.randrange(reach), rng.randrange(reach), VALUES[k % 3]))
                    i1, i2 = rng.sample(range(reach), 2)    # two different bytes of the same fence
                    cmds.append(probe2(kind, iface, sz, al, i1, i2, VALUES[k % 3], rng.choice([5, 6])))
    # virtual memory: a page on each side
    vreach = PAGE if reach else 0
    if tier == "quick":
        vsizes = [1, 64, 4095, 4096, 4097, 9000]
        idxs = [0, 1, 2, 15, 16, 17, 255, 1000, 2047, 2048, 4000, 4093, 4094, 4095]
    else:
        vsizes = [1, 2, 7, 64, 100, 4095, 4096, 4097, 8192, 9000, 20000]
        idxs = sorted(set(list(range(0, 64)) + list(range(4032, 4096)) + list(range(64, 4032, 37))))
    for j, sz in enumerate(vsizes):
        al = ALIGNS[j % 5]
        iface = j % 3
        cmds.append(probe(VIRTUAL, iface, sz, al, 0, 0, 0))
        cmds.append(probe(VIRTUAL, iface, sz, al, 3, sz - 1, 0))
        for side in (1, 2):
            if vreach == 0:
                cmds.append(probe(VIRTUAL, iface, sz, al, side, 0, 1))
                continue
            cmds.append(probe(VIRTUAL, iface, sz, al, side, rng.randrange(vreach), FENCE_PATTERN))
            for idx in idxs:
                cmds.append(probe(VIRTUAL, iface, sz, al, side, idx, VALUES[(idx + j) % 3]))
    if tier != "quick" and vreach:
        for sz in (1, 64):                  # every byte of both pages
            for side in (1, 2):
                for idx in range(vreach):
                    cmds.append(probe(VIRTUAL, idx % 3, sz, 8, side, idx, VALUES[idx % 3]))
    return [({"mode": "hist", "tag": "grid"}, c) for c in _chunks(cmds, 150)]


def history(cfg, rng, n, with_probes=True, kinds=(HEAP, MALLOC, NEW, VIRTUAL)):
    """random allocate/deallocate history over all four allocators and interfaces (C01/C02 facts,
    NeighboursUntouched); probes in between run with the neighbours alive"""
    reach = FENCE_BYTES[cfg]
    cmds = []
    live = 0
    for _ in range(n):
        r = rng.random()
        kind = rng.choice(kinds)
        sz = rng.choice([1, 2, 3, 7, 8, 15, 16, 24, 33, 64, 100, 255, 1000, 4096, 5000]) if rng.random() < 0.7 else rng.randint(1, 300)
        al = rng.choice(ALIGNS)
        if r < 0.5 or live == 0:
            cmds.append("a %d %d %d %d" % (kind, rng.randrange(3), sz, al))
            live += 1
        elif r < 0.85:
            cmds.append("d %d" % rng.randint(0, 50))
            live -= 1
        elif with_probes:
            side = rng.choice([0, 1, 2, 3])
            span = (PAGE if kind == VIRTUAL else reach) or 1
            cmds.append(probe(kind, rng.randrange(3), sz, al, side, rng.randrange(span if side in (1, 2) else sz),
                              rng.choice(VALUES + [FENCE_PATTERN])))
    return ({"mode": "hist", "tag": "hist"}, cmds)


def leak_exec(rng):
    """allocate some nodes, free a subset, exit normally: the global leak counters report at exit"""
    cmds = []
    kinds = rng.sample([HEAP, MALLOC, NEW, VIRTUAL], rng.randint(1, 4))
    n = rng.randint(1, 10)
    for _ in range(n):
        cmds.append("a %d %d %d %d" % (rng.choice(kinds), rng.randrange(3), rng.choice([1, 5, 8, 16, 33, 100, 4096, 5000]),
                                       rng.choice(ALIGNS)))
    how = rng.random()
    frees = n if how < 0.25 else (0 if how < 0.4 else rng.randint(1, n))
    for _ in range(frees):
        cmds.append("d %d" % rng.randint(0, 20))
    return ({"mode": "leak", "tag": "leak"}, cmds)


def lowlevel_jobs(prop, tier, seed, cfgs=("base", "dbg", "f16")):
    rng = random.Random(seed * 1000003 + 17)
    s = 1 if tier == "quick" else 8
    J = []
    for cfg in cfgs:
        grid = fence_grid(cfg, tier, random.Random(rng.random()))
        per_job = 6 if tier == "quick" else 40
        for i, part in enumerate(_chunks(grid, per_job)):
            J.append(Job(cfg, LOW[0], LOW[1], part, "grid%02d" % i))
        r = random.Random(rng.random())
        hist = [history(cfg, r, 60) for _ in range(10 * s)] + [history(cfg, r, 200, with_probes=False) for _ in range(2 * s)]
        J.append(Job(cfg, LOW[0], LOW[1], hist, "hist"))
        J.append(Job(cfg, LOW[0], LOW[1], [leak_exec(r) for _ in range(12 * s)], "leak"))
    return J


def history_jobs(prop, tier, seed, cfgs=("rel", "base", "dbg"), leak_only=False):
    """random allocate/deallocate histories over heap/malloc/new/virtual_memory_allocator and the
    leak-at-exit scenarios, for the properties whose guards FenceTrace carries besides C17 (C01, C02, C05, C15)"""
    rng = random.Random(seed * 1000003 + 170 + int(prop[1:]))
    s = 1 if tier == "quick" else 8
    J = []
    for cfg in cfgs:
        r = random.Random(rng.random())
        if not leak_only:
            hist = [history(cfg, r, 60, with_probes=False) for _ in range(8 * s)]
            J.append(Job(cfg, LOW[0], LOW[1], hist, "lowhist"))
        J.append(Job(cfg, LOW[0], LOW[1], [leak_exec(r) for _ in range(10 * s)], "lowleak"))
    return J


def fill_pattern_jobs(prop, tier, seed):
    """the second half of C17 -- memory handed out by ANY allocator carries the new-memory pattern,
    memory released to a pool the freed pattern except for the link bytes, in-bounds use is never
    reported -- is judged by SeqTrace (guards labelled C17) on valid histories of the seq driver"""
    rng = random.Random(seed * 1000003 + 1700)
    s = 1.0 if tier == "quick" else 10.0
    J = []
    for cfg in ("base", "dbg", "f16"):
        r = random.Random(rng.random())
        execs = plans._batch(r, s, [(8, plans.pool_exec(n=60)), (6, plans.coll_exec(n=60)), (5, plans.stack_exec(n=60)),
                                    (3, plans.iter_exec(n=40)), (1, plans.static_exec(20))])
        J.append(Job(cfg, plans.SEQ[0], plans.SEQ[1], execs, "fill"))
    return J


def c17_jobs(prop, tier, seed):
    return lowlevel_jobs(prop, tier, seed) + fill_pattern_jobs(prop, tier, seed)


# ---- C16 --------------------------------------------------------------------------------------------
def _pool_prefix(rng, nalloc, nfree):
    cmds = ["an"] * nalloc
    for _ in range(nfree):
        cmds.append("dn %d" % rng.randint(0, 30))
    return cmds


def small_pool_scenarios(rng, tier):
    """pointer outside every chunk / inside a chunk but not on a node boundary"""
    out = []
    reps = 1 if tier == "quick" else 4
    for _ in range(reps):
        for ns in (2, 3, 4, 8, 16):
            for nodes in (20, 300, 600):                  # 1, 2, 3 chunks in the first block
                for place in ("lo", "hi"):
                    for nfree in (0, 1, 3):
                        h = {"fam": "pool", "type": "small", "ns": ns, "nodes": nodes, "place": place}
                        nalloc = rng.randint(4, 9)
                        pre = _pool_prefix(rng, nalloc, nfree)
                        if rng.random() < 0.3:
                            pre += ["an"] * rng.randint(1, 3)
                        for w in range(7):
                            out.append((dict(h, tag="foreign%d" % w), pre + ["bad foreign %d" % w]))
                        out.append((dict(h, tag="off"), pre + ["bad off %d %d" % (rng.randint(0, 20), rng.randint(0, 40))]))
        # pools that have grown to several blocks
        for ns in (4, 16):
            for place in ("lo", "hi"):
                for nfree in (0, 2):
                    h = {"fam": "pool", "type": "small", "ns": ns, "nodes": 6, "place": place}
                    pre = _pool_prefix(rng, 300, nfree)   # more than the 255 nodes of the first chunk
                    for w in range(5):
                        out.append((dict(h, tag="grown-foreign%d" % w), pre + ["bad foreign %d" % w]))
                    out.append((dict(h, tag="grown-off"), pre + ["bad off %d %d" % (rng.randint(0, 20), rng.randint(0, 40))]))
    return out


def double_free_scenarios(rng, tier):
    """release a node that is already free: lowest / highest / most recent / middle of the free list"""
    out = []
    reps = 2 if tier == "quick" else 10
    for _ in range(reps):
        for ptype in ("node", "array", "small"):
            for place in ("lo", "hi"):
                ns = rng.choice([8, 16, 24] if ptype != "small" else [1, 4, 8, 16])
                nodes = rng.choice([6, 8, 12])
                for whole in (True, False):
                    # whole: every node of the block is handed out first, so the free list consists of
                    # exactly the released nodes
                    nalloc = nodes if whole else rng.randint(4, nodes - 1)
                    for nfree in (1, 3, 4):
                        pre = _pool_prefix(rng, nalloc, nfree)
                        h = {"fam": "pool", "type": ptype, "ns": ns, "nodes": nodes, "place": place}
                        for sel in range(4):
                            out.append((dict(h, tag="double%d" % sel), pre + ["bad double %d" % sel]))
                        # most recently released node after one more allocation/release round
                        out.append((dict(h, tag="double-recent2"), pre + ["an", "dn 0", "bad double 2"]))
                # the very last node of the block (of the last chunk): everything handed out, the highest node
                # released (alone, or after / before others), released again
                h = {"fam": "pool", "type": ptype, "ns": ns, "nodes": nodes, "place": place}
                out.append((dict(h, tag="double-last"), ["fill", "dnhi 0", "bad double 1"]))
                out.append((dict(h, tag="double-last2"), ["fill", "dn %d" % rng.randint(0, 5), "dnhi 0", "dn %d" % rng.randint(0, 5), "bad double 1"]))
    return out


def stack_scenarios(rng, tier):
    out = []
    reps = 3 if tier == "quick" else 15
    for _ in range(reps):
        for place in ("lo", "hi"):
            bs = rng.choice([256, 512, 1024])
            h = {"fam": "stack", "bs": bs, "place": place}
            a = lambda: "sa %d %d" % (rng.choice([1, 8, 16, 24, 40]), rng.choice([1, 8, 16]))
            # same block: mark, allocate, mark, unwind below, unwind to the stale marker
            out.append((dict(h, tag="same-block"), [a(), "mk"] + [a() for _ in range(rng.randint(1, 3))] + ["mk", "uw 0", "bad unwind 1"]))
            # the stale marker lies in a block that has been unwound
            big = "sa %d 8" % (bs // 2)
            out.append((dict(h, tag="later-block"), [a(), "mk", big, big, a(), "mk", "uw 0", "bad unwind 1"]))
            # new allocations after the unwind, still below the stale marker
            out.append((dict(h, tag="regrown"), [a(), "mk", a(), a(), a(), "mk", "uw 0", "sa 1 1", "bad unwind 1"]))
            # three markers, unwind to the middle one, then the top one
            out.append((dict(h, tag="three"), [a(), "mk", a(), "mk", a(), a(), "mk", "uw 1", "bad unwind 2"]))
    return out


def block_scenarios(rng, tier):
    out = []
    for fam, bs, cap in (("sblk", 1024, 8), ("sblk", 2048, 4), ("vblk", 4096, 4), ("vblk", 8192, 3)):
        for n in range(2, cap + 1):
            for k in range(n - 1):                        # any outstanding block but the most recent one
                for returned in (0, 1):
                    if n - returned < 2 or k >= n - returned - 1:
                        continue
                    h = {"fam": fam, "bs": bs, "nb": cap, "place": rng.choice(["lo", "hi"]), "tag": "order"}
                    out.append((h, ["ab"] * n + ["db"] * returned + ["bad block %d" % k]))
    for bs in (256, 1024, 4096):
        for rounds in (1, 2, 3):
            h = {"fam": "fblk", "bs": bs, "place": rng.choice(["lo", "hi"]), "tag": "noblock"}
            out.append((h, ["ab", "db"] * rounds + ["bad block 0"]))
    return out


def badcall_jobs(prop, tier, seed):
    rng = random.Random(seed * 1000003 + 16)
    J = []
    excluded = 0
    for cfg in ("base", "dbg", "pc"):
        r = random.Random(rng.random())
        scen = small_pool_scenarios(r, tier) + stack_scenarios(r, tier) + block_scenarios(r, tier)
        if cfg in ("dbg", "pc"):                           # the configurations with the double-free check
            scen += double_free_scenarios(r, tier)
        if EXCLUDE_F18_SHAPE:
            kept = [(h, c) for h, c in scen if not is_f18_shape(h, c)]
            excluded += len(scen) - len(kept)
            scen = kept
        for i, part in enumerate(_chunks(scen, 400)):
            J.append(Job(cfg, BAD[0], BAD[1], part, "bad%02d" % i))
    return J


def block_order_jobs(prop, tier, seed):
    """blocks returned out of order to the LIFO-only block sources (C05 runs these too)"""
    rng = random.Random(seed * 1000003 + 1605)
    return [Job(cfg, BAD[0], BAD[1], block_scenarios(random.Random(rng.random()), tier), "blockorder") for cfg in ("base", "dbg")]


def valid_history_jobs(prop, tier, seed):
    """the negative side: valid histories of every stateful allocator in base, dbg and pc (checks on, assertions and fill off); SeqTrace flags
    any invalid-pointer report (C16/ValidReleaseNeverReported) and any crash"""
    rng = random.Random(seed * 1000003 + 1600)
    s = 1.0 if tier == "quick" else 10.0
    J = []
    for cfg in ("base", "dbg", "pc"):
        r = random.Random(rng.random())
        execs = plans._batch(r, s, [(8, plans.pool_exec(n=70)), (6, plans.coll_exec(n=70)), (6, plans.stack_exec(n=70)),
                                    (3, plans.stack_replay_exec()), (3, plans.iter_exec(n=40)),
                                    (3, plans.moved(plans.pool_exec(n=50), 0.08)), (2, plans.moved(plans.stack_exec(n=50), 0.08))])
        J.append(Job(cfg, plans.SEQ[0], plans.SEQ[1], execs, "valid"))
    return J


def c16_jobs(prop, tier, seed):
    return badcall_jobs(prop, tier, seed) + valid_history_jobs(prop, tier, seed)


PROPS = {
    "C17": {"jobs": c17_jobs,
            "rule": "probes: one node, one written byte per forked child (every byte of both fences, in-bounds bytes, "
                    "fence-pattern writes) for heap/malloc/new/virtual_memory_allocator through allocator_traits and directly; "
                    "seeded allocate/deallocate histories over all four allocators; leak-at-exit children; "
                    "system allocations observed through linker interposition; plus valid histories of the seq driver "
                    "(pools, collections, stacks) for the fill patterns of the other allocators"},
    "C16": {"jobs": c16_jobs,
            "rule": "each execution = a valid history followed by ONE invalid release in a child process (small-node pool: foreign / "
                    "off-stride pointers; double free on node/array/small pools in dbg; stale stack markers; out-of-order blocks), "
                    "plus seeded valid histories of the seq driver in base and dbg (no report allowed)"},
}
