"""Execution engine shared by all checks: run scripts through a driver built from /repo's working
tree, validate the recorded trace against a TLA+ contract module with TLC, attribute violations to
executions, filter listed known findings, confirm by re-execution, write replay files."""
import os, json, hashlib, time, shutil, re, fnmatch
from concurrent.futures import ThreadPoolExecutor
from .common import *
from . import build, tlc
from .gen import exec_text

CONTRACT_DIR = os.path.join(SPEC, "contract")


class Job:
    """One driver invocation: a batch of executions against one build configuration."""

    def __init__(self, cfg, driver, module, execs, label, also=()):
        self.cfg, self.driver, self.module, self.execs, self.label = cfg, driver, module, execs, label
        self.also = tuple(also)     # further trace specifications the same recorded trace is validated against
        self.trace = None
        self.verdict = None
        self.events = 0
        self.stats = {}


def _workdir(prop):
    d = os.path.join(WORK, prop)
    shutil.rmtree(d, ignore_errors=True)
    os.makedirs(d, exist_ok=True)
    return d


def sanitize_trace(path):
    """Drop an unterminated or malformed last line (a dying child may tear it); count events."""
    good = []
    n = 0
    with open(path, "rb") as f:
        data = f.read()
    lines = data.split(b"\n")
    tail_ok = data.endswith(b"\n")
    for i, ln in enumerate(lines):
        if not ln:
            continue
        if i == len(lines) - 1 and not tail_ok:
            break
        try:
            json.loads(ln)
        except Exception:
            continue
        good.append(ln)
        n += 1
    with open(path, "wb") as f:
        f.write(b"\n".join(good) + b"\n")
    return n


def run_job(job, wdir, idx):
    bdir = build.ensure_build(job.cfg, job.driver)
    base = os.path.join(wdir, "%03d-%s-%s" % (idx, job.cfg, job.label))
    script = base + ".script"
    with open(script, "w") as f:
        for h, cmds in job.execs:
            f.write(exec_text(h, cmds))
    job.trace = base + ".ndjson"
    if os.path.exists(job.trace):
        os.remove(job.trace)
    exe = os.path.join(bdir, job.driver)
    env = {"TSAN_OPTIONS": "halt_on_error=1:exitcode=66:second_deadlock_stack=1"} if job.cfg == "tsan" else None
    rc, out = run([exe, script, job.trace], timeout=3600, env=env)
    if rc != 0:
        raise InfraError("driver %s failed rc=%d: %s" % (job.driver, rc, out[-2000:]))
    job.events = sanitize_trace(job.trace)
    job.verdict, job.stats = tlc.validate_trace(CONTRACT_DIR, job.module, job.trace)
    if job.verdict.get("lines") != job.events:
        raise InfraError("trace not consumed completely: %s of %s lines (%s)"
                         % (job.verdict.get("lines"), job.events, job.trace))
    for mod in job.also:
        v2, s2 = tlc.validate_trace(CONTRACT_DIR, mod, job.trace)
        if v2.get("lines") != job.events:
            raise InfraError("trace not consumed completely by %s: %s of %s lines (%s)"
                             % (mod, v2.get("lines"), job.events, job.trace))
        job.verdict["viol"] = list(job.verdict["viol"]) + list(v2["viol"])
        job.stats["tlc_states"] = job.stats.get("tlc_states", 0) + s2.get("tlc_states", 0)
    return job


SKIPPED_CONFIGS = {}


def run_jobs(jobs, prop, par=None):
    wdir = _workdir(prop)
    # build every needed configuration first (serially: each build already uses all cores)
    # A tree that compiles in the repository's own configuration may still not compile in every configuration of
    # the harness (code under another set of debug options): such a configuration is left out, loudly, and the
    # check decides on the others.  Nothing left, or the baseline configuration broken = infrastructure error.
    broken = {}
    for cfg, drv in sorted({(j.cfg, j.driver) for j in jobs}):
        if cfg in broken:
            continue
        try:
            build.ensure_build(cfg, drv)
        except InfraError as e:
            broken[cfg] = str(e)
    if broken:
        kept = [j for j in jobs if j.cfg not in broken]
        if not kept or "base" in broken:
            raise InfraError(next(iter(broken.values())))
        for cfg, why in sorted(broken.items()):
            log("[skip] configuration %s does not build on this tree, its %d job(s) are left out:\n%s"
                % (cfg, sum(1 for j in jobs if j.cfg == cfg), why[-1200:]))
        SKIPPED_CONFIGS.update(broken)
        jobs[:] = kept
    par = par or max(1, min(8, NCPU // 2))
    with ThreadPoolExecutor(max_workers=par) as ex:
        futs = [ex.submit(run_job, j, wdir, i) for i, j in enumerate(jobs)]
        return [f.result() for f in futs]


# ---- known findings -----------------------------------------------------------------------------
def load_known():
    p = os.path.join(ROOT, "known_findings.json")
    if not os.path.exists(p):
        return []
    return json.load(open(p))["findings"]


def kf_matches(kf, v, hdr, cfg):
    if kf.get("status") != "open":
        return False
    if kf["property"] != v["prop"] and not (v["prop"] == "ANY" and kf.get("any_ok")):
        return False
    if kf["rule"] != v["rule"]:
        return False
    for k, pat in kf.get("subject", {}).items():
        if not fnmatch.fnmatch(str(hdr.get(k, "")), str(pat)):
            return False
    if "cfg" in kf and cfg not in kf["cfg"]:
        return False
    if "info_re" in kf and not re.search(kf["info_re"], v["info"]):
        return False
    return True


# ---- verdicts -------------------------------------------------------------------------------------
def attribute(jobs, prop, also=("ANY",)):
    """Returns (violations, known, others, infra): per execution, everything from the first listed
    known finding on is dropped; of the rest the guards of `prop` (and crashes) are violations."""
    known_list = load_known()
    violations, known, others, infra = [], [], [], []
    for job in jobs:
        byexec = {}
        for v in job.verdict["viol"]:
            byexec.setdefault(v["exec"], []).append(v)
        for xn, vs in byexec.items():
            vs.sort(key=lambda v: v["line"])
            hdr, cmds = job.execs[xn] if 0 <= xn < len(job.execs) else ({}, [])
            cut = None
            for v in vs:
                hit = next((k for k in known_list if kf_matches(k, v, hdr, job.cfg)), None)
                if hit:
                    known.append((hit, v, job, xn))
                    cut = v["line"]
                    break
            for v in vs:
                if cut is not None and v["line"] >= cut:
                    continue
                rec = {"v": v, "job": job, "xn": xn, "hdr": hdr, "cmds": cmds}
                if v["prop"] == "X":
                    infra.append(rec)
                elif v["prop"] == prop or v["prop"] in also or (v["prop"] + "/" + v["rule"]) in also:
                    violations.append(rec)
                else:
                    others.append(rec)
    return violations, known, others, infra


def confirm(rec, prop, wdir):
    """Re-execute the single failing execution and validate again; True if the same rule fails."""
    job = rec["job"]
    j2 = Job(job.cfg, job.driver, job.module, [(rec["hdr"], rec["cmds"])], "confirm", job.also)
    try:
        run_job(j2, wdir, 900 + (abs(hash(json.dumps(rec["v"], sort_keys=True))) % 90))
    except InfraError as e:
        log("[confirm] infrastructure error: %s" % e)
        return False
    return any(v["rule"] == rec["v"]["rule"] and v["prop"] == rec["v"]["prop"] for v in j2.verdict["viol"])


def write_replay(rec, prop):
    os.makedirs(os.path.join(REPLAYS, prop), exist_ok=True)
    job = rec["job"]
    body = {"property": prop, "cfg": job.cfg, "driver": job.driver, "module": job.module, "also": list(job.also),
            "rule": rec["v"]["rule"], "guard_property": rec["v"]["prop"], "info": rec["v"]["info"],
            "line": rec["v"]["line"], "header": rec["hdr"], "cmds": rec["cmds"],
            "script": exec_text(rec["hdr"], rec["cmds"])}
    h = hashlib.sha1(json.dumps(body, sort_keys=True).encode()).hexdigest()[:12]
    path = os.path.join(REPLAYS, prop, "%s-%s-%s.json" % (rec["v"]["rule"], job.cfg, h))
    with open(path, "w") as f:
        json.dump(body, f, indent=1)
    return path


def replay(path):
    body = json.load(open(path))
    prop = body["property"]
    wdir = _workdir("replay")
    job = Job(body["cfg"], body["driver"], body["module"], [(body["header"], body["cmds"])], "replay", body.get("also", ()))
    run_job(job, wdir, 0)
    hits = [v for v in job.verdict["viol"] if v["rule"] == body["rule"]]
    for v in job.verdict["viol"]:
        print("  guard false: %s/%s line %d info %s" % (v["prop"], v["rule"], v["line"], v["info"]))
    print("trace: %s" % job.trace)
    if hits:
        print("VIOLATION property=%s replay=%s" % (prop, path))
        return 1
    print("not reproduced")
    return 0


def conformance(jobs):
    """Design-model conformance (DRIFT): executions generated by TLC from a design model carry the
    offsets the model predicts for the successive successful allocations (header key `expect`); they are
    compared with what the real code returned.  A mismatch is not a verdict (the contract decides) but
    says that the design model no longer describes the mechanism."""
    checked, matched, drifts = 0, 0, []
    for job in jobs:
        want = {i: [tuple(int(k) for k in v.split(":")) for v in h["expect"].split(",")] if h["expect"] != "-" else []
                for i, (h, c) in enumerate(job.execs) if "expect" in h
                and not (h.get("type") == "node" and job.cfg == "dbg" and h.get("tag") == "tlc-lifo")
                and not (h.get("nofence") and job.cfg in ("dbg", "f16"))}
        if not want:
            continue
        got, xn = {}, -1
        with open(job.trace) as f:
            for ln in f:
                if ln.startswith('{"e":"x"'):
                    xn += 1
                elif xn in want and ln.startswith(('{"e":"alloc"', '{"e":"ablk"')) and '"r":"ok"' in ln:
                    e = json.loads(ln)
                    got.setdefault(xn, []).append((e["b"], e["off"]))
        def ranks(seq):
            # block numbers by order of first appearance: a move assignment in the script makes the
            # target object take (and give back) a block of its own, which shifts the raw numbers
            m = {}
            return [(m.setdefault(b, len(m)), off) for b, off in seq]
        for i, exp in want.items():
            checked += 1
            if ranks(got.get(i, [])) == ranks(exp):
                matched += 1
            elif len(drifts) < 5:
                drifts.append({"cfg": job.cfg, "header": job.execs[i][0], "cmds": job.execs[i][1], "expected": exp,
                               "observed": got.get(i, [])})
    # schedules generated by TLC for the temporary stack list (header key `plan`): the threads of the recorded
    # atomic steps inside the concurrent block have to start with the planned sequence
    for job in jobs:
        plans = {i: [int(t) for t in h["plan"].split(".") if t != ""] for i, (h, c) in enumerate(job.execs) if "plan" in h}
        if not plans:
            continue
        steps, xn, inpar = {}, -1, False
        with open(job.trace) as f:
            for ln in f:
                if ln.startswith('{"e":"x"'):
                    xn += 1
                    inpar = False
                elif ln.startswith('{"e":"par_begin"'):
                    inpar = True
                elif ln.startswith('{"e":"par_end"'):
                    inpar = False
                elif inpar and xn in plans and ln.startswith('{"e":"at"'):
                    e = json.loads(ln)
                    if (e["k"] == 1 and e["o"] == 0) or e["k"] in (2, 4):
                        steps.setdefault(xn, []).append(e["t"])
        for i, pl in plans.items():
            checked += 1
            if steps.get(i, [])[:len(pl)] == pl:
                matched += 1
            elif len(drifts) < 5:
                drifts.append({"cfg": job.cfg, "header": job.execs[i][0], "cmds": job.execs[i][1], "expected": pl,
                               "observed": steps.get(i, [])})
    # VirtualBlocks: the commit / decommit / release calls the model predicts (header key `vmexpect`, c = commit,
    # x = refused commit, d = decommit of block n; r = release from page n) against the recorded `vm` events
    for job in jobs:
        vme = {i: [t for t in h["vmexpect"].split(".") if t] for i, (h, c) in enumerate(job.execs) if "vmexpect" in h}
        if not vme:
            continue
        seen, xn = {}, -1
        with open(job.trace) as f:
            for ln in f:
                if ln.startswith('{"e":"x"'):
                    xn += 1
                elif xn in vme and ln.startswith('{"e":"vm"'):
                    e = json.loads(ln)
                    per = max(1, int(job.execs[xn][0].get("bs", 4096)) // 4096)
                    if e["k"] == "commit":
                        seen.setdefault(xn, []).append(("c" if e["ok"] else "x") + str(e["off"] // per))
                    elif e["k"] == "decommit":
                        seen.setdefault(xn, []).append("d" + str(e["off"] // per))
                    elif e["k"] == "release":
                        seen.setdefault(xn, []).append("r" + str(e["off"]))
        for i, exp in vme.items():
            checked += 1
            if seen.get(i, []) == exp:
                matched += 1
            elif len(drifts) < 5:
                drifts.append({"cfg": job.cfg, "header": job.execs[i][0], "cmds": job.execs[i][1], "expected": exp,
                               "observed": seen.get(i, [])})
    # Joint: outcome of every step and offsets of the live raw pieces (header key `jexpect`)
    for job in jobs:
        jx = {i: h["jexpect"].split("|") for i, (h, c) in enumerate(job.execs) if "jexpect" in h}
        if not jx:
            continue
        seen, xn, last_pieces, ua_mis = {}, -1, "", 0
        with open(job.trace) as f:
            for ln in f:
                if ln.startswith('{"e":"x"'):
                    xn += 1
                    last_pieces = ""
                elif xn in jx and ln.startswith('{"e":"ua"'):
                    e = json.loads(ln)
                    ua_mis = e.get("m16", e["mis"])      # address of the block modulo 16
                elif xn in jx and ln.startswith('{"e":"pieces"'):
                    e = json.loads(ln)
                    last_pieces = ",".join("%d@%d+%d" % (p[0] - 100, p[1], p[2]) for p in e["ps"] if 100 <= p[0] < 1000)
                elif xn in jx and ln.startswith('{"e":"jctor"'):
                    e = json.loads(ln)
                    if e["osz"] != 104 or (ua_mis + e["off"]) % 16 != int(job.execs[xn][0].get("jres", 0)):
                        seen.setdefault(xn, []).append("layout osz=%d residue=%d" % (e["osz"], (ua_mis + e["off"]) % 16))
                elif xn in jx and ln.startswith('{"e":"op"'):
                    e = json.loads(ln)
                    if e["op"] in ("joint", "jraw", "jrawfree"):
                        res = {"ok": "ok", "throw:out_of_fixed_memory": "oofm"}.get(e["r"], e["r"])
                        seen.setdefault(xn, []).append(res + "=" + last_pieces)
        for i, exp in jx.items():
            checked += 1
            if seen.get(i, []) == exp:
                matched += 1
            elif len(drifts) < 5:
                drifts.append({"cfg": job.cfg, "header": job.execs[i][0], "cmds": job.execs[i][1], "expected": exp,
                               "observed": seen.get(i, [])})
    # Compose: the leaf that serves each top-level request / gets each block back, and the shape it is asked in
    # (header key `cexpect`: <leaf><n|a><count>x<size> per call)
    for job in jobs:
        cx = {i: h["cexpect"].split(".") for i, (h, c) in enumerate(job.execs) if "cexpect" in h}
        if not cx:
            continue
        seen, xn = {}, -1
        with open(job.trace) as f:
            for ln in f:
                if ln.startswith('{"e":"x"'):
                    xn += 1
                elif xn in cx and ln.startswith('{"e":"leaf"') and ('"r":"ok"' in ln or '"r":"true"' in ln):
                    e = json.loads(ln)
                    seen.setdefault(xn, []).append("%d%s%dx%d" % (e["L"], "n" if e["op"].endswith("n") else "a", e["n"], e["sz"]))
        for i, exp in cx.items():
            checked += 1
            # (what follows the scripted calls is the driver's clean-up of what the script left allocated)
            if seen.get(i, [])[:len(exp)] == exp:
                matched += 1
            elif len(drifts) < 5:
                drifts.append({"cfg": job.cfg, "header": job.execs[i][0], "cmds": job.execs[i][1], "expected": exp,
                               "observed": seen.get(i, [])})
    return {"executions_with_model_prediction": checked, "matched": matched, "drift_samples": drifts}


def exec_stats(jobs):
    """distinct executions (by content) and those that reached a non-initial model state, i.e. had
    at least one successful allocation recorded."""
    total, seen, nontrivial = 0, set(), set()
    events = 0
    for job in jobs:
        events += job.events
        okx = set()
        xn = -1
        with open(job.trace) as f:
            for ln in f:
                if ln.startswith('{"e":"x"'):
                    xn += 1
                elif ln.startswith(('{"e":"talloc"', '{"e":"tend"', '{"e":"got"', '{"e":"scope_begin"', '{"e":"cop"', '{"e":"poolrun"', '{"e":"fn"', '{"e":"bnd"', '{"e":"bucket"', '{"e":"mbs"', '{"e":"stk"')):
                    okx.add(xn)
                elif '"r":"ok"' in ln and (ln.startswith('{"e":"alloc"') or ln.startswith('{"e":"op"') or ln.startswith('{"e":"ret"')):
                    okx.add(xn)
        for i, (h, cmds) in enumerate(job.execs):
            total += 1
            key = hashlib.sha1((job.cfg + exec_text(h, cmds)).encode()).hexdigest()
            seen.add(key)
            if i in okx:
                nontrivial.add(key)
    return {"executions": total, "distinct": len(seen), "distinct_nontrivial": len(nontrivial), "events": events}
