"""Registry of the checks that are not served by the seq driver: property -> {"jobs": fn(prop, tier, seed) -> [engine.Job], ...}.
Each entry lives in its own plans_<name>.py module."""
import importlib

PROPS = {}
for mod in ("plans_tables", "plans_construct", "plans_lowlevel", "plans_compose", "plans_threads", "plans_temp",
            "plans_containers"):
    try:
        m = importlib.import_module("vlib." + mod)
    except ModuleNotFoundError as e:
        if e.name != "vlib." + mod:
            raise
        continue
    PROPS.update(m.PROPS)
