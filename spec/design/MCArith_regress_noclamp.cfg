SPECIFICATION Spec
CONSTANTS
 W = 13
 MaxAl = 16
 MinElPtr = 8
 Clamp = FALSE
 Parts = {"bucket"}
INVARIANT BucketInsideArray
CHECK_DEADLOCK FALSE
