\* witness: exact fit with alignment padding between two pieces (must be VIOLATED)
SPECIFICATION Spec
CONSTANTS S = 4
          MaxAdd = 20
          Bases = {8, 10}
          Aligns = {1, 2, 4}
          MaxSize = 5
          MaxAllocs = 3
          NMembers = 2
          CloneBases = "same"
          EmptyRange = FALSE
          Bug = "none"
INVARIANT NotWitnessExactFit
CHECK_DEADLOCK FALSE
