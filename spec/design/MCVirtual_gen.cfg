SPECIFICATION GenSpec
CONSTANTS
 NBlocks = 6
 MaxFails = 2
 CursorAfterCheck = TRUE
 MoveBeforeDecommit = TRUE
INVARIANT CommittedAreOut
INVARIANT CursorBehindYoungest
INVARIANT NoStrayRange
CHECK_DEADLOCK FALSE
CONSTRAINT HistBound
ACTION_CONSTRAINT Emit
