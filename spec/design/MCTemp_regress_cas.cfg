SPECIFICATION Spec
CONSTANTS
 Threads = {1,2,3}
 Main = 1
 MaxNodes = 3
 MaxOps = 2
 FixUninit = TRUE
 FixDetector = TRUE
 FixNifty = TRUE
 AtomicAdopt = FALSE
 RefreshExpected = TRUE
 ReleaseLast = TRUE
INVARIANT NoShare
CHECK_DEADLOCK FALSE
