SPECIFICATION Spec
CONSTANTS
 Slots = {10,11,12,20,21,22,23}
 MaxHalves = 4
 CeilFix = TRUE
 MaxHist = 99
INVARIANT ListWellFormed
INVARIANT FreeAndLiveDisjoint
INVARIANT LiveDisjoint
INVARIANT NoNodeLost
VIEW View
CHECK_DEADLOCK FALSE
