----------------------------- MODULE LeakCounter -----------------------------
(***************************************************************************)
(* Design model of the leak accounting (detail/debug_helpers.hpp):         *)
(*  - global_leak_checker_impl: one process-wide atomic counter shared by  *)
(*    all objects of a stateless low-level allocator type; on_allocate /   *)
(*    on_deallocate add and subtract (one atomic read-modify-write each);  *)
(*    the last counter object to die reports the net if it is not zero.    *)
(*  - object_leak_checker: one counter per allocator object; the           *)
(*    destructor reports a non-zero count; move construction and move      *)
(*    assignment carry the count over and zero the source.                 *)
(* Atomic = FALSE models the read-modify-write split into a load and a     *)
(* store (lost updates under concurrency); MoveZeroes = FALSE a move that  *)
(* forgets to zero the source (double report).                             *)
(***************************************************************************)
EXTENDS Naturals, Integers, Sequences, FiniteSets, TLC
CONSTANTS Threads, Ops, Atomic, MoveZeroes
VARIABLES counter,   \* the shared counter of the global checker
          pc, tmp, done, net,          \* per thread: program counter, loaded value, operations done, true net
          objcount, objalive, reports, \* object checker: count per object (2 objects), liveness, reports made
          truth, lives                 \* ghost: net of the memory the object really holds; number of objects created
vars == <<counter, pc, tmp, done, net, objcount, objalive, reports, truth, lives>>
Objs == {1, 2}
Init == /\ counter = 0 /\ pc = [t \in Threads |-> "idle"] /\ tmp = [t \in Threads |-> 0]
        /\ done = [t \in Threads |-> 0] /\ net = [t \in Threads |-> 0]
        /\ objcount = [o \in Objs |-> 0] /\ objalive = [o \in Objs |-> o = 1] /\ reports = <<>>
        /\ truth = [o \in Objs |-> 0] /\ lives = 1

(* global checker: each thread allocates (+1) and deallocates (-1) alternately *)
Delta(t) == IF done[t] % 2 = 0 THEN 1 ELSE -1
Step(t) ==
  /\ done[t] < Ops
  /\ IF Atomic
     THEN /\ pc[t] = "idle" /\ counter' = counter + Delta(t)
          /\ done' = [done EXCEPT ![t] = @ + 1] /\ net' = [net EXCEPT ![t] = @ + Delta(t)] /\ UNCHANGED <<pc, tmp>>
     ELSE IF pc[t] = "idle"
          THEN /\ tmp' = [tmp EXCEPT ![t] = counter] /\ pc' = [pc EXCEPT ![t] = "loaded"] /\ UNCHANGED <<counter, done, net>>
          ELSE /\ counter' = tmp[t] + Delta(t) /\ pc' = [pc EXCEPT ![t] = "idle"]
               /\ done' = [done EXCEPT ![t] = @ + 1] /\ net' = [net EXCEPT ![t] = @ + Delta(t)] /\ UNCHANGED tmp
  /\ UNCHANGED <<objcount, objalive, reports, truth, lives>>

(* object checker, single threaded *)
ObjAlloc(o) == /\ objalive[o] /\ truth[o] < 2 /\ objcount' = [objcount EXCEPT ![o] = @ + 1] /\ truth' = [truth EXCEPT ![o] = @ + 1]
               /\ UNCHANGED <<counter, pc, tmp, done, net, objalive, reports, lives>>
ObjFree(o) == /\ objalive[o] /\ truth[o] > 0 /\ objcount' = [objcount EXCEPT ![o] = @ - 1] /\ truth' = [truth EXCEPT ![o] = @ - 1]
              /\ UNCHANGED <<counter, pc, tmp, done, net, objalive, reports, lives>>
ObjMove(a, b) == /\ objalive[a] /\ ~objalive[b] /\ a # b /\ lives < 4 /\ lives' = lives + 1
                 /\ truth' = [truth EXCEPT ![b] = truth[a], ![a] = 0]
                 /\ objcount' = [objcount EXCEPT ![b] = objcount[a], ![a] = IF MoveZeroes THEN 0 ELSE @]
                 /\ objalive' = [objalive EXCEPT ![b] = TRUE] /\ UNCHANGED <<counter, pc, tmp, done, net, reports>>
ObjDestroy(o) == /\ objalive[o] /\ objalive' = [objalive EXCEPT ![o] = FALSE]
                 /\ reports' = IF objcount[o] # 0 THEN Append(reports, [o |-> o, amt |-> objcount[o], truth |-> truth[o]]) ELSE reports
                 /\ objcount' = [objcount EXCEPT ![o] = 0] /\ truth' = [truth EXCEPT ![o] = 0] /\ UNCHANGED <<counter, pc, tmp, done, net, lives>>
Next == (\E t \in Threads : Step(t)) \/ (\E o \in Objs : ObjAlloc(o) \/ ObjFree(o) \/ ObjDestroy(o) \/ \E b \in Objs : ObjMove(o, b))
Spec == Init /\ [][Next]_vars

RECURSIVE SumNet(_)
SumNet(S) == IF S = {} THEN 0 ELSE LET t == CHOOSE t \in S : TRUE IN net[t] + SumNet(S \ {t})
Quiescent == \A t \in Threads : pc[t] = "idle"
\* C13 / C15: at quiescence the counter is the true net (no lost update)
CounterIsNet == Quiescent => counter = SumNet(Threads)
\* C15: the count of an object is the net of the memory it really holds (a move carries it over), every
\* report states exactly that amount, and a balanced object dies silently
CountFollowsMemory == \A o \in Objs : objalive[o] => objcount[o] = truth[o]
ReportsAreExact == \A i \in 1..Len(reports) : reports[i].amt = reports[i].truth /\ reports[i].amt # 0
NotWitnessInterleaved == ~(\E a, b \in Threads : a # b /\ pc[a] = "loaded" /\ pc[b] = "loaded")
=============================================================================
