---------------------------- MODULE MCComposeGen ----------------------------
(***************************************************************************)
(* Behaviour generation for request routing through fallback compositions: *)
(* `hist' records for every top-level request which leaf the model says    *)
(* serves it and in which shape (node / array, count, size) the leaf is    *)
(* asked, and for every release which leaf gets the memory back in which   *)
(* shape.  The driver `compose' executes the requests on the real          *)
(* compositions fb, fb_n, fb_nest, fb_nest2 over instrumented leaves with  *)
(* the model's capacities (sizes in units of 8 bytes); the leaf events of  *)
(* the trace are compared with the prediction (header key cexpect).        *)
(***************************************************************************)
EXTENDS Compose, Json
CapSmall == <<2, 3, 100>>
CapSeg == <<6, 10, 100>>
ArrAll == <<TRUE, TRUE, TRUE>>
ArrNone1 == <<FALSE, TRUE, TRUE>>
VARIABLE hist
\* position of allocation a among the live ones, oldest first (what the driver's `d k' addresses)
Pos(a) == Cardinality({b \in live : b.id < a.id})
GenInit == Init /\ hist = <<>>
GenNext ==
  \/ \E sz \in Sizes :
       AllocNode(sz) /\ LET r == MNode(Root, sz)
                        IN hist' = Append(hist, [op |-> "an", n |-> 1, sz |-> sz, leaf |-> r.leaf, kind |-> r.kind, qn |-> r.n, qsz |-> r.sz])
  \/ \E n \in Counts, sz \in Sizes :
       AllocArray(n, sz) /\ LET r == TArray(Root, n, sz)
                            IN hist' = Append(hist, [op |-> "aa", n |-> n, sz |-> sz, leaf |-> r.leaf, kind |-> r.kind, qn |-> r.n, qsz |-> r.sz])
  \/ \E a \in live :
       Dealloc(a) /\ LET q == IF a.rk = "n" THEN MDNode(Root, a, a.rsz) ELSE TDArray(Root, a, a.rn, a.rsz)
                     IN hist' = Append(hist, [op |-> "d", n |-> Pos(a), sz |-> 0, leaf |-> q.leaf, kind |-> q.kind, qn |-> q.n, qsz |-> q.sz])
GenSpec == GenInit /\ [][GenNext]_<<vars, hist>>
HistBound == Len(hist) < 6
HistBound5 == Len(hist) < 5
Emit == PrintT(<<"BEHAVIOUR", ToJson(hist')>>)
=============================================================================
