---------------------------- MODULE SmallLayout ----------------------------
(***************************************************************************)
(* Design model for the table part of property C18 of foonathan/memory:    *)
(* "a pool constructed with the block size returned by min_block_size for  *)
(* n nodes can serve n allocations without growing".                       *)
(*                                                                         *)
(* Transcribed, not idealised, from                                        *)
(*   memory_arena.hpp    memory_block_stack::implementation_offset, push   *)
(*   memory_pool.hpp     memory_pool::min_block_size, constructor          *)
(*   memory_stack.hpp    memory_stack::min_block_size (same as the arena)  *)
(*   detail/free_list.hpp, src/detail/free_list.cpp                        *)
(*                       (ordered_)free_memory_list::min_block_size,       *)
(*                       constructor (node size), insert, usable_size      *)
(*   detail/small_free_list.hpp, src/detail/small_free_list.cpp            *)
(*                       chunk_memory_offset, chunk_max_nodes, chunk_count,*)
(*                       min_block_size, insert (chunk arithmetic with the *)
(*                       alignment buffer between chunks), chunk::chunk    *)
(*                       (unsigned char node count), usable_size           *)
(*                                                                         *)
(* The constant Formula selects small_free_memory_list::min_block_size as  *)
(* written in the pinned sources ("original") or the proposed repair       *)
(* ("repaired").  With "original" TLC finds F16: min_block_size multiplies *)
(* the number of chunks by chunk_memory_offset + 255 * node_size, but       *)
(* insert() advances by that amount PLUS align_offset(.., alignof(chunk)), *)
(* so the last chunk gets fewer than 255 nodes (first: node size 1,        *)
(* n = 510 -> 509 nodes).                                                  *)
(*                                                                         *)
(* One state per node size (below a root and Groups group states, so that  *)
(* TLC's workers share the work); `short' holds the node counts n for      *)
(* which the block is too small, per pool type.                            *)
(***************************************************************************)
EXTENDS Naturals, Integers, FiniteSets, TLC

CONSTANTS MaxAlign,        \* detail::max_alignment
          SizeofChunkBase, \* sizeof(detail::chunk_base): two pointers + three unsigned char, padded
          AlignofChunk,    \* alignof(detail::chunk)
          SizeofStackNode, \* sizeof(memory_block_stack::node): pointer + size_t
          MinElPtr,        \* (ordered_)free_memory_list::min_element_size = sizeof(char*)
          NSMax, NMax,     \* node sizes 1..NSMax, node counts 1..NMax
          Groups,
          Formula          \* "original" | "repaired"

ASSUME Formula \in {"original", "repaired"}

Max(a, b) == IF a > b THEN a ELSE b

\* detail/align.hpp on values far below the word size (Arith.tla relates these to the bit tricks)
AlignOffset(a, al) == (al - (a % al)) % al
RoundUpToMultiple(a, al) == a + AlignOffset(a, al)

-----------------------------------------------------------------------------
(* memory_arena.hpp *)
\* (sizeof(node) / max_alignment + (sizeof(node) % max_alignment != 0)) * max_alignment
ImplementationOffset ==
  (SizeofStackNode \div MaxAlign + (IF SizeofStackNode % MaxAlign # 0 THEN 1 ELSE 0)) * MaxAlign
\* memory_block_stack::push / top: the inserted block is smaller by implementation_offset
InsertedSize(blockSize) == blockSize - ImplementationOffset
\* memory_arena::min_block_size, memory_stack::min_block_size
ArenaMinBlockSize(bytes) == ImplementationOffset + bytes

-----------------------------------------------------------------------------
(* free_list.hpp / free_list.cpp: node_pool and array_pool *)
\* constructor: node_size > min_element_size ? node_size : min_element_size
ListNodeSize(ns) == IF ns > MinElPtr THEN ns ELSE MinElPtr
\* (node_size < min_element_size ? min_element_size : node_size) * number_of_nodes
ListMinBlockSize(ns, n) == (IF ns < MinElPtr THEN MinElPtr ELSE ns) * n
\* insert_impl: no_nodes = size / node_size_
ListInsertYield(ns, size) == size \div ListNodeSize(ns)
\* usable_size: (size / node_size_) * node_size_
ListUsableSize(ns, size) == (size \div ListNodeSize(ns)) * ListNodeSize(ns)

-----------------------------------------------------------------------------
(* small_free_list.hpp / small_free_list.cpp: small_node_pool *)
ChunkMemoryOffset ==
  IF SizeofChunkBase % MaxAlign = 0 THEN SizeofChunkBase
  ELSE (SizeofChunkBase \div MaxAlign + 1) * MaxAlign
ChunkMaxNodes == 255
\* number_of_nodes / chunk_max_nodes + (number_of_nodes % chunk_max_nodes == 0 ? 0 : 1)
ChunkCount(n) == n \div ChunkMaxNodes + (IF n % ChunkMaxNodes = 0 THEN 0 ELSE 1)

\* pinned sources: chunk_count(n) * (chunk_memory_offset + chunk_max_nodes * node_size)
SmallMinBlockSizeOriginal(ns, n) == ChunkCount(n) * (ChunkMemoryOffset + ChunkMaxNodes * ns)
\* repair: a chunk occupies its size rounded up to alignof(chunk), exactly as insert() lays it out
SmallMinBlockSizeRepaired(ns, n) ==
  ChunkCount(n) * RoundUpToMultiple(ChunkMemoryOffset + ChunkMaxNodes * ns, AlignofChunk)
SmallMinBlockSize(ns, n) ==
  IF Formula = "original" THEN SmallMinBlockSizeOriginal(ns, n) ELSE SmallMinBlockSizeRepaired(ns, n)

\* chunk::chunk: static_cast<unsigned char>((total_memory - chunk_memory_offset) / node_size)
ChunkNodes(totalMemory, ns) == ((totalMemory - ChunkMemoryOffset) \div ns) % 256
\* ... and the assertion next to it
ChunkNodesFit(totalMemory, ns) == (totalMemory - ChunkMemoryOffset) \div ns <= ChunkMaxNodes

\* insert(mem, size): nodes added to the list
SmallInsert(ns, size) ==
  LET total == ChunkMemoryOffset + ns * ChunkMaxNodes
      buf == AlignOffset(total, AlignofChunk)
      noChunks == size \div (total + buf)
      remainder == size % (total + buf)
      last == remainder >= ChunkMemoryOffset + ns
  IN [nodes |-> noChunks * ChunkMaxNodes + (IF last THEN ChunkNodes(remainder, ns) ELSE 0),
      fits |-> ~last \/ ChunkNodesFit(remainder, ns),
      buf |-> buf, chunks |-> noChunks + (IF last THEN 1 ELSE 0)]
SmallInsertYield(ns, size) == SmallInsert(ns, size).nodes

\* usable_size(size) (what next_capacity() reports); not used by the invariants below
SmallUsableSize(ns, size) ==
  LET total == ChunkMemoryOffset + ns * ChunkMaxNodes
      noChunks == size \div total
      remainder == size % total
  IN noChunks * ChunkMaxNodes * ns + (IF remainder > ChunkMemoryOffset THEN remainder - ChunkMemoryOffset ELSE 0)

-----------------------------------------------------------------------------
(* memory_pool.hpp *)
Pools == {"node", "array", "small"}
\* implementation_offset() + free_list::min_block_size(node_size, number_of_nodes)
PoolMinBlockSize(pool, ns, n) ==
  ImplementationOffset + (IF pool = "small" THEN SmallMinBlockSize(ns, n) ELSE ListMinBlockSize(ns, n))
\* constructor: arena block of block_size, pushed (minus the offset), inserted into the free list
PoolYield(pool, ns, blockSize) ==
  IF pool = "small" THEN SmallInsertYield(ns, InsertedSize(blockSize))
  ELSE ListInsertYield(ns, InsertedSize(blockSize))

\* the node counts for which min_block_size is too small
Short(pool, k) == {n \in 1..NMax : PoolYield(pool, k, PoolMinBlockSize(pool, k, n)) < n}

-----------------------------------------------------------------------------
VARIABLES grp,    \* -1 root, else the work group
          ns,     \* 0 or the node size this state is about
          short   \* pool type -> set of n with Yield(MinBlockSize(ns, n)) < n
vars == <<grp, ns, short>>

None == [p \in Pools |-> {}]
Init == grp = -1 /\ ns = 0 /\ short = None
Next ==
  \/ grp = -1 /\ grp' \in 0..(Groups - 1) /\ UNCHANGED <<ns, short>>
  \/ grp # -1 /\ ns = 0 /\ ns' \in {k \in 1..NSMax : k % Groups = grp}
       /\ short' = [p \in Pools |-> Short(p, ns')] /\ UNCHANGED grp
Spec == Init /\ [][Next]_vars

\* C18: yield(min_block_size(ns, n)) >= n for every pool type
MinBlockSizeSuffices == \A p \in Pools : short[p] = {}
MinBlockSizeSufficesIntrusive == short["node"] = {} /\ short["array"] = {}

\* the unsigned char node count of a chunk never truncates for blocks of min_block_size
ChunkCountFitsUnsignedChar ==
  ns > 0 => \A n \in 1..NMax : SmallInsert(ns, InsertedSize(PoolMinBlockSize("small", ns, n))).fits

\* the stack / arena formula: the inserted block has exactly the requested number of bytes
ArenaMinBlockSizeExact == ns > 0 => \A b \in 1..NMax : InsertedSize(ArenaMinBlockSize(b)) = b

\* witness (must be violated): there are node sizes with a non-zero alignment buffer for which more
\* than one chunk is needed, i.e. the situation in which the buffer matters is inside the bounds
NotWitnessBufferBetweenChunks ==
  ns > 0 => ~(\E n \in 1..NMax :
                LET r == SmallInsert(ns, InsertedSize(PoolMinBlockSize("small", ns, n)))
                IN r.buf > 0 /\ r.chunks > 1)
=============================================================================
