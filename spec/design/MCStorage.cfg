SPECIFICATION Spec
CONSTANTS
 Threads = {1, 2, 3}
 Members = {"allocate_node", "try_allocate_node", "max_node_size"}
 Unlocked = {}
 Calls = 2
 Nodes = 8
INVARIANT AtMostOneInside
INVARIANT InsideHoldsMutex
INVARIANT NoNodeTwice
CHECK_DEADLOCK FALSE
