SPECIFICATION Spec
CONSTANTS
 Threads = {1,2,3,4}
 Main = 1
 MaxNodes = 3
 MaxOps = 2
 FixUninit = TRUE
 FixDetector = TRUE
 FixNifty = TRUE
 AtomicAdopt = TRUE
 RefreshExpected = TRUE
 ReleaseLast = TRUE
INVARIANT NoShare
INVARIANT OwnedInUse
INVARIANT Reclaimed
INVARIANT ListComplete
INVARIANT FreedAtExit
CHECK_DEADLOCK FALSE
