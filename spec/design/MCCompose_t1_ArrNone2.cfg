SPECIFICATION Spec
CONSTANTS
 Tree = 1
 Cap <- CapSmall
 HasArray <- ArrNone2
 FbHasTryAllocArray = TRUE
 SegByTotal = TRUE
 MaxLive = 4
INVARIANT ReleasedAsAllocated
INVARIANT UsedWithinCapacity
VIEW View
CHECK_DEADLOCK FALSE
