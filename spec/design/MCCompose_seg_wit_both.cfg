SPECIFICATION Spec
CONSTANTS
 Tree = 4
 Cap <- CapSeg
 HasArray <- ArrAll
 FbHasTryAllocArray = TRUE
 SegByTotal = TRUE
 MaxLive = 4
INVARIANT NotWitnessSegBothSides
VIEW View
CHECK_DEADLOCK FALSE
