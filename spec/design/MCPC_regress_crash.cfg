SPECIFICATION Spec
CONSTANTS
 U = 9
 NS <- NS24
 MaxBlocks = 2
 MaxLive = 7
 FixRest = FALSE
 MaxHist = 99
INVARIANT NoCrash
VIEW View
CHECK_DEADLOCK FALSE
