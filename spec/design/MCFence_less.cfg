SPECIFICATION Spec
CONSTANTS
  MaxF = 3
  MaxS = 3
  MaxWrites = 2
  Defect = "one_byte_less"
INVARIANTS
  TypeOK
  OverflowReportedAtFirstDirtyByte
  ReportsArePrefix
  InBoundsNeverReported
  NoFenceNoReport
  FreshMemoryIsNewPattern
  ReleasedMemoryIsFreedPattern
CHECK_DEADLOCK FALSE
