----------------------------- MODULE MCJointGen -----------------------------
(***************************************************************************)
(* Behaviour generation for the joint stack: one joint object of S bytes   *)
(* with `add' additional bytes at a block address with residue 0 or 8      *)
(* modulo 16, then raw requests through joint_allocator (size, alignment)  *)
(* and releases of any of them.  `hist' records for every step the outcome *)
(* and the live pieces (index, offset from the object, size) the model     *)
(* predicts; the driver `construct' executes the steps on a real joint_ptr *)
(* over the leaf allocator (which places the block at an even / odd        *)
(* multiple of the object's alignment) and the recorded pieces are         *)
(* compared with the prediction (header key jexpect).                      *)
(***************************************************************************)
EXTENDS Joint, Json
CONSTANTS GenAdds, GenSizes, GenAligns
VARIABLE hist
LivePieces(ps) == [k \in 1..Cardinality({i \in 1..Len(ps) : ps[i].live}) |->
                     LET i == CHOOSE i \in 1..Len(ps) : ps[i].live /\ Cardinality({j \in 1..i : ps[j].live}) = k
                     IN <<i - 1, ps[i].addr - base', ps[i].sz>>]
GenInit == Init /\ hist = <<>>
GenNext ==
  \/ \E b \in Bases, add \in GenAdds :
       Create(b, add) /\ hist' = Append(hist, [op |-> "create", a |-> b % 16, b |-> add, res |-> "ok", live |-> <<>>])
  \/ \E sz \in GenSizes, al \in GenAligns :
       Alloc(sz, al) /\ hist' = Append(hist, [op |-> "alloc", a |-> sz, b |-> al, res |-> last', live |-> LivePieces(pieces')])
  \/ \E i \in 1..MaxAllocs :
       Dealloc(i) /\ hist' = Append(hist, [op |-> "free", a |-> i - 1, b |-> 0, res |-> "ok", live |-> LivePieces(pieces')])
GenSpec == GenInit /\ [][GenNext]_<<vars, hist>>
Emit == PrintT(<<"BEHAVIOUR", ToJson(hist')>>)
=============================================================================
