-------------------------------- MODULE Joint --------------------------------
(***************************************************************************)
(* Design model of joint allocations in foonathan/memory                   *)
(* (joint_allocator.hpp, detail/memory_stack.hpp), transcribed:            *)
(*                                                                         *)
(*  joint_ptr::create     mem = allocate_node(sizeof(T) + add, alignof(T)) *)
(*                        joint_stack(mem + sizeof(T), add)                *)
(*  joint_stack::allocate fixed_memory_stack::allocate(end, size, al, 0):  *)
(*                          remaining = end - cur                          *)
(*                          offset = align_offset(cur, al)                 *)
(*                          if (offset + size > remaining) return nullptr  *)
(*                          cur += offset; mem = cur; cur += size          *)
(*                        nullptr -> throw out_of_fixed_memory             *)
(*  joint_stack::bump     if (offset > end - top) return false; top += off *)
(*                        (joint_array range constructor, element by       *)
(*                        element; false -> throw out_of_fixed_memory)     *)
(*  joint_allocator::deallocate_node(ptr, size)                            *)
(*                        if (ptr + size == top) unwind(ptr)               *)
(*  joint_ptr::reset      ~T; deallocate_node(ptr, sizeof(T) +             *)
(*                          stack.capacity(get_memory(obj)), alignof(T))   *)
(*                        capacity(mem) = end - mem                        *)
(*  clone_joint           create(capacity_used(source), copy of T) where   *)
(*                        the copy constructor allocates the members'      *)
(*                        pieces again in order                            *)
(*                                                                         *)
(* Addresses are small integers; the block base is a multiple of BA        *)
(* (= alignof(T)) chosen from Bases.  Invariants = the clauses of C11.     *)
(***************************************************************************)
EXTENDS Integers, Sequences, FiniteSets, TLC

CONSTANTS S,         \* sizeof(T)
          MaxAdd,    \* largest additional size (S + MaxAdd = largest block)
          Bases,     \* possible block addresses (multiples of alignof(T))
          Aligns,    \* alignments of requests
          MaxSize,   \* largest request
          MaxAllocs, \* number of requests per object
          NMembers,  \* the first NMembers requests come from members of T (copied by clone_joint),
                     \* the later ones are raw requests through joint_allocator (may be released)
          CloneBases,\* "same": the copy's block has the residue of the source's; "any"
          EmptyRange,\* TRUE: members built from an empty iterator range exist (no allocation, but
                     \* copying them allocates 0 bytes aligned)
          Bug        \* "none" or a seeded defect

VARIABLES phase,   \* "none" | "live" | "released"
          base, asize,       \* block address / size passed to allocate_node
          top, end,          \* joint stack
          pieces,            \* sequence of [addr, sz, al, live, member]; member: copied by clone
          nreq,              \* requests so far
          last,              \* outcome of the last request: "none" | "ok" | "oofm"
          rsize, nrel,       \* size passed to the release, number of releases
          objd,              \* destructions of the object
          cl                 \* the copy: [state, base, asize, top, end, pieces] (state "none"|"ok"|"oofm")

vars == <<phase, base, asize, top, end, pieces, nreq, last, rsize, nrel, objd, cl>>

AlignOffset(a, al) == (al - (a % al)) % al
NoClone == [state |-> "none", base |-> 0, asize |-> 0, top |-> 0, end |-> 0, pieces |-> <<>>]

Init == /\ phase = "none" /\ base = 0 /\ asize = 0 /\ top = 0 /\ end = 0 /\ pieces = <<>> /\ nreq = 0
        /\ last = "none" /\ rsize = -1 /\ nrel = 0 /\ objd = 0 /\ cl = NoClone

(* joint_ptr::create *)
Create(b, add) ==
  /\ phase = "none"
  /\ phase' = "live" /\ base' = b /\ asize' = S + add
  /\ top' = b + S /\ end' = b + S + add
  /\ UNCHANGED <<pieces, nreq, last, rsize, nrel, objd, cl>>

\* what fixed_memory_stack::allocate computes for (t, e); result [ok, addr, top]
StackAlloc(t, e, sz, al) ==
  LET remaining == e - t
      offset == IF Bug = "alignment_dropped" THEN 0 ELSE AlignOffset(t, al)
      limit == IF Bug = "bound_off_by_one" THEN remaining + 1 ELSE remaining
  IN IF offset + sz > limit THEN [ok |-> FALSE, addr |-> 0, top |-> t]
     ELSE [ok |-> TRUE, addr |-> t + offset, top |-> t + offset + sz]

(* joint_allocator::allocate_node / joint_array(size): a member's or a raw request *)
Alloc(sz, al) ==
  /\ phase = "live" /\ nreq < MaxAllocs /\ cl.state = "none"
  /\ LET r == StackAlloc(top, end, sz, al)
         member == nreq < NMembers
     IN IF r.ok
        THEN /\ pieces' = Append(pieces, [addr |-> r.addr, sz |-> sz, al |-> al, live |-> TRUE, member |-> member])
             /\ top' = r.top /\ last' = "ok"
        ELSE /\ last' = "oofm" /\ UNCHANGED <<pieces, top>>
  /\ nreq' = nreq + 1
  /\ UNCHANGED <<phase, base, asize, end, rsize, nrel, objd, cl>>

(* a member built from an empty range: no allocation at all, ptr_ = nullptr *)
EmptyMember(al) ==
  /\ EmptyRange /\ phase = "live" /\ nreq < NMembers /\ cl.state = "none"
  /\ pieces' = Append(pieces, [addr |-> -1, sz |-> 0, al |-> al, live |-> TRUE, member |-> TRUE])
  /\ nreq' = nreq + 1
  /\ UNCHANGED <<phase, base, asize, top, end, last, rsize, nrel, objd, cl>>

(* joint_array range constructor: one more element of the last piece via joint_stack::bump *)
Bump(sz) ==
  /\ phase = "live" /\ pieces # <<>> /\ cl.state = "none"
  /\ LET p == pieces[Len(pieces)]
     IN /\ p.member /\ p.live /\ p.addr >= 0 /\ p.addr + p.sz = top /\ p.sz > 0 /\ sz = p.al   \* elements of size = alignment
        /\ IF sz > end - top
           THEN last' = "oofm" /\ UNCHANGED <<pieces, top>>
           ELSE /\ top' = top + sz /\ last' = "ok"
                /\ pieces' = [pieces EXCEPT ![Len(pieces)].sz = @ + sz]
  /\ UNCHANGED <<phase, base, asize, end, nreq, rsize, nrel, objd, cl>>

(* joint_allocator::deallocate_node(ptr, size, al): only the last allocation is really released *)
Dealloc(i) ==
  /\ phase = "live" /\ i \in 1..Len(pieces) /\ pieces[i].live /\ ~pieces[i].member /\ cl.state = "none"
  /\ LET p == pieces[i]
     IN top' = IF p.addr + p.sz = top \/ Bug = "always_unwind" THEN p.addr ELSE top
  /\ pieces' = [pieces EXCEPT ![i].live = FALSE]
  /\ UNCHANGED <<phase, base, asize, end, nreq, last, rsize, nrel, objd, cl>>

(* clone_joint: block of sizeof(T) + capacity_used, members allocated again in order *)
RECURSIVE CopyMembers(_, _, _, _)
CopyMembers(ps, i, t, e) ==   \* returns [ok, top, pieces]
  IF i > Len(ps) THEN [ok |-> TRUE, top |-> t, pieces |-> <<>>]
  ELSE IF ~ps[i].member THEN CopyMembers(ps, i + 1, t, e)
  ELSE LET r == StackAlloc(t, e, ps[i].sz, ps[i].al)
       IN IF ~r.ok THEN [ok |-> FALSE, top |-> t, pieces |-> <<>>]
          ELSE LET rest == CopyMembers(ps, i + 1, r.top, e)
               IN [ok |-> rest.ok, top |-> rest.top,
                   pieces |-> <<[addr |-> r.addr, sz |-> ps[i].sz, al |-> ps[i].al, live |-> TRUE, member |-> TRUE]>> \o rest.pieces]

Clone(b) ==
  /\ phase = "live" /\ cl.state = "none"
  /\ \A i \in 1..Len(pieces) : pieces[i].live
  /\ (CloneBases = "same" => b % 4 = base % 4)
  /\ LET used == top - (base + S)
         r == CopyMembers(pieces, 1, b + S, b + S + used)
     IN cl' = [state |-> IF r.ok THEN "ok" ELSE "oofm", base |-> b, asize |-> S + used, top |-> r.top,
               end |-> b + S + used, pieces |-> r.pieces]
  /\ UNCHANGED <<phase, base, asize, top, end, pieces, nreq, last, rsize, nrel, objd>>

(* joint_ptr::reset / ~joint_ptr *)
Reset ==
  /\ phase = "live"
  /\ objd' = objd + 1
  /\ rsize' = IF Bug = "release_sizeof_only" THEN S ELSE S + (end - (base + S))   \* sizeof(T) + capacity(get_memory)
  /\ nrel' = nrel + 1
  /\ phase' = "released"
  /\ UNCHANGED <<base, asize, top, end, pieces, nreq, last, cl>>

Next ==
  \/ \E b \in Bases, add \in 0..MaxAdd : Create(b, add)
  \/ \E sz \in 0..MaxSize, al \in Aligns : Alloc(sz, al)
  \/ \E al \in Aligns : EmptyMember(al)
  \/ \E sz \in Aligns : Bump(sz)
  \/ \E i \in 1..MaxAllocs : Dealloc(i)
  \/ \E b \in Bases : Clone(b)
  \/ Reset

Spec == Init /\ [][Next]_vars

-----------------------------------------------------------------------------
(* the clauses of C11 *)
Real(ps) == {i \in 1..Len(ps) : ps[i].live /\ ps[i].addr >= 0}
InBlock(ps, b, sz) == \A i \in Real(ps) : ps[i].addr >= b + S /\ ps[i].addr + ps[i].sz <= b + sz
Disjoint(ps) == \A i, j \in Real(ps) : i < j => (ps[i].sz = 0 \/ ps[j].sz = 0
                                               \/ ps[i].addr + ps[i].sz <= ps[j].addr \/ ps[j].addr + ps[j].sz <= ps[i].addr)
AlignedAll(ps) == \A i \in Real(ps) : ps[i].addr % ps[i].al = 0

PieceAfterObjectInsideBlock == phase = "live" => InBlock(pieces, base, asize)
PiecesDisjoint == phase = "live" => Disjoint(pieces)
PieceAligned == phase = "live" => AlignedAll(pieces)
\* a refused request changes nothing and is reported as out_of_fixed_memory (by transcription: `last');
\* a served one never moves the top beyond the end
OverflowThrowsFixedMemory == phase = "live" => top <= end /\ top >= base + S
ObjectDestroyedOnce == objd <= 1 /\ (phase = "released" => objd = 1)
BlockReleasedOnceSameSizeAlign == nrel <= 1 /\ (phase = "released" => rsize = asize)
CloneIndependent ==
  cl.state = "ok" => /\ InBlock(cl.pieces, cl.base, cl.asize)
                     /\ Disjoint(cl.pieces) /\ AlignedAll(cl.pieces)
\* clone_joint of a valid object succeeds (finding D2/D3 when CloneBases = "any" / EmptyRange)
CloneSucceeds == cl.state # "oofm"

\* witnesses
NotWitnessExactFit == ~(phase = "live" /\ top = end /\ Cardinality(Real(pieces)) >= 2
                        /\ \E i \in Real(pieces) : i > 1 /\ pieces[i].addr > pieces[i - 1].addr + pieces[i - 1].sz)
NotWitnessReuse == ~(phase = "live" /\ \E i, j \in 1..Len(pieces) : i < j /\ ~pieces[i].live /\ pieces[j].live
                                          /\ pieces[j].addr >= 0 /\ pieces[i].addr = pieces[j].addr /\ pieces[i].sz > 0)
NotWitnessOverflow == ~(last = "oofm" /\ Len(pieces) >= 1)
=============================================================================
