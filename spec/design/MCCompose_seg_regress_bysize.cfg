SPECIFICATION Spec
CONSTANTS
 Tree = 4
 Cap <- CapSeg
 HasArray <- ArrAll
 FbHasTryAllocArray = TRUE
 SegByTotal = FALSE
 MaxLive = 4
INVARIANT ReleasedAsAllocated
VIEW View
CHECK_DEADLOCK FALSE
