SPECIFICATION Spec
CONSTANTS
 W = 13
 MaxAl = 16
 MinElPtr = 8
 Clamp = TRUE
 Parts = {"align"}
INVARIANT NotWitnessRoundUpWraps
CHECK_DEADLOCK FALSE
