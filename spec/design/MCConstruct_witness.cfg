\* witness: a throw after at least two elements were constructed is reachable (must be VIOLATED)
SPECIFICATION Spec
CONSTANTS MaxN = 4
          Helpers = {"unique", "shared", "array", "jarray", "jcreate"}
          Bug = "none"
INVARIANT NotWitness
CHECK_DEADLOCK FALSE
