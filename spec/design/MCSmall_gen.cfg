SPECIFICATION Spec
CONSTANTS
 C = 2
 K = 2
 MoveFix = TRUE
 MaxHist = 9
VIEW View
CHECK_DEADLOCK FALSE
CONSTRAINT HistBound
ACTION_CONSTRAINT Emit
