---------------------------- MODULE PoolCollection ----------------------------
(***************************************************************************)
(* Design model of memory_pool_collection's carving of arena blocks into   *)
(* per-bucket reservations: reserve_memory / try_reserve_memory /          *)
(* insert_rest (memory_pool_collection.hpp), for node requests through the *)
(* throwing (allocate_node) and the composable (try_allocate_node)         *)
(* interface.  A block has U usable units (after the arena header and the  *)
(* free_list_array); `top' is the carving stack; pool[b] is the set of     *)
(* free nodes of bucket b.  DefCap = U div number of buckets, as in        *)
(* def_capacity().  FixRest selects insert_rest as repaired (consumes the  *)
(* remainder, skips remainders smaller than a node) or as originally       *)
(* written.  MaxBlocks = 1 models a fixed_block_allocator.                 *)
(***************************************************************************)
EXTENDS Naturals, Sequences, FiniteSets, TLC, Json
CONSTANTS U, NS, MaxBlocks, MaxLive, FixRest, MaxHist
Buckets == 1..Len(NS)
DefCap == U \div Len(NS)
VARIABLES nb, top, pool, live, crashed, nextid, nulls, hist
vars == <<nb, top, pool, live, crashed, nextid, nulls, hist>>
Init == /\ nb = 1 /\ top = 0 /\ pool = [b \in Buckets |-> {}] /\ live = {} /\ crashed = FALSE
        /\ nextid = 1 /\ nulls = 0 /\ hist = <<>>
Nodes(blk, from, len, ns) == { [blk |-> blk, off |-> from + i * ns, len |-> ns] : i \in 0..((len \div ns) - 1) }

(* insert_rest(pool) *)
InsertRest(b, p, t) ==
   LET rem == U - t IN
   IF rem = 0 THEN [pool |-> p, top |-> t, crash |-> FALSE]
   ELSE IF FixRest
        THEN (IF rem >= NS[b] THEN [pool |-> [p EXCEPT ![b] = @ \cup Nodes(nb, t, rem, NS[b])], top |-> U, crash |-> FALSE]
                               ELSE [pool |-> p, top |-> t, crash |-> FALSE])
        ELSE IF rem < NS[b] THEN [pool |-> p, top |-> t, crash |-> TRUE]     \* no_nodes - 1 wraps
             ELSE [pool |-> [p EXCEPT ![b] = @ \cup Nodes(nb, t, rem, NS[b])], top |-> t, crash |-> FALSE]

\* a free list hands out some node of the bucket (which one is the list's business)
TakeAny(b, p) == \E n \in p[b] :
      /\ live' = live \cup {[id |-> nextid, blk |-> n.blk, off |-> n.off, len |-> n.len, b |-> b]}
      /\ pool' = [p EXCEPT ![b] = @ \ {n}]
      /\ nextid' = nextid + 1

(* allocate_node(size of bucket b) *)
AllocNode(b) ==
   /\ ~crashed /\ Cardinality(live) < MaxLive
   /\ IF pool[b] # {} THEN TakeAny(b, pool) /\ UNCHANGED <<nb, top, crashed>>
      ELSE IF top + DefCap <= U
           THEN /\ top' = top + DefCap
                /\ TakeAny(b, [pool EXCEPT ![b] = Nodes(nb, top, DefCap, NS[b])]) /\ UNCHANGED <<nb, crashed>>
           ELSE LET r == InsertRest(b, pool, top) IN
                IF r.crash THEN crashed' = TRUE /\ UNCHANGED <<nb, top, pool, live, nextid>>
                ELSE /\ nb < MaxBlocks           \* otherwise the block source throws: no state change
                     /\ nb' = nb + 1 /\ top' = DefCap /\ crashed' = FALSE
                     /\ TakeAny(b, [r.pool EXCEPT ![b] = @ \cup Nodes(nb + 1, 0, DefCap, NS[b])])
   /\ UNCHANGED nulls
   /\ hist' = Append(hist, [op |-> "an", k |-> b])

(* try_allocate_node(size of bucket b) *)
TryAllocNode(b) ==
   /\ ~crashed /\ Cardinality(live) < MaxLive
   /\ IF pool[b] # {} THEN TakeAny(b, pool) /\ UNCHANGED <<nb, top, crashed, nulls>>
      ELSE IF top + DefCap <= U
           THEN /\ top' = top + DefCap
                /\ TakeAny(b, [pool EXCEPT ![b] = Nodes(nb, top, DefCap, NS[b])]) /\ UNCHANGED <<nb, crashed, nulls>>
           ELSE LET r == InsertRest(b, pool, top) IN
                IF r.crash THEN crashed' = TRUE /\ UNCHANGED <<nb, top, pool, live, nextid, nulls>>
                ELSE /\ top' = r.top /\ UNCHANGED <<nb, crashed>>
                     /\ IF r.pool[b] = {} THEN pool' = r.pool /\ nulls' = nulls + 1 /\ UNCHANGED <<live, nextid>>
                        ELSE TakeAny(b, r.pool) /\ UNCHANGED nulls
   /\ hist' = Append(hist, [op |-> "tn", k |-> b])

Rank(a) == Cardinality({c \in live : c.id < a.id})
Free == \E a \in live :
   /\ ~crashed
   /\ live' = live \ {a}
   /\ pool' = [pool EXCEPT ![a.b] = @ \cup {[blk |-> a.blk, off |-> a.off, len |-> a.len]}]
   /\ UNCHANGED <<nb, top, crashed, nextid, nulls>>
   /\ hist' = Append(hist, [op |-> "d", k |-> Rank(a)])

Next == (\E b \in Buckets : AllocNode(b) \/ TryAllocNode(b)) \/ Free
Spec == Init /\ [][Next]_vars

Ov(a, c) == a.blk = c.blk /\ a.off < c.off + c.len /\ c.off < a.off + a.len
\* C01
LiveDisjoint == \A a, c \in live : a.id # c.id => ~Ov(a, c)
LiveInside == \A a \in live : a.blk <= nb /\ a.off + a.len <= U
FreeDisjointFromLive == \A b \in Buckets : \A n \in pool[b] : \A a \in live : ~Ov(n, a)
FreeDisjoint == \A b1, b2 \in Buckets : \A n \in pool[b1] : \A m \in pool[b2] : (n # m \/ b1 # b2) => ~Ov(n, m)
NoCrash == ~crashed
\* C03: on a fixed block the composable interface must eventually say no: the number of live
\* allocations can never exceed what the blocks can hold
NeverMoreThanFits == Cardinality(live) <= (nb * U)

NotWitnessRestInserted == ~(top = U /\ \E b \in Buckets : pool[b] # {})
NotWitnessNull == nulls = 0

\* bag of live regions: a VIEW must never merge a state with two allocations on one region into a good one
Bag == [r \in {[blk |-> a.blk, off |-> a.off, len |-> a.len] : a \in live} |->
          Cardinality({a \in live : a.blk = r.blk /\ a.off = r.off /\ a.len = r.len})]
View == <<nb, top, pool, Bag, crashed, nulls > 0>>
Emit == PrintT(<<"BEHAVIOUR", ToJson(hist')>>)
HistBound == Len(hist) < MaxHist
=============================================================================
