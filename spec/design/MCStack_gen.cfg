SPECIFICATION Spec
CONSTANTS
 BSize <- BS2real
 Fence = 0
 Aligns = {1,4}
 Sizes = {2,5}
 DropFix = TRUE
 MaxLive = 3
 MaxMarks = 2
 MaxHist = 8
VIEW View
CHECK_DEADLOCK FALSE
CONSTRAINT HistBound
ACTION_CONSTRAINT Emit
