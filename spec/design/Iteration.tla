------------------------------ MODULE Iteration ------------------------------
(***************************************************************************)
(* Design model of iteration_allocator<N> (iteration_allocator.hpp): one   *)
(* block of Size bytes split into N regions, one fixed_memory_stack per    *)
(* region.  The constructor places the stacks; block_start(i) = i*Size/N   *)
(* and block_end(i) = block_start(i+1) are used by allocate(),             *)
(* capacity_left() and next_iteration().                                   *)
(* CtorFix = TRUE: the constructor uses block_start(i) (repaired);         *)
(* FALSE: it steps by Size/N as originally written, which disagrees with   *)
(* block_start for Size mod N # 0.                                         *)
(***************************************************************************)
EXTENDS Naturals, Integers, Sequences, FiniteSets, TLC, Json
CONSTANTS N, Size, Sizes, CtorFix, MaxLive, MaxHist
Regions == 0..(N - 1)
BlockStart(i) == (i * Size) \div N
BlockEnd(i) == BlockStart(i + 1)
CtorTop(i) == IF CtorFix THEN BlockStart(i) ELSE i * (Size \div N)

VARIABLES tops, cur, gen, live, crash, capOk, nextid, hist
vars == <<tops, cur, gen, live, crash, capOk, nextid, hist>>
Init == /\ tops = [i \in Regions |-> CtorTop(i)] /\ cur = 0 /\ gen = 0 /\ live = {} /\ crash = FALSE
        /\ capOk = TRUE /\ nextid = 1 /\ hist = <<>>

CapacityLeft(t, i) == BlockEnd(i) - t[i]

(* allocate (alignment 1, no fence: the arithmetic of interest is the region arithmetic) *)
Allocate(sz) ==
  /\ ~crash /\ Cardinality(live) < MaxLive
  /\ IF sz > BlockEnd(cur) - tops[cur]
     THEN UNCHANGED <<tops, live, nextid>>                 \* out_of_fixed_memory
     ELSE /\ live' = live \cup {[id |-> nextid, g |-> gen, from |-> tops[cur], len |-> sz]}
          /\ tops' = [tops EXCEPT ![cur] = @ + sz] /\ nextid' = nextid + 1
  /\ UNCHANGED <<cur, gen, crash, capOk>>
  /\ hist' = Append(hist, [op |-> "an", a |-> sz, res |-> IF sz > BlockEnd(cur) - tops[cur] THEN -1 ELSE tops[cur]])

(* next_iteration: cur_ = (cur_+1) % N; stacks_[cur_].unwind(block_start(cur_)) *)
NextIteration ==
  /\ ~crash
  /\ LET c == (cur + 1) % N IN
     /\ cur' = c /\ gen' = gen + 1
     /\ IF tops[c] < BlockStart(c)
        THEN crash' = TRUE /\ UNCHANGED <<tops, live, capOk>>     \* unwind upwards: fills a negative length
        ELSE /\ tops' = [tops EXCEPT ![c] = BlockStart(c)]
             /\ live' = {a \in live : a.g > gen + 1 - N}
             \* C07: switching to a region makes the capacity it had initially available again
             /\ capOk' = (capOk /\ BlockEnd(c) - BlockStart(c) = BlockEnd(c) - CtorTop(c))
             /\ UNCHANGED crash
  /\ UNCHANGED nextid
  /\ hist' = Append(hist, [op |-> "ni", a |-> 0, res |-> -1])

Next == (\E s \in Sizes : Allocate(s)) \/ NextIteration
Spec == Init /\ [][Next]_vars

Ov(a, c) == a.from < c.from + c.len /\ c.from < a.from + a.len
NoCrash == ~crash
LiveDisjoint == \A a, c \in live : a.id # c.id => ~Ov(a, c)
LiveInsideBlock == \A a \in live : a.from >= 0 /\ a.from + a.len <= Size
LivesNIterations == \A a \in live : a.g > gen - N
RegionsDisjoint == \A i, j \in Regions : i < j => (IF tops[i] > BlockEnd(i) THEN FALSE ELSE BlockEnd(i) <= CtorTop(j))
SwitchRestoresCapacity == capOk
TopsInside == crash \/ \A i \in Regions : tops[i] <= BlockEnd(i)

NotWitnessFullCycle == gen < N + 1
NotWitnessRegionFull == ~(\E i \in Regions : tops[i] = BlockEnd(i) /\ BlockEnd(i) > BlockStart(i))
View == <<tops, cur, gen % (2 * N), {[g |-> gen - a.g, from |-> a.from, len |-> a.len] : a \in live}, crash, capOk>>
Emit == PrintT(<<"BEHAVIOUR", ToJson(hist')>>)
HistBound == Len(hist) < MaxHist
=============================================================================
