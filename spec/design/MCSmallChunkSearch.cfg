SPECIFICATION Spec
CONSTANTS
  MaxN = 5
  Repaired = TRUE
INVARIANTS
  TypeOK
  Terminates
  Correct
  UnreachableOnlyOnEqualAddress
CHECK_DEADLOCK FALSE
