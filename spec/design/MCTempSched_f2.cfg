SPECIFICATION GenSpec
CONSTANTS
 Threads = {1,2,3,4}
 Main = 1
 MaxNodes = 5
 MaxOps = 1
 FixUninit = TRUE
 FixDetector = TRUE
 FixNifty = TRUE
 AtomicAdopt = TRUE
 RefreshExpected = TRUE
 Free = 2
VIEW GenView
INVARIANT NoShare
INVARIANT ListComplete
CHECK_DEADLOCK FALSE
ACTION_CONSTRAINT Emit
