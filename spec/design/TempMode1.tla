----------------------------- MODULE TempMode1 -----------------------------
(***************************************************************************)
(* Design model of the temporary stack in mode 1                           *)
(* (src/temporary_allocator.cpp, FOONATHAN_MEMORY_TEMPORARY_STACK_MODE 1): *)
(* per thread a stack in thread-local storage and the flag is_created.     *)
(*   Get        get_temporary_stack(): create() if not created, then use   *)
(*   InitCtor   temporary_stack_initializer(): create() if not created     *)
(*   InitDtor   ~temporary_stack_initializer(): destroy if created         *)
(* ResetFlag = TRUE is the code as repaired (the destructor clears         *)
(* is_created), FALSE the code as it was: the flag stays set, the next Get *)
(* uses a destroyed stack and the next destructor destroys it again.       *)
(* Threads do not interact (thread-local state): one thread is modelled.   *)
(***************************************************************************)
EXTENDS Naturals
CONSTANTS ResetFlag, MaxOps
VARIABLES created,   \* is_created
          alive,     \* the object in the storage is a constructed temporary_stack
          inits,     \* live temporary_stack_initializer objects of the thread
          ops, bad
vars == <<created, alive, inits, ops, bad>>
Init == created = FALSE /\ alive = FALSE /\ inits = 0 /\ ops = 0 /\ bad = "none"
Create == IF created THEN UNCHANGED <<created, alive>> ELSE created' = TRUE /\ alive' = TRUE
Get == /\ ops < MaxOps /\ ops' = ops + 1 /\ Create
       /\ bad' = IF bad = "none" /\ ~alive' THEN "use of a destroyed stack" ELSE bad
       /\ UNCHANGED inits
InitCtor == /\ ops < MaxOps /\ ops' = ops + 1 /\ Create /\ inits' = inits + 1 /\ UNCHANGED bad
InitDtor == /\ inits > 0 /\ ops < MaxOps /\ ops' = ops + 1 /\ inits' = inits - 1
            /\ IF created
               THEN /\ alive' = FALSE
                    /\ bad' = IF bad = "none" /\ ~alive THEN "destroyed twice" ELSE bad
                    /\ created' = IF ResetFlag THEN FALSE ELSE created
               ELSE UNCHANGED <<created, alive, bad>>
Next == Get \/ InitCtor \/ InitDtor
Spec == Init /\ [][Next]_vars
\* C14: a thread never uses a destroyed stack, a stack is destroyed once
NeverBad == bad = "none"
\* the flag says whether a stack exists
FlagIsTruth == created = alive
\* documented limit of the mode, not a defect: without an initializer the stack is never destroyed
NotWitnessLeakWithoutInitializer == ~(alive /\ inits = 0 /\ ops = MaxOps)
=============================================================================
