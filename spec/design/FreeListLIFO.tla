----------------------------- MODULE FreeListLIFO -----------------------------
(***************************************************************************)
(* Design model of detail::free_memory_list (src/detail/free_list.cpp):    *)
(* the unordered, singly linked intrusive free list used by node pools in  *)
(* release builds.  `next' maps the address of a free node to the link     *)
(* stored in it; `first' is first_.  One action per member function:       *)
(* allocate() pops the head; allocate(n bytes) runs list_search_array      *)
(* (a run must be consecutive in LIST order with ascending addresses) and  *)
(* unlinks it; deallocate(ptr) pushes; deallocate(ptr, n) = insert_impl:   *)
(* links the nodes of the array ascending and pushes them in front.        *)
(* Node size = one address unit, array requests in half units (see         *)
(* FreeListOrdered); CeilFix selects the repaired / original node count on *)
(* array deallocation.                                                     *)
(***************************************************************************)
EXTENDS Naturals, Integers, Sequences, FiniteSets, TLC, Json

CONSTANTS Slots, MaxHalves, CeilFix, MaxHist
NULL == 0

VARIABLES next, first, cap, live, hist
vars == <<next, first, cap, live, hist>>
CeilHalf(h) == (h + 1) \div 2

Lo == CHOOSE a \in Slots : \A b \in Slots : a <= b
Hi == CHOOSE a \in Slots : \A b \in Slots : a >= b
NextSlot(a) == IF a = Hi THEN NULL ELSE CHOOSE n \in Slots : n > a /\ \A q \in Slots : q > a => q >= n

\* insert() of the blocks: insert_impl links each block ascending and pushes it; for the model the
\* initial list is all slots ascending (a single insert)
Init == /\ next = [a \in Slots |-> NextSlot(a)]
        /\ first = Lo /\ cap = Cardinality(Slots) /\ live = {} /\ hist = <<>>

Rank(a) == Cardinality({b \in live : b.first < a.first})

AllocNode ==
  /\ first # NULL
  /\ live' = live \cup {[first |-> first, n |-> 1, h |-> 2]}
  /\ first' = next[first]
  /\ next' = [a \in DOMAIN next \ {first} |-> next[a]]
  /\ cap' = cap - 1
  /\ hist' = Append(hist, [op |-> "an", k |-> 0, res |-> first])

(* list_search_array: returns <<prev, first, last, next>> or <<-1,..>> *)
RECURSIVE Search(_, _, _, _, _, _)
Search(prev, f, last, nx, sofar, k) ==
  IF nx = NULL THEN <<-1, -1, -1, -1>>
  ELSE IF last + 1 # nx THEN Search(last, nx, nx, next[nx], 1, k)
  ELSE IF sofar + 1 >= k THEN <<prev, f, nx, next[nx]>>
  ELSE Search(prev, f, nx, next[nx], sofar + 1, k)

AllocArray(h) ==
  /\ first # NULL /\ h > 2
  /\ LET k == CeilHalf(h)
         r == Search(NULL, first, first, next[first], 1, k)
     IN /\ r[1] # -1
        /\ LET taken == {r[2] + j : j \in 0..(k - 1)}
           IN /\ live' = live \cup {[first |-> r[2], n |-> k, h |-> h]}
              /\ first' = IF r[1] = NULL THEN r[4] ELSE first
              /\ next' = [a \in DOMAIN next \ taken |-> IF a = r[1] THEN r[4] ELSE next[a]]
              /\ cap' = cap - k
  /\ hist' = Append(hist, [op |-> "aa", k |-> h, res |-> Search(NULL, first, first, next[first], 1, CeilHalf(h))[2]])

Dealloc(a) ==
  /\ a \in live
  /\ LET back == IF a.n = 1 \/ CeilFix THEN a.n ELSE a.h \div 2
         chain == [i \in {a.first + j : j \in 0..(back - 1)} |-> IF i = a.first + back - 1 THEN first ELSE i + 1]
     IN /\ next' = chain @@ next
        /\ first' = a.first
        /\ cap' = cap + back
        /\ live' = live \ {a}
  /\ hist' = Append(hist, [op |-> "da", k |-> Rank(a), res |-> -1])

Next == AllocNode \/ (\E h \in 3..MaxHalves : AllocArray(h)) \/ (\E a \in live : Dealloc(a))
Spec == Init /\ [][Next]_vars

RECURSIVE Walk(_, _)
Walk(cur, fuel) == IF cur = NULL \/ fuel = 0 \/ cur \notin DOMAIN next THEN <<>> ELSE <<cur>> \o Walk(next[cur], fuel - 1)
FreeNodes == Walk(first, Cardinality(Slots) + 2)
FreeSet == {FreeNodes[i] : i \in 1..Len(FreeNodes)}
LiveNodes == UNION {{a.first + j : j \in 0..(a.n - 1)} : a \in live}

ListWellFormed == /\ Len(FreeNodes) = cap
                  /\ Cardinality(FreeSet) = Len(FreeNodes)       \* no cycle, no duplicates
                  /\ FreeSet = DOMAIN next
FreeAndLiveDisjoint == FreeSet \cap LiveNodes = {}
LiveDisjoint == \A a, b \in live : a # b => {a.first + j : j \in 0..(a.n - 1)} \cap {b.first + j : j \in 0..(b.n - 1)} = {}
NoNodeLost == FreeSet \cup LiveNodes = Slots

NotWitnessArrayAfterShuffle == ~(\E a \in live : a.n >= 2 /\ Len(hist) >= 5)
View == <<next, first, cap, live>>
Emit == PrintT(<<"BEHAVIOUR", ToJson(hist')>>)
HistBound == Len(hist) < MaxHist
=============================================================================
