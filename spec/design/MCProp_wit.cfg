SPECIFICATION Spec
CONSTANTS
 Slots = {1,2,3}
 Allocs = {1,2}
 POCCA = TRUE
 POCMA = TRUE
 POCS = TRUE
 EqByIdentity = TRUE
 MaxNodes = 2
 MaxHist = 99
INVARIANT NotWitnessCrossAssign
VIEW View
CHECK_DEADLOCK FALSE
