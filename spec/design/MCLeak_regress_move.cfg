SPECIFICATION Spec
CONSTANTS
 Threads = {1,2,3}
 Ops = 2
 Atomic = TRUE
 MoveZeroes = FALSE
INVARIANT CountFollowsMemory
INVARIANT ReportsAreExact
CHECK_DEADLOCK FALSE
