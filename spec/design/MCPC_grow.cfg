SPECIFICATION Spec
CONSTANTS
 U = 9
 NS <- NS24
 MaxBlocks = 2
 MaxLive = 7
 FixRest = TRUE
 MaxHist = 99
INVARIANT LiveDisjoint
INVARIANT LiveInside
INVARIANT FreeDisjointFromLive
INVARIANT FreeDisjoint
INVARIANT NoCrash
INVARIANT NeverMoreThanFits
VIEW View
CHECK_DEADLOCK FALSE
