SPECIFICATION GenSpec
CONSTANTS
 Tree = 4
 Cap <- CapSeg
 HasArray <- ArrAll
 FbHasTryAllocArray = TRUE
 SegByTotal = TRUE
 MaxLive = 3
INVARIANT ReleasedAsAllocated
INVARIANT UsedWithinCapacity
CHECK_DEADLOCK FALSE
CONSTRAINT HistBound5
ACTION_CONSTRAINT Emit
