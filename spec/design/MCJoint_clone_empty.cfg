\* design-level statement of finding D3 (must be VIOLATED while it exists): copying an empty-range member allocates aligned
SPECIFICATION Spec
CONSTANTS S = 4
          MaxAdd = 12
          Bases = {8, 10}
          Aligns = {1, 2, 4}
          MaxSize = 5
          MaxAllocs = 3
          NMembers = 2
          CloneBases = "same"
          EmptyRange = TRUE
          Bug = "none"
INVARIANT CloneSucceeds
CHECK_DEADLOCK FALSE
