SPECIFICATION Spec
CONSTANTS
 Tree = 1
 Cap <- CapSmall
 HasArray <- ArrAll
 FbHasTryAllocArray = TRUE
 SegByTotal = TRUE
 MaxLive = 4
INVARIANT ReleasedAsAllocated
INVARIANT UsedWithinCapacity
VIEW View
CHECK_DEADLOCK FALSE
