SPECIFICATION Spec
CONSTANTS
 BSize <- BS3
 Fence = 0
 Aligns = {1,4}
 Sizes = {1,3,7}
 DropFix = TRUE
 MaxLive = 4
 MaxMarks = 2
 MaxHist = 99
INVARIANT NotWitnessUnwindAcrossTwo
VIEW View
CHECK_DEADLOCK FALSE
