SPECIFICATION Spec
CONSTANTS
 Threads = {1,2,3}
 Main = 1
 MaxNodes = 3
 MaxOps = 2
 FixUninit = TRUE
 FixDetector = FALSE
 FixNifty = TRUE
 AtomicAdopt = TRUE
 RefreshExpected = TRUE
 ReleaseLast = TRUE
INVARIANT Reclaimed
INVARIANT ListComplete
CHECK_DEADLOCK FALSE
