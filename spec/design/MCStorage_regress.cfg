SPECIFICATION Spec
CONSTANTS
 Threads = {1, 2, 3}
 Members = {"allocate_node", "try_allocate_node", "max_node_size"}
 Unlocked = {"try_allocate_node"}
 Calls = 2
 Nodes = 8
INVARIANT NoNodeTwice
CHECK_DEADLOCK FALSE
