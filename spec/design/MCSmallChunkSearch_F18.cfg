SPECIFICATION Spec
CONSTANTS
  MaxN = 5
  Repaired = FALSE
INVARIANTS
  TypeOK
  Terminates
  Correct
CHECK_DEADLOCK FALSE
