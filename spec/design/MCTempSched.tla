---------------------------- MODULE MCTempSched ----------------------------
(***************************************************************************)
(* Schedule generation for the temporary stack list: K worker threads call *)
(* get_temporary_stack() concurrently while F released stacks wait in the  *)
(* list.  `plan' records which thread took each atomic step (FindLoad,     *)
(* compare-exchange on a flag, NewLoad, compare-exchange on the head); TLC *)
(* prints one plan per transition of the state graph (ACTION_CONSTRAINT    *)
(* Emit, plan hidden from the VIEW).  The driver `temp' follows a plan at  *)
(* its hook points, so every interleaving class the model distinguishes is *)
(* executed on the real code and validated by TempListTrace / TempTrace.   *)
(***************************************************************************)
EXTENDS TempStackList, Json
CONSTANT Free,          \* number of released stacks in the list at the start
         Getters,       \* threads that call get_temporary_stack() in the concurrent block
         Releasers      \* threads that hold a stack at the start and destroy their initializer in the block
VARIABLE plan
\* nodes 1..Free are free; node Free+i is held by the i-th releaser (in ascending thread order)
RIdx(t) == Cardinality({u \in Releasers : u <= t})
NHeld == Cardinality(Releasers)
GenInit == /\ first = Free + NHeld /\ next = [n \in Nodes |-> IF n <= Free + NHeld /\ n > 1 THEN n - 1 ELSE NULL]
           /\ inuse = [n \in Nodes |-> n > Free /\ n <= Free + NHeld] /\ created = Free + NHeld /\ destroyed = FALSE
           /\ ts = [t \in Threads |-> IF t \in Releasers THEN Free + RIdx(t) ELSE NULL]
           /\ det = [t \in Threads |-> t \in Releasers]
           /\ pc = [t \in Threads |-> "idle"] /\ cur = [t \in Threads |-> NULL]
           /\ alive = [t \in Threads |-> TRUE] /\ ops = [t \in Threads |-> 0] /\ sawfree = [t \in Threads |-> FALSE]
           /\ nx = [t \in Threads |-> NULL] /\ lnk = [t \in Threads |-> NULL]
           /\ plan = <<>>
\* (the end-of-list test of find_unused is a step of the model that touches no shared variable: it is
\* not a scheduling decision)
GenNext == \/ \E t \in Getters :
              \/ (Get(t) /\ ts[t] = NULL /\ plan' = Append(plan, t))
              \/ (Find(t) /\ plan' = IF cur[t] = NULL THEN plan ELSE Append(plan, t))
              \/ ((NewLoad(t) \/ PushCas(t)) /\ plan' = Append(plan, t))
           \/ \E t \in Releasers : InitDtor(t) /\ plan' = Append(plan, t)
GenSpec == GenInit /\ [][GenNext]_<<vars, plan>>
GenView == vars
Emit == PrintT(<<"BEHAVIOUR", ToJson(plan')>>)
=============================================================================
