SPECIFICATION Spec
CONSTANTS
 Tree = 2
 Cap <- CapSmall
 HasArray <- ArrAll
 FbHasTryAllocArray = TRUE
 SegByTotal = TRUE
 MaxLive = 4
INVARIANT NotWitnessThirdLeaf
VIEW View
CHECK_DEADLOCK FALSE
