\* regression: seeded defect bound_off_by_one must be found (must be VIOLATED)
SPECIFICATION Spec
CONSTANTS S = 4
          MaxAdd = 12
          Bases = {8, 10}
          Aligns = {1, 2, 4}
          MaxSize = 5
          MaxAllocs = 3
          NMembers = 2
          CloneBases = "same"
          EmptyRange = FALSE
          Bug = "bound_off_by_one"
INVARIANTS PieceAfterObjectInsideBlock PiecesDisjoint PieceAligned OverflowThrowsFixedMemory ObjectDestroyedOnce BlockReleasedOnceSameSizeAlign CloneIndependent CloneSucceeds
CHECK_DEADLOCK FALSE
