SPECIFICATION Spec
CONSTANTS
 N = 3
 Size = 10
 Sizes = {1,2,3}
 CtorFix = TRUE
 MaxLive = 5
 MaxHist = 99
INVARIANT NotWitnessFullCycle
VIEW View
CHECK_DEADLOCK FALSE
