SPECIFICATION Spec
CONSTANTS
 BSize <- BS3
 Fence = 1
 Aligns = {1,2}
 Sizes = {1,4,9}
 DropFix = TRUE
 MaxLive = 4
 MaxMarks = 2
 MaxHist = 99
INVARIANT LiveDisjoint
INVARIANT LiveInside
INVARIANT Aligned
INVARIANT TopInside
INVARIANT BlocksBounded
INVARIANT UnwindRestores
INVARIANT MarkersNested
INVARIANT MarkersBelowTop
VIEW View
CHECK_DEADLOCK FALSE
