SPECIFICATION Spec
CONSTANTS
 C = 2
 K = 2
 MoveFix = TRUE
 MaxHist = 99
INVARIANT NotWitnessAllAllocated
VIEW View
CHECK_DEADLOCK FALSE
