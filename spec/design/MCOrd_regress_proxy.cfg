SPECIFICATION Spec
CONSTANTS
 Slots = {10,11,12,13,14,15,16,17}
 BA = 1
 EA = 2
 MaxHalves = 4
 ProxyFix = FALSE
 CeilFix = TRUE
 MaxHist = 99
INVARIANT NoCrash
VIEW View
CHECK_DEADLOCK FALSE
