SPECIFICATION Spec
CONSTANTS
 W = 16
 MaxAl = 16
 MinElPtr = 8
 Clamp = TRUE
 Parts = {"ilog", "iloop"}
INVARIANT Ilog2IsFloor
INVARIANT Ilog2CeilIsCeil
INVARIANT Ilog2LoopSameAsClz
CHECK_DEADLOCK FALSE
