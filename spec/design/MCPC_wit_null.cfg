SPECIFICATION Spec
CONSTANTS
 U = 7
 NS <- NS12
 MaxBlocks = 1
 MaxLive = 9
 FixRest = TRUE
 MaxHist = 99
INVARIANT NotWitnessNull
VIEW View
CHECK_DEADLOCK FALSE
