SPECIFICATION Spec
CONSTANTS
 Tree = 7
 Cap <- CapSeg
 HasArray <- ArrNone1
 FbHasTryAllocArray = TRUE
 SegByTotal = TRUE
 MaxLive = 4
INVARIANT ReleasedAsAllocated
INVARIANT UsedWithinCapacity
INVARIANT RoutedByThreshold
VIEW View
CHECK_DEADLOCK FALSE
