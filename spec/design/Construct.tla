------------------------------ MODULE Construct ------------------------------
(***************************************************************************)
(* Design model of the rollback mechanisms behind the object-creating      *)
(* helpers of foonathan/memory, transcribed from the code (one action per  *)
(* statement / loop iteration that matters):                               *)
(*                                                                         *)
(*   "unique"  detail::allocate_unique<T>         (smart_ptr.hpp)          *)
(*             allocate_node -> raw_ptr guard (allocator_deallocator)      *)
(*             -> placement new -> release guard                           *)
(*   "shared"  std::allocate_shared over std_allocator: same shape         *)
(*   "array"   detail::allocate_array_unique<T> + detail::construct        *)
(*             allocate_array(n) -> raw_ptr guard {alloc, size} ->         *)
(*             for cur in [begin, end) placement new;                      *)
(*             catch (...) { for el in [begin, cur) el->~T(); throw; }     *)
(*   "jarray"  joint_array<T>(stack, n): stack.allocate, builder b;        *)
(*             n x b.create(); size_ = b.release();                        *)
(*             ~builder: destroy objects_[0..size_), if (size_) unwind     *)
(*   "jcreate" joint_ptr::create: allocate_node(sizeof(T) + add);          *)
(*             try { new (mem) T(joint(add), ...) }  -- T has one          *)
(*             joint_array member built as in "jarray" --                  *)
(*             catch (...) { deallocate_node(mem, sizeof(T)+add); throw; } *)
(*                                                                         *)
(* The k-th element construction throws (k = 0: none).  n ranges over      *)
(* 0..MaxN.  Invariants = the clauses of C20.  `Bug' seeds one defect per  *)
(* regression configuration (must be found).                               *)
(***************************************************************************)
EXTENDS Integers, FiniteSets, TLC

CONSTANTS MaxN,     \* largest array length
          Helpers,  \* subset of {"unique", "shared", "array", "jarray", "jcreate"}
          Bug       \* "none" or the name of a seeded defect

VARIABLES h, n, k,      \* scenario: helper, length, throwing construction
          pc,
          mem,          \* memory obtained from the allocator: "none" | "held" | "returned"
          got, rel,     \* shape obtained / shape passed to the release: [kind, count]
          outstanding,  \* allocator's number of live allocations
          guard,        \* raw_ptr guard armed
          cur, el,      \* loop variables of the code
          bsize, asize, \* builder::size_, joint_array::size_
          jtop, jptr,   \* joint stack top, start of the array's piece (units of one element)
          cc, dc,       \* per element index: constructions / destructions so far
          objc, objd,   \* the joint object itself: constructions / destructions
          exc,          \* exception in flight (0: none)
          seen,         \* exception observed by the caller (0: none)
          atThrow,      \* number of elements alive when the throw happened (-1: no throw)
          result        \* "none" | "ok" | "fail" | "destroyed"

vars == <<h, n, k, pc, mem, got, rel, outstanding, guard, cur, el, bsize, asize, jtop, jptr, cc, dc,
          objc, objd, exc, seen, atThrow, result>>

Idx == 1..(MaxN + 1)
InjId == 7
NoShape == [kind |-> "none", count |-> 0]
Single == h \in {"unique", "shared"}

Init ==
  /\ h \in Helpers
  /\ n \in 0..MaxN
  /\ k \in 0..(MaxN + 1)
  /\ k <= n + 1
  /\ (h \in {"unique", "shared"} => n = 1)
  /\ pc = "start" /\ mem = "none" /\ got = NoShape /\ rel = NoShape /\ outstanding = 0
  /\ guard = FALSE /\ cur = 1 /\ el = 1 /\ bsize = 0 /\ asize = 0 /\ jtop = 0 /\ jptr = 0
  /\ cc = [i \in Idx |-> 0] /\ dc = [i \in Idx |-> 0] /\ objc = 0 /\ objd = 0
  /\ exc = 0 /\ seen = 0 /\ atThrow = -1 /\ result = "none"

Live == {i \in Idx : cc[i] > dc[i]}

-----------------------------------------------------------------------------
(* memory from the allocator *)
Start ==
  /\ pc = "start"
  /\ IF h = "jarray"
     THEN /\ jptr' = jtop /\ jtop' = jtop + n          \* stack.allocate(n * sizeof(T))
          /\ pc' = "builder"
          /\ UNCHANGED <<mem, got, outstanding, objc>>
     ELSE /\ mem' = "held" /\ outstanding' = outstanding + 1
          /\ got' = [kind |-> IF h = "array" THEN "array" ELSE "node", count |-> IF h = "array" THEN n ELSE 1]
          /\ IF h = "jcreate"
             THEN /\ objc' = objc + 1                    \* joint_type base and first members of T
                  /\ jptr' = jtop /\ jtop' = jtop + n    \* member array: stack.allocate
                  /\ pc' = "builder"
             ELSE /\ pc' = "guard" /\ UNCHANGED <<objc, jptr, jtop>>
  /\ UNCHANGED <<h, n, k, rel, guard, cur, el, bsize, asize, cc, dc, objd, exc, seen, atThrow, result>>

ArmGuard ==
  /\ pc = "guard"
  /\ guard' = TRUE
  /\ pc' = IF h = "array" THEN "loop" ELSE "ctor1"
  /\ UNCHANGED <<h, n, k, mem, got, rel, outstanding, cur, el, bsize, asize, jtop, jptr, cc, dc, objc, objd, exc, seen, atThrow, result>>

(* unique / shared: the single placement new *)
Ctor1 ==
  /\ pc = "ctor1"
  /\ IF k = 1
     THEN /\ exc' = InjId /\ atThrow' = 0 /\ pc' = "unwind_guard" /\ UNCHANGED cc
     ELSE /\ cc' = [cc EXCEPT ![1] = @ + 1] /\ pc' = "release" /\ UNCHANGED <<exc, atThrow>>
  /\ UNCHANGED <<h, n, k, mem, got, rel, outstanding, guard, cur, el, bsize, asize, jtop, jptr, dc, objc, objd, seen, result>>

(* detail::construct(std::false_type, begin, end): for (; cur != end; ++cur) new (cur) T() *)
Loop ==
  /\ pc = "loop"
  /\ IF cur = n + 1
     THEN pc' = "release" /\ UNCHANGED <<cc, cur, el, exc, atThrow>>
     ELSE IF cur = k
     THEN /\ exc' = InjId /\ atThrow' = cur - 1
          /\ el' = IF Bug = "rollback_one_too_few" THEN 2 ELSE 1      \* catch (...): el = begin
          /\ pc' = "catch" /\ UNCHANGED <<cc, cur>>
     ELSE /\ cc' = [cc EXCEPT ![cur] = @ + 1] /\ cur' = cur + 1 /\ pc' = "loop" /\ UNCHANGED <<el, exc, atThrow>>
  /\ UNCHANGED <<h, n, k, mem, got, rel, outstanding, guard, bsize, asize, jtop, jptr, dc, objc, objd, seen, result>>

(* catch (...) { for (auto el = begin; el != cur; ++el) el->~T(); throw; } *)
Catch ==
  /\ pc = "catch"
  /\ LET stop == IF Bug = "rollback_one_too_many" THEN cur + 1 ELSE cur
     IN IF el < stop
        THEN /\ dc' = [dc EXCEPT ![el] = @ + 1] /\ el' = el + 1 /\ pc' = "catch" /\ UNCHANGED exc
        ELSE /\ pc' = "unwind_guard" /\ UNCHANGED <<dc, el>>
             /\ exc' = IF Bug = "exception_replaced" THEN 99 ELSE exc     \* throw;
  /\ UNCHANGED <<h, n, k, mem, got, rel, outstanding, guard, cur, bsize, asize, jtop, jptr, cc, objc, objd, seen, atThrow, result>>

(* ~raw_ptr during unwinding: allocator_deallocator: deallocate without destroying *)
UnwindGuard ==
  /\ pc = "unwind_guard"
  /\ guard
  /\ rel' = [kind |-> got.kind,
             count |-> IF Bug = "guard_count_minus_1" /\ h = "array" /\ got.count > 0 THEN got.count - 1 ELSE got.count]
  /\ mem' = "returned" /\ outstanding' = outstanding - 1 /\ guard' = FALSE
  /\ pc' = "propagate"
  /\ UNCHANGED <<h, n, k, got, cur, el, bsize, asize, jtop, jptr, cc, dc, objc, objd, exc, seen, atThrow, result>>

(* result.release(): ownership passes to the returned smart pointer *)
Release ==
  /\ pc = "release"
  /\ guard' = FALSE /\ result' = "ok" /\ pc' = "done"
  /\ UNCHANGED <<h, n, k, mem, got, rel, outstanding, cur, el, bsize, asize, jtop, jptr, cc, dc, objc, objd, exc, seen, atThrow>>

Propagate ==
  /\ pc = "propagate"
  /\ seen' = exc /\ exc' = 0 /\ result' = "fail" /\ pc' = "done"
  /\ UNCHANGED <<h, n, k, mem, got, rel, outstanding, guard, cur, el, bsize, asize, jtop, jptr, cc, dc, objc, objd, atThrow>>

-----------------------------------------------------------------------------
(* joint_array: builder b(stack, ptr_); for i < n: b.create(); size_ = b.release(); *)
Builder ==
  /\ pc = "builder"
  /\ bsize' = 0 /\ cur' = 1 /\ pc' = "bloop"
  /\ UNCHANGED <<h, n, k, mem, got, rel, outstanding, guard, el, asize, jtop, jptr, cc, dc, objc, objd, exc, seen, atThrow, result>>

BLoop ==
  /\ pc = "bloop"
  /\ IF cur = n + 1
     THEN /\ asize' = bsize /\ bsize' = 0 /\ el' = 1 /\ pc' = "bdtor"     \* size_ = b.release(); scope ends
          /\ UNCHANGED <<cc, cur, exc, atThrow>>
     ELSE IF cur = k
     THEN /\ exc' = InjId /\ atThrow' = cur - 1 /\ el' = 1 /\ pc' = "bdtor"   \* create() throws: ~builder
          /\ UNCHANGED <<cc, cur, bsize, asize>>
     ELSE /\ cc' = [cc EXCEPT ![cur] = @ + 1] /\ bsize' = bsize + 1 /\ cur' = cur + 1 /\ pc' = "bloop"
          /\ UNCHANGED <<el, asize, exc, atThrow>>
  /\ UNCHANGED <<h, n, k, mem, got, rel, outstanding, guard, jtop, jptr, dc, objc, objd, seen, result>>

(* ~builder: destroys the size_ constructed elements, then gives the piece back unless release() was called
   (repaired code); Bug = "builder_unwind_if_size" is the original: unwind only if size_ is non-zero *)
BDtor ==
  /\ pc = "bdtor"
  /\ IF el <= bsize
     THEN /\ dc' = IF Bug = "builder_no_destroy" THEN dc ELSE [dc EXCEPT ![el] = @ + 1]
          /\ el' = el + 1 /\ pc' = "bdtor" /\ UNCHANGED <<jtop, result>>
     ELSE /\ jtop' = IF Bug = "builder_unwind_if_size" THEN (IF bsize > 0 THEN jptr ELSE jtop)
                      ELSE (IF exc # 0 THEN jptr ELSE jtop)
          /\ UNCHANGED <<dc, el>>
          /\ IF exc = 0
             THEN IF h = "jarray" THEN pc' = "done" /\ result' = "ok"
                  ELSE pc' = "tdone" /\ UNCHANGED result
             ELSE IF h = "jarray" THEN pc' = "propagate" /\ UNCHANGED result
                  ELSE pc' = "tunwind" /\ UNCHANGED result
  /\ UNCHANGED <<h, n, k, mem, got, rel, outstanding, guard, cur, bsize, asize, jptr, cc, objc, objd, exc, seen, atThrow>>

(* joint_ptr::create: the constructor of T returned *)
TDone ==
  /\ pc = "tdone"
  /\ result' = "ok" /\ pc' = "done"
  /\ UNCHANGED <<h, n, k, mem, got, rel, outstanding, guard, cur, el, bsize, asize, jtop, jptr, cc, dc, objc, objd, exc, seen, atThrow>>

(* the constructor of T is left by the exception: members and bases built so far are destroyed *)
TUnwind ==
  /\ pc = "tunwind"
  /\ objd' = objd + 1 /\ pc' = "create_catch"
  /\ UNCHANGED <<h, n, k, mem, got, rel, outstanding, guard, cur, el, bsize, asize, jtop, jptr, cc, dc, objc, exc, seen, atThrow, result>>

(* catch (...) { this->deallocate_node(mem, sizeof(element_type) + additional_size, alignof); throw; } *)
CreateCatch ==
  /\ pc = "create_catch"
  /\ IF Bug = "create_no_dealloc"
     THEN UNCHANGED <<rel, mem, outstanding>>
     ELSE rel' = got /\ mem' = "returned" /\ outstanding' = outstanding - 1
  /\ pc' = "propagate"
  /\ UNCHANGED <<h, n, k, got, guard, cur, el, bsize, asize, jtop, jptr, cc, dc, objc, objd, exc, seen, atThrow, result>>

-----------------------------------------------------------------------------
(* the result dies: deleter / ~joint_array / joint_ptr::reset *)
DestroyResult ==
  /\ pc = "done" /\ result = "ok"
  /\ LET cnt == IF Single THEN 1 ELSE n
         few == Bug = "deleter_one_too_few" /\ h = "array"
     IN dc' = [i \in Idx |-> IF i <= cnt /\ ~(few /\ i = 1) THEN dc[i] + 1 ELSE dc[i]]
  /\ IF h = "jarray"
     THEN UNCHANGED <<rel, mem, outstanding, objd>>       \* ~joint_array does not release storage
     ELSE /\ rel' = IF h = "jcreate" /\ Bug = "reset_wrong_size" THEN [kind |-> "node", count |-> 0] ELSE got
          /\ mem' = "returned" /\ outstanding' = outstanding - 1
          /\ objd' = IF h = "jcreate" THEN objd + 1 ELSE objd
  /\ result' = "destroyed" /\ pc' = "end"
  /\ UNCHANGED <<h, n, k, got, guard, cur, el, bsize, asize, jtop, jptr, cc, objc, exc, seen, atThrow>>

Next == Start \/ ArmGuard \/ Ctor1 \/ Loop \/ Catch \/ UnwindGuard \/ Release \/ Propagate
        \/ Builder \/ BLoop \/ BDtor \/ TDone \/ TUnwind \/ CreateCatch \/ DestroyResult

Spec == Init /\ [][Next]_vars

-----------------------------------------------------------------------------
(* the clauses of C20 *)
Failed == result = "fail"
Count == IF Single THEN 1 ELSE n

NoDestroyOfUnconstructed == \A i \in Idx : dc[i] <= cc[i] /\ objd <= objc
ConstructedAtMostOnce == \A i \in Idx : cc[i] <= 1
EachConstructedDestroyedOnce ==
  /\ Failed => (\A i \in Idx : dc[i] = cc[i]) /\ objd = objc
  /\ result = "destroyed" => (\A i \in Idx : dc[i] = cc[i] /\ cc[i] <= 1) /\ objd = objc
MemoryReturnedSameShape ==
  /\ (Failed /\ h # "jarray") => (mem = "returned" /\ rel = got)
  /\ (result = "destroyed" /\ h # "jarray") => (mem = "returned" /\ rel = got)
ExceptionPropagatesUnchanged ==
  /\ Failed => seen = InjId
  /\ result \in {"ok", "destroyed"} => seen = 0 /\ atThrow = -1
  /\ (pc = "done" /\ k >= 1 /\ k <= Count) => Failed           \* a thrown exception is never swallowed
AllocatorUsableAfter == (Failed \/ result = "destroyed") => outstanding = 0
ConstructedOnceOnSuccess == result = "ok" => (Live = 1..Count /\ \A i \in 1..Count : cc[i] = 1)
GuardNeverLeftArmed == pc \in {"done", "end"} => ~guard
\* the piece taken from the joint stack is given back when the array constructor fails
JointMemoryReturned == (Failed /\ h = "jarray") => jtop = 0

\* witness: a throw happened after at least two elements were constructed
NotWitness == ~(atThrow >= 2)
\* witness for the first-element case of ~builder (size_ = 0: nothing unwound)
NotWitnessFirst == ~(Failed /\ h = "jarray" /\ atThrow = 0 /\ n >= 1)
=============================================================================
