SPECIFICATION Spec
CONSTANTS
 N = 4
 Size = 10
 Sizes = {1,2,3}
 CtorFix = TRUE
 MaxLive = 5
 MaxHist = 99
INVARIANT NoCrash
INVARIANT LiveDisjoint
INVARIANT LiveInsideBlock
INVARIANT LivesNIterations
INVARIANT RegionsDisjoint
INVARIANT SwitchRestoresCapacity
INVARIANT TopsInside
VIEW View
CHECK_DEADLOCK FALSE
