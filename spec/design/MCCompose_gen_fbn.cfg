SPECIFICATION GenSpec
CONSTANTS
 Tree = 1
 Cap <- CapSmall
 HasArray <- ArrNone1
 FbHasTryAllocArray = TRUE
 SegByTotal = TRUE
 MaxLive = 3
INVARIANT ReleasedAsAllocated
INVARIANT UsedWithinCapacity
CHECK_DEADLOCK FALSE
CONSTRAINT HistBound
ACTION_CONSTRAINT Emit
