---------------------------- MODULE TempAdoptInd ----------------------------
(* Apalache version of the ownership part of spec/design/TempStackList.tla with an inductive invariant:
   however many times threads acquire, release (initializer destroyed) and exit, no two live threads hold the
   same temporary stack and a held stack is marked in use.  The traversal of the list is abstracted to
   "a thread that looks for a stack examines some node" (which node is the list's business: ListComplete in
   TempStackList); what matters here is that the in_use flag is taken with ONE compare-exchange. *)
EXTENDS Integers, FiniteSets
CONSTANTS
  \* @type: Set(Int);
  Threads,
  \* @type: Set(Int);
  Nodes
VARIABLES
  \* @type: Int -> Bool;
  inuse,
  \* @type: Int -> Int;
  ts,
  \* @type: Int -> Bool;
  alive,
  \* @type: Int -> Bool;
  exists

CInit == Threads = {1, 2, 3, 4} /\ Nodes = {1, 2, 3, 4, 5}
Init == /\ inuse = [n \in Nodes |-> FALSE] /\ ts = [t \in Threads |-> 0]
        /\ alive = [t \in Threads |-> TRUE] /\ exists = [n \in Nodes |-> FALSE]
\* find_unused: compare-exchange on the flag of an existing node
CasTake(t, n) == /\ alive[t] /\ ts[t] = 0 /\ exists[n] /\ ~inuse[n]
                 /\ inuse' = [inuse EXCEPT ![n] = TRUE] /\ ts' = [ts EXCEPT ![t] = n] /\ UNCHANGED <<alive, exists>>
\* create_new: a node that did not exist is born in use and belongs to its creator
Create(t, n) == /\ alive[t] /\ ts[t] = 0 /\ ~exists[n]
                /\ exists' = [exists EXCEPT ![n] = TRUE] /\ inuse' = [inuse EXCEPT ![n] = TRUE]
                /\ ts' = [ts EXCEPT ![t] = n] /\ UNCHANGED alive
\* ~temporary_stack_initializer: clear() and forget the stack
Release(t) == /\ alive[t] /\ ts[t] # 0
              /\ inuse' = [inuse EXCEPT ![ts[t]] = FALSE] /\ ts' = [ts EXCEPT ![t] = 0] /\ UNCHANGED <<alive, exists>>
\* thread exit: the detector clears the stack the thread still holds
Exit(t) == /\ alive[t] /\ alive' = [alive EXCEPT ![t] = FALSE]
           /\ inuse' = IF ts[t] # 0 THEN [inuse EXCEPT ![ts[t]] = FALSE] ELSE inuse
           /\ UNCHANGED <<ts, exists>>
Next == \E t \in Threads : Release(t) \/ Exit(t) \/ \E n \in Nodes : CasTake(t, n) \/ Create(t, n)

TypeOK == /\ inuse \in [Nodes -> BOOLEAN] /\ ts \in [Threads -> Nodes \union {0}]
          /\ alive \in [Threads -> BOOLEAN] /\ exists \in [Nodes -> BOOLEAN]
Held == /\ \A t \in Threads : (alive[t] /\ ts[t] # 0) => (inuse[ts[t]] /\ exists[ts[t]])
        /\ \A a, b \in Threads : (a # b /\ alive[a] /\ alive[b] /\ ts[a] # 0) => ts[a] # ts[b]
        /\ \A n \in Nodes : inuse[n] => exists[n]
IndInv == TypeOK /\ Held
NoShare == \A a, b \in Threads : (a # b /\ alive[a] /\ alive[b] /\ ts[a] # 0) => ts[a] # ts[b]
OwnedInUse == \A t \in Threads : (alive[t] /\ ts[t] # 0) => inuse[ts[t]]
=============================================================================
