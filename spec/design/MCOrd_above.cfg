SPECIFICATION Spec
CONSTANTS
 Slots = {10,11,12,13,14,15,16}
 BA = 101
 EA = 102
 MaxHalves = 5
 ProxyFix = TRUE
 CeilFix = TRUE
 MaxHist = 99
INVARIANT NoCrash
INVARIANT ListWellFormed
INVARIANT FreeAndLiveDisjoint
INVARIANT LiveDisjoint
INVARIANT NoNodeLost
INVARIANT CacheAdjacent
VIEW View
CHECK_DEADLOCK FALSE
