SPECIFICATION Spec
CONSTANTS
 Threads = {1,2}
 Main = 1
 MaxNodes = 2
 MaxOps = 3
 FixUninit = FALSE
 FixDetector = TRUE
 FixNifty = TRUE
 AtomicAdopt = TRUE
 RefreshExpected = TRUE
 ReleaseLast = TRUE
INVARIANT NoShare
CHECK_DEADLOCK FALSE
