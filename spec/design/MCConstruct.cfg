\* rollback mechanisms of the object-creating helpers, n = 0..4, every k: all clauses of C20 hold
SPECIFICATION Spec
CONSTANTS MaxN = 4
          Helpers = {"unique", "shared", "array", "jarray", "jcreate"}
          Bug = "none"
INVARIANTS JointMemoryReturned NoDestroyOfUnconstructed ConstructedAtMostOnce EachConstructedDestroyedOnce MemoryReturnedSameShape ExceptionPropagatesUnchanged AllocatorUsableAfter ConstructedOnceOnSuccess GuardNeverLeftArmed
CHECK_DEADLOCK FALSE
