SPECIFICATION Spec
CONSTANTS
 MaxAlign = 16
 SizeofChunkBase = 24
 AlignofChunk = 8
 SizeofStackNode = 16
 MinElPtr = 8
 NSMax = 64
 NMax = 1100
 Groups = 8
 Formula = "repaired"
INVARIANT MinBlockSizeSuffices
INVARIANT ChunkCountFitsUnsignedChar
INVARIANT ArenaMinBlockSizeExact
CHECK_DEADLOCK FALSE
