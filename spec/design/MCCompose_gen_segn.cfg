SPECIFICATION GenSpec
CONSTANTS
 Tree = 7
 Cap <- CapSeg
 HasArray <- ArrNone1
 FbHasTryAllocArray = TRUE
 SegByTotal = TRUE
 MaxLive = 3
INVARIANT ReleasedAsAllocated
INVARIANT UsedWithinCapacity
CHECK_DEADLOCK FALSE
CONSTRAINT HistBound5
ACTION_CONSTRAINT Emit
