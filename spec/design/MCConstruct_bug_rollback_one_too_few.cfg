\* regression: the seeded defect "rollback_one_too_few" must be found (must be VIOLATED)
SPECIFICATION Spec
CONSTANTS MaxN = 4
          Helpers = {"unique", "shared", "array", "jarray", "jcreate"}
          Bug = "rollback_one_too_few"
INVARIANTS NoDestroyOfUnconstructed ConstructedAtMostOnce EachConstructedDestroyedOnce MemoryReturnedSameShape ExceptionPropagatesUnchanged AllocatorUsableAfter ConstructedOnceOnSuccess GuardNeverLeftArmed
CHECK_DEADLOCK FALSE
