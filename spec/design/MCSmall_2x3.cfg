SPECIFICATION Spec
CONSTANTS
 C = 2
 K = 3
 MoveFix = TRUE
 MaxHist = 99
INVARIANT NoHang
INVARIANT ChunkListsWellFormed
INVARIANT CapacityIsSum
INVARIANT FreeAndLiveDisjoint
INVARIANT NoNodeLost
VIEW View
CHECK_DEADLOCK FALSE
