SPECIFICATION Spec
CONSTANTS
 Slots = {10,11,12,13,14,15,16}
 BA = 1
 EA = 2
 MaxHalves = 5
 ProxyFix = TRUE
 CeilFix = TRUE
 MaxHist = 99
INVARIANT NotWitnessArrayFromMiddle
VIEW View
CHECK_DEADLOCK FALSE
