SPECIFICATION Spec
CONSTANTS
 Tree = 5
 Cap <- CapSeg
 HasArray <- ArrAll
 FbHasTryAllocArray = TRUE
 SegByTotal = TRUE
 MaxLive = 4
INVARIANT NotWitnessThirdLeaf
VIEW View
CHECK_DEADLOCK FALSE
