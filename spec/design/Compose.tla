------------------------------- MODULE Compose -------------------------------
(***************************************************************************)
(* Design model of request routing through compositions of                 *)
(* fallback_allocator over leaf allocators (fallback_allocator.hpp) and    *)
(* of the member-or-default dispatch of allocator_traits /                 *)
(* composable_allocator_traits (allocator_traits.hpp):                     *)
(*   - a RawAllocator without array members gets arrays as one node of     *)
(*     count*size bytes, on allocation and on deallocation alike;          *)
(*   - fallback_allocator<D, F> asks D through the composable interface    *)
(*     and falls back to F; its own composable members exist iff F is      *)
(*     composable;                                                         *)
(*   - a leaf recognises exactly its own memory in try_deallocate_*.       *)
(*   - binary_segregator<threshold_segregatable<S>, F> (segregator.hpp)    *)
(*     routes by the request alone: a node of size <= threshold, an array  *)
(*     of count*size <= threshold goes to S, everything else to F, through *)
(*     the THROWING traits interface (a full S throws, F is not asked);    *)
(*     releases are routed by the same predicate on the release's          *)
(*     parameters; a segregator has no composable members.                 *)
(*     SegByTotal = TRUE is the code; FALSE routes array RELEASES by the   *)
(*     element size alone (seeded design defect, regression witness).      *)
(* What reaches a leaf on release must be what it was asked for on         *)
(* allocation (C08 / C09): same leaf, same kind, same count and size.      *)
(* FbHasTryAllocArray = TRUE is the code as repaired; FALSE the original,  *)
(* where fallback_allocator's composable array allocation was misnamed     *)
(* allocate_array, so the composable traits of a NESTED fallback fell back *)
(* to try_allocate_node(count*size) while try_deallocate_array existed.    *)
(***************************************************************************)
EXTENDS Naturals, Sequences, FiniteSets, TLC
CONSTANTS Tree,               \* which composition: 1 = fb(L1,L2), 2 = fb(fb(L1,L2),L3), 3 = fb(L1,fb(L2,L3))
          Cap,                \* Cap[l]: bytes leaf l can hold (3 entries)
          HasArray,           \* HasArray[l]: leaf l has array member functions
          FbHasTryAllocArray, MaxLive,
          SegByTotal          \* array releases of a segregator are routed by count*size (the code) / by size (defect)
Leaves == 1..3
\* segregator trees get a size that crosses the second threshold of seg3 (3*5 = 15 units > 8)
Sizes == IF Tree >= 4 THEN {1, 2, 5} ELSE {1, 2}
Counts == {1, 2, 3}

Leaf(l) == [t |-> "leaf", l |-> l, d |-> 0, f |-> 0, th |-> 0]
Fb(d, f) == [t |-> "fb", l |-> 0, d |-> d, f |-> f, th |-> 0]
Seg(th, d, f) == [t |-> "seg", l |-> 0, d |-> d, f |-> f, th |-> th]
\* compositions as indices into a table (TLC has no recursive data types): node -> [t, l, d, f]
\*   4 = seg(32 B; L1, L2)   5 = seg(16 B; L1, seg(64 B; L2, L3))   6 = seg(32 B; L1, fb(L2, L3))   (driver: seg2, seg3, seg_fb)
\*   7 = seg(24 B; L1, L2) with a first leaf that may lack array members                           (driver: seg_n)
Nodes == CASE Tree = 1 -> <<Fb(2, 3), Leaf(1), Leaf(2)>>
           [] Tree = 2 -> <<Fb(2, 5), Fb(3, 4), Leaf(1), Leaf(2), Leaf(3)>>
           [] Tree = 3 -> <<Fb(2, 3), Leaf(1), Fb(4, 5), Leaf(2), Leaf(3)>>
           [] Tree = 4 -> <<Seg(4, 2, 3), Leaf(1), Leaf(2)>>
           [] Tree = 5 -> <<Seg(2, 2, 3), Leaf(1), Seg(8, 4, 5), Leaf(2), Leaf(3)>>
           [] Tree = 6 -> <<Seg(4, 2, 3), Leaf(1), Fb(4, 5), Leaf(2), Leaf(3)>>
           [] Tree = 7 -> <<Seg(3, 2, 3), Leaf(1), Leaf(2)>>
Root == 1

VARIABLES used,   \* used[l]: bytes leaf l currently holds
          live,   \* top-level allocations: [id, leaf, kind, n, sz] = what the serving leaf was asked for
          nextid, bad
vars == <<used, live, nextid, bad>>
Init == used = [l \in Leaves |-> 0] /\ live = {} /\ nextid = 1 /\ bad = <<>>

None == [ok |-> FALSE, leaf |-> 0, kind |-> "n", n |-> 0, sz |-> 0]
Got(l, kind, n, sz) == [ok |-> TRUE, leaf |-> l, kind |-> kind, n |-> n, sz |-> sz]

\* all leaves are composable in this model; which members a node has
RECURSIVE Composable(_)
Composable(c) == IF Nodes[c].t = "leaf" THEN TRUE ELSE IF Nodes[c].t = "seg" THEN FALSE ELSE Composable(Nodes[c].f)
HasArrayMember(c) == IF Nodes[c].t = "leaf" THEN HasArray[Nodes[c].l] ELSE TRUE
HasTryAllocArrayMember(c) == IF Nodes[c].t = "leaf" THEN HasArray[Nodes[c].l] ELSE Composable(c) /\ FbHasTryAllocArray
HasTryDeallocArrayMember(c) == IF Nodes[c].t = "leaf" THEN HasArray[Nodes[c].l] ELSE Composable(c)
IsSeg(c) == Nodes[c].t = "seg"
SegNode(c, sz) == IF sz <= Nodes[c].th THEN Nodes[c].d ELSE Nodes[c].f                  \* use_allocate_node
SegArray(c, n, sz) == IF n * sz <= Nodes[c].th THEN Nodes[c].d ELSE Nodes[c].f          \* use_allocate_array
SegArrayRelease(c, n, sz) == IF SegByTotal THEN SegArray(c, n, sz) ELSE SegNode(c, sz)

Fits(l, bytes) == used[l] + bytes <= Cap[l]

(* ---- allocation: member functions (M) and traits (T), throwing and composable ---- *)
RECURSIVE MTryNode(_, _), MTryArray(_, _, _), TTryArray(_, _, _), MNode(_, _), MArray(_, _, _), TArray(_, _, _)
MTryNode(c, sz) ==
  IF Nodes[c].t = "leaf" THEN (IF Fits(Nodes[c].l, sz) THEN Got(Nodes[c].l, "n", 1, sz) ELSE None)
  ELSE IF IsSeg(c) THEN None                                            \* no composable members
  ELSE LET r == MTryNode(Nodes[c].d, sz) IN IF r.ok THEN r ELSE MTryNode(Nodes[c].f, sz)
MTryArray(c, n, sz) ==
  IF Nodes[c].t = "leaf" THEN (IF Fits(Nodes[c].l, n * sz) THEN Got(Nodes[c].l, "a", n, sz) ELSE None)
  ELSE IF IsSeg(c) THEN None                                            \* no composable members
  ELSE LET r == TTryArray(Nodes[c].d, n, sz) IN IF r.ok THEN r ELSE TTryArray(Nodes[c].f, n, sz)
TTryArray(c, n, sz) == IF HasTryAllocArrayMember(c) THEN MTryArray(c, n, sz) ELSE MTryNode(c, n * sz)
MNode(c, sz) ==
  IF Nodes[c].t = "leaf" THEN (IF Fits(Nodes[c].l, sz) THEN Got(Nodes[c].l, "n", 1, sz) ELSE None)   \* None = throws
  ELSE IF IsSeg(c) THEN MNode(SegNode(c, sz), sz)
  ELSE LET r == MTryNode(Nodes[c].d, sz) IN IF r.ok THEN r ELSE MNode(Nodes[c].f, sz)
MArray(c, n, sz) ==
  IF Nodes[c].t = "leaf" THEN (IF Fits(Nodes[c].l, n * sz) THEN Got(Nodes[c].l, "a", n, sz) ELSE None)
  ELSE IF IsSeg(c) THEN TArray(SegArray(c, n, sz), n, sz)
  ELSE LET r == TTryArray(Nodes[c].d, n, sz) IN IF r.ok THEN r ELSE TArray(Nodes[c].f, n, sz)
TArray(c, n, sz) == IF HasArrayMember(c) THEN MArray(c, n, sz) ELSE MNode(c, n * sz)

(* ---- deallocation of allocation a: returns what the owning leaf is asked, or "none" ---- *)
Asked(l, kind, n, sz) == [found |-> TRUE, leaf |-> l, kind |-> kind, n |-> n, sz |-> sz]
NotFound == [found |-> FALSE, leaf |-> 0, kind |-> "n", n |-> 0, sz |-> 0]
RECURSIVE MTryDNode(_, _, _), MTryDArray(_, _, _, _), TTryDArray(_, _, _, _), MDNode(_, _, _), MDArray(_, _, _, _), TDArray(_, _, _, _)
MTryDNode(c, a, sz) ==
  IF Nodes[c].t = "leaf" THEN (IF a.leaf = Nodes[c].l THEN Asked(a.leaf, "n", 1, sz) ELSE NotFound)
  ELSE IF IsSeg(c) THEN NotFound                                            \* no composable members
  ELSE LET r == MTryDNode(Nodes[c].d, a, sz) IN IF r.found THEN r ELSE MTryDNode(Nodes[c].f, a, sz)
MTryDArray(c, a, n, sz) ==
  IF Nodes[c].t = "leaf" THEN (IF a.leaf = Nodes[c].l THEN Asked(a.leaf, "a", n, sz) ELSE NotFound)
  ELSE IF IsSeg(c) THEN NotFound                                            \* no composable members
  ELSE LET r == TTryDArray(Nodes[c].d, a, n, sz) IN IF r.found THEN r ELSE TTryDArray(Nodes[c].f, a, n, sz)
TTryDArray(c, a, n, sz) == IF HasTryDeallocArrayMember(c) THEN MTryDArray(c, a, n, sz) ELSE MTryDNode(c, a, n * sz)
MDNode(c, a, sz) ==
  IF Nodes[c].t = "leaf" THEN Asked(Nodes[c].l, "n", 1, sz)          \* a leaf releases whatever it is given
  ELSE IF IsSeg(c) THEN MDNode(SegNode(c, sz), a, sz)
  ELSE LET r == MTryDNode(Nodes[c].d, a, sz) IN IF r.found THEN r ELSE MDNode(Nodes[c].f, a, sz)
MDArray(c, a, n, sz) ==
  IF Nodes[c].t = "leaf" THEN Asked(Nodes[c].l, "a", n, sz)
  ELSE IF IsSeg(c) THEN TDArray(SegArrayRelease(c, n, sz), a, n, sz)
  ELSE LET r == TTryDArray(Nodes[c].d, a, n, sz) IN IF r.found THEN r ELSE TDArray(Nodes[c].f, a, n, sz)
TDArray(c, a, n, sz) == IF HasArrayMember(c) THEN MDArray(c, a, n, sz) ELSE MDNode(c, a, n * sz)

Record(r, kind, n, sz) ==
  /\ live' = live \cup {[id |-> nextid, leaf |-> r.leaf, kind |-> r.kind, n |-> r.n, sz |-> r.sz, rk |-> kind, rn |-> n, rsz |-> sz]}
  /\ used' = [used EXCEPT ![r.leaf] = @ + r.n * r.sz] /\ nextid' = nextid + 1 /\ UNCHANGED bad

AllocNode(sz) == /\ Cardinality(live) < MaxLive
                 /\ LET r == MNode(Root, sz) IN r.ok /\ Record(r, "n", 1, sz)
AllocArray(n, sz) == /\ Cardinality(live) < MaxLive
                     /\ LET r == TArray(Root, n, sz) IN r.ok /\ Record(r, "a", n, sz)
Dealloc(a) ==
  /\ a \in live
  /\ LET q == IF a.rk = "n" THEN MDNode(Root, a, a.rsz) ELSE TDArray(Root, a, a.rn, a.rsz)
         same == q.leaf = a.leaf /\ q.kind = a.kind /\ q.n = a.n /\ q.sz = a.sz
     IN /\ bad' = IF same THEN bad ELSE Append(bad, [alloc |-> a, asked |-> q])
        /\ live' = live \ {a} /\ used' = [used EXCEPT ![a.leaf] = @ - a.n * a.sz] /\ UNCHANGED nextid
Next == (\E sz \in Sizes : AllocNode(sz)) \/ (\E n \in Counts, sz \in Sizes : AllocArray(n, sz)) \/ (\E a \in live : Dealloc(a))
Spec == Init /\ [][Next]_vars

\* C08 / C09
ReleasedAsAllocated == bad = <<>>
UsedWithinCapacity == \A l \in Leaves : used[l] <= Cap[l]
\* segregators: where an allocation lives is a function of its request alone
RECURSIVE RouteOf(_, _)
RouteOf(c, a) == IF Nodes[c].t = "seg" THEN RouteOf(IF a.rk = "n" THEN SegNode(c, a.rsz) ELSE SegArray(c, a.rn, a.rsz), a) ELSE c
RECURSIVE LeavesUnder(_)
LeavesUnder(c) == IF Nodes[c].t = "leaf" THEN {Nodes[c].l} ELSE LeavesUnder(Nodes[c].d) \cup LeavesUnder(Nodes[c].f)
RoutedByThreshold == \A a \in live : a.leaf \in LeavesUnder(RouteOf(Root, a))
NotWitnessSegBothSides == ~(\E a, b \in live : a.leaf = 1 /\ b.leaf # 1 /\ a.rk = "a" /\ b.rk = "a" /\ a.rsz = b.rsz)
NotWitnessThirdLeaf == ~(\E a \in live : a.leaf = 3 /\ a.kind = "a")
View == <<used, {[leaf |-> a.leaf, kind |-> a.kind, n |-> a.n, sz |-> a.sz, rk |-> a.rk, rn |-> a.rn, rsz |-> a.rsz] : a \in live}, bad # <<>>>>
=============================================================================
