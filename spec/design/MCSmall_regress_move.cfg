SPECIFICATION Spec
CONSTANTS
 C = 1
 K = 2
 MoveFix = FALSE
 MaxHist = 99
INVARIANT NoHang
VIEW View
CHECK_DEADLOCK FALSE
