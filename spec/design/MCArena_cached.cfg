SPECIFICATION Spec
CONSTANTS
 Cached = TRUE
 MaxBlocks = 4
 MaxFails = 1
 Reverse = TRUE
 MaxHist = 99
INVARIANT EachBlockHeldOnce
INVARIANT HeldIsOutstanding
INVARIANT ReturnedOnce
INVARIANT ReverseOrder
INVARIANT AllReturnedWhenDead
INVARIANT MovedFromHoldsNothing
INVARIANT StacksOrdered
VIEW View
CHECK_DEADLOCK FALSE
