SPECIFICATION Spec
CONSTANTS
 Slots = {10,11,12,13,14,15}
 MaxHalves = 5
 CeilFix = FALSE
 MaxHist = 99
INVARIANT NoNodeLost
VIEW View
CHECK_DEADLOCK FALSE
