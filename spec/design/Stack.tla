-------------------------------- MODULE Stack --------------------------------
(***************************************************************************)
(* Design model of memory_stack<> (memory_stack.hpp) on top of a cached    *)
(* memory_arena and detail::fixed_memory_stack: bump allocation with       *)
(* fences and alignment offset, growth into the next block (taken from the *)
(* arena cache if there is one), markers (index, top, end), unwind with    *)
(* the block-index arithmetic of the code, shrink_to_fit.                  *)
(* Addresses are absolute (alignment is computed on addresses): block b    *)
(* occupies [Base(b), Base(b) + BSize[b]).  Blocks b <= nused are in use,  *)
(* the next ncached ones are in the arena cache.                           *)
(* DropFix = TRUE: to_deallocate = (size - 1) - m.index as in the code;    *)
(* FALSE: one block too few is dropped (regression for the invariants).    *)
(***************************************************************************)
EXTENDS Naturals, Integers, Sequences, FiniteSets, TLC, Json
CONSTANTS BSize,      \* sequence: usable size of block 1, 2, ... (the arena hands them out in this order)
          Fence, Aligns, Sizes, DropFix, MaxLive, MaxMarks, MaxHist
MaxBlocks == Len(BSize)
Base(b) == 64 * b + 16
BlockEnd(b) == Base(b) + BSize[b]
AlignOffset(addr, al) == (al - (addr % al)) % al

VARIABLES nused, ncached, top, live, marks, nextid, restoreOk, threw, hist
vars == <<nused, ncached, top, live, marks, nextid, restoreOk, threw, hist>>

Init == /\ nused = 1 /\ ncached = 0 /\ top = Base(1) /\ live = {} /\ marks = <<>> /\ nextid = 1
        /\ restoreOk = TRUE /\ threw = 0 /\ hist = <<>>

Cap == BlockEnd(nused) - top

(* memory_stack::allocate *)
Allocate(size, al) ==
  /\ Cardinality(live) < MaxLive
  /\ LET off0 == AlignOffset(top + Fence, al)
         fits == Fence + off0 + size + Fence <= BlockEnd(nused) - top
     IN IF fits
        THEN /\ live' = live \cup {[id |-> nextid, blk |-> nused, addr |-> top + Fence + off0, len |-> size, al |-> al]}
             /\ top' = top + Fence + off0 + size + Fence /\ nextid' = nextid + 1
             /\ UNCHANGED <<nused, ncached, threw>>
        ELSE /\ nused < MaxBlocks          \* otherwise the block source throws, nothing changes
             /\ LET nb == nused + 1
                    off1 == AlignOffset(Base(nb) + Fence, al)
                    needed == Fence + off1 + size + Fence
                IN /\ nused' = nb /\ ncached' = IF ncached > 0 THEN ncached - 1 ELSE 0
                   /\ IF needed > BSize[nb]
                      THEN \* check_allocation_size throws AFTER the block was taken
                           /\ top' = Base(nb) /\ threw' = threw + 1 /\ UNCHANGED <<live, nextid>>
                      ELSE /\ live' = live \cup {[id |-> nextid, blk |-> nb, addr |-> Base(nb) + Fence + off1, len |-> size, al |-> al]}
                           /\ top' = Base(nb) + needed /\ nextid' = nextid + 1 /\ UNCHANGED threw
  /\ UNCHANGED <<marks, restoreOk>>
  /\ hist' = Append(hist, [op |-> "an", a |-> size, b |-> al,
                            rb |-> IF nextid' > nextid THEN (CHOOSE x \in live' : x.id = nextid).blk ELSE -1,
                            ro |-> IF nextid' > nextid THEN (CHOOSE x \in live' : x.id = nextid).addr - Base((CHOOSE x \in live' : x.id = nextid).blk) ELSE -1])

(* memory_stack::try_allocate = fixed_memory_stack::allocate: never grows *)
TryAllocate(size, al) ==
  /\ Cardinality(live) < MaxLive
  /\ LET off0 == AlignOffset(top + Fence, al) IN
     IF Fence + off0 + size + Fence <= BlockEnd(nused) - top
     THEN /\ live' = live \cup {[id |-> nextid, blk |-> nused, addr |-> top + Fence + off0, len |-> size, al |-> al]}
          /\ top' = top + Fence + off0 + size + Fence /\ nextid' = nextid + 1
     ELSE UNCHANGED <<live, top, nextid>>
  /\ UNCHANGED <<nused, ncached, marks, restoreOk, threw>>
  /\ hist' = Append(hist, [op |-> "tn", a |-> size, b |-> al,
                            rb |-> IF nextid' > nextid THEN nused ELSE -1,
                            ro |-> IF nextid' > nextid THEN (CHOOSE x \in live' : x.id = nextid).addr - Base(nused) ELSE -1])

(* memory_stack::top *)
Mark ==
  /\ Len(marks) < MaxMarks
  /\ marks' = Append(marks, [index |-> nused - 1, top |-> top, end |-> BlockEnd(nused),
                             wm |-> nextid - 1, cap |-> Cap, nused |-> nused])
  /\ UNCHANGED <<nused, ncached, top, live, nextid, restoreOk, threw>>
  /\ hist' = Append(hist, [op |-> "mk", a |-> 0, b |-> 0, rb |-> -1, ro |-> -1])

(* memory_stack::unwind *)
Unwind(j) ==
  /\ j \in 1..Len(marks)
  /\ LET m == marks[j]
         todrop == IF DropFix THEN (nused - 1) - m.index
                   ELSE IF (nused - 1) - m.index > 0 THEN (nused - 1) - m.index - 1 ELSE 0
     IN /\ nused' = nused - todrop /\ ncached' = ncached + todrop
        /\ top' = m.top
        /\ live' = {a \in live : a.id <= m.wm}
        /\ marks' = SubSeq(marks, 1, j)
        \* C06: the state is exactly the one at the marker
        /\ restoreOk' = (restoreOk /\ nused' = m.nused /\ BlockEnd(nused') - top' = m.cap /\ BlockEnd(nused') = m.end)
  /\ UNCHANGED <<nextid, threw>>
  /\ hist' = Append(hist, [op |-> "uw", a |-> j - 1, b |-> 0, rb |-> -1, ro |-> -1])

ShrinkToFit ==
  /\ ncached > 0 /\ ncached' = 0
  /\ UNCHANGED <<nused, top, live, marks, nextid, restoreOk, threw>>
  /\ hist' = Append(hist, [op |-> "sh", a |-> 0, b |-> 0, rb |-> -1, ro |-> -1])

Next == \/ \E s \in Sizes, al \in Aligns : Allocate(s, al) \/ TryAllocate(s, al)
        \/ Mark \/ (\E j \in 1..MaxMarks : Unwind(j)) \/ ShrinkToFit
Spec == Init /\ [][Next]_vars

Ov(a, c) == a.addr < c.addr + c.len /\ c.addr < a.addr + a.len
\* C01 / C02
LiveDisjoint == \A a, c \in live : a.id # c.id => ~Ov(a, c)
LiveInside == \A a \in live : a.blk <= nused /\ a.addr >= Base(a.blk) /\ a.addr + a.len <= BlockEnd(a.blk)
             /\ (a.blk = nused => a.addr + a.len + Fence <= top)
Aligned == \A a \in live : a.addr % a.al = 0
TopInside == top >= Base(nused) /\ top <= BlockEnd(nused)
BlocksBounded == nused >= 1 /\ nused + ncached <= MaxBlocks
\* C06
UnwindRestores == restoreOk
MarkersNested == \A i, j \in 1..Len(marks) : i < j =>
                    (marks[i].index < marks[j].index \/ (marks[i].index = marks[j].index /\ marks[i].top <= marks[j].top))
MarkersBelowTop == \A i \in 1..Len(marks) : marks[i].index < nused - 1 \/ (marks[i].index = nused - 1 /\ marks[i].top <= top)

NotWitnessUnwindAcrossTwo == ~(ncached >= 2)
NotWitnessMarkAtBlockEnd == ~(\E i \in 1..Len(marks) : marks[i].top = marks[i].end)
NotWitnessThrowAfterGrow == threw = 0
View == <<nused, ncached, top, {[blk |-> a.blk, addr |-> a.addr, len |-> a.len, al |-> a.al, old |-> \E i \in 1..Len(marks) : a.id <= marks[i].wm] : a \in live},
          [i \in 1..Len(marks) |-> [index |-> marks[i].index, top |-> marks[i].top, cap |-> marks[i].cap, k |-> Cardinality({a \in live : a.id <= marks[i].wm})]], restoreOk, threw > 0>>
Emit == PrintT(<<"BEHAVIOUR", ToJson(hist')>>)
HistBound == Len(hist) < MaxHist
=============================================================================
