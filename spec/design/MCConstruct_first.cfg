\* design-level statement of finding D1 (must be VIOLATED while the defect exists): ~builder unwinds the
\* joint stack only if (size_), so a throw from the FIRST element leaves the piece allocated
SPECIFICATION Spec
CONSTANTS MaxN = 4
          Helpers = {"jarray"}
          Bug = "none"
INVARIANT JointMemoryReturned
CHECK_DEADLOCK FALSE
