\* regression for finding D1 / F21 (fixed in /repo): with the original destructor the invariant must be VIOLATED: ~builder unwinds the
\* joint stack only if (size_), so a throw from the FIRST element leaves the piece allocated
SPECIFICATION Spec
CONSTANTS MaxN = 4
          Helpers = {"jarray"}
          Bug = "builder_unwind_if_size"
INVARIANT JointMemoryReturned
CHECK_DEADLOCK FALSE
