SPECIFICATION Spec
CONSTANTS
 W = 13
 MaxAl = 16
 MinElPtr = 8
 Clamp = TRUE
 Parts = {"align", "ilog", "bucket"}
INVARIANT ValidAlignmentsArePowersOfTwo
INVARIANT RoundUpIsLeastMultiple
INVARIANT AlignOffsetIsLeast
INVARIANT IsAlignedIffOffsetZero
INVARIANT AlignmentForIsLargestPow2Capped
INVARIANT Ilog2IsFloor
INVARIANT Ilog2CeilIsCeil
INVARIANT BucketInsideArray
INVARIANT BucketHoldsSize
INVARIANT Log2BucketLessThanTwice
INVARIANT IdentityBucketExact
CHECK_DEADLOCK FALSE
