---- MODULE MCStack ----
EXTENDS Stack
BS3 == <<6, 12, 24>>
BS2 == <<8, 16>>
====
