---- MODULE MCStack ----
EXTENDS Stack
BS3 == <<6, 12, 24>>
BS2 == <<8, 16>>
\* usable sizes of the first blocks of a real memory_stack(24): 24 - 16, 48 - 16
BS2real == <<8, 32>>
====
