SPECIFICATION Spec
CONSTANTS
 Slots = {1,2,3}
 Allocs = {1,2}
 POCCA = TRUE
 POCMA = TRUE
 POCS = TRUE
 EqByIdentity = TRUE
 MaxNodes = 1
 MaxHist = 6
VIEW View
CHECK_DEADLOCK FALSE
CONSTRAINT HistBound
ACTION_CONSTRAINT Emit
