SPECIFICATION Spec
CONSTANTS
  MaxN = 5
  Repaired = TRUE
INVARIANTS
  NotWitnessSingleChunkFresh
CHECK_DEADLOCK FALSE
