---- MODULE MCCompose ----
EXTENDS Compose
CapSmall == <<2, 3, 100>>
CapSeg == <<6, 10, 100>>
ArrAll == <<TRUE, TRUE, TRUE>>
ArrNone1 == <<FALSE, TRUE, TRUE>>
ArrNone2 == <<TRUE, FALSE, TRUE>>
====
