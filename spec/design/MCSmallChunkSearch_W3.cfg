SPECIFICATION Spec
CONSTANTS
  MaxN = 5
  Repaired = TRUE
INVARIANTS
  NotWitnessFoundInSearch
CHECK_DEADLOCK FALSE
