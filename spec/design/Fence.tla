------------------------------- MODULE Fence -------------------------------
(***************************************************************************)
(* Design model (C17): one low-level node with a fence of F bytes on each  *)
(* side, as lowlevel_allocator / virtual_memory_allocator lay it out       *)
(* through detail::debug_fill_new, up to MaxWrites arbitrary single-byte   *)
(* writes by the user at any offset (fences and node) with the fence value *)
(* or another one, and the check-on-release procedure transcribed from     *)
(* src/detail/debug_helpers.cpp:                                           *)
(*                                                                         *)
(*   debug_fill_free(memory, node_size, fence_size):                       *)
(*       debug_fill(memory, node_size, freed_memory);                      *)
(*       pre_dirty  = debug_is_filled(memory - fence, fence, fence_memory) *)
(*       if (pre_dirty)  handler(memory, node_size, pre_dirty);            *)
(*       post_dirty = debug_is_filled(memory + node_size, fence, ...)      *)
(*       if (post_dirty) handler(memory, node_size, post_dirty);           *)
(*   debug_is_filled: for (byte = memory; byte != end; ++byte)             *)
(*                        if (byte[0] != m) return byte;                   *)
(*                                                                         *)
(* One action per loop iteration.  Offsets are relative to the node start: *)
(* front fence -F..-1, node 0..S-1, back fence S..S+F-1.  The handler      *)
(* returns (so both sides can be reported in one release), the handler     *)
(* that exits is the prefix of that behaviour.                             *)
(*                                                                         *)
(* Invariants = clauses of C17: a report is made iff a fence byte differs  *)
(* from the fence pattern; each report names the lowest differing byte of  *)
(* its side, front fence first; in-bounds writes are never reported; with  *)
(* F = 0 nothing is ever reported; fresh memory carries the new pattern;   *)
(* released memory carries the freed pattern.                              *)
(*                                                                         *)
(* CONSTANT Defect seeds a fault for the regression configurations:        *)
(*   "none" | "one_byte_less" (debug_is_filled stops one byte early)       *)
(*          | "back_only"     (front fence not checked)                    *)
(***************************************************************************)
EXTENDS Naturals, Integers, Sequences, FiniteSets

CONSTANTS MaxF, MaxS, MaxWrites, Defect

FD == "fd"   \* fence_memory
CD == "cd"   \* new_memory
DD == "dd"   \* freed_memory
XX == "xx"   \* anything else
Bytes == {FD, CD, DD, XX}

VARIABLES F, S,      \* fence size and node size of this run
          mem,       \* offset -> byte
          pc, i,     \* program counter and scan position of debug_is_filled
          writes,    \* writes made so far: set of <<offset, value>>
          reports,   \* sequence of reported offsets
          dirtyAtRelease  \* fence offsets that differed from the pattern when release began

vars == <<F, S, mem, pc, i, writes, reports, dirtyAtRelease>>

Offsets == (0 - F)..(S + F - 1)
Pre == (0 - F)..(0 - 1)
Post == S..(S + F - 1)
Node == 0..(S - 1)

Init ==
  /\ F \in 0..MaxF /\ S \in 1..MaxS
  /\ mem \in [(0 - F)..(S + F - 1) -> {XX, FD}]      \* whatever the system handed out
  /\ pc = "new" /\ i = 0 /\ writes = {} /\ reports = <<>> /\ dirtyAtRelease = {}

\* debug_fill_new(memory, node_size, fence_size)
FillNew ==
  /\ pc = "new"
  /\ mem' = [o \in Offsets |-> IF o \in Node THEN CD ELSE FD]
  /\ pc' = "user"
  /\ UNCHANGED <<F, S, i, writes, reports, dirtyAtRelease>>

\* the user writes one byte somewhere in or around the node
Write ==
  /\ pc = "user" /\ Cardinality(writes) < MaxWrites
  /\ \E o \in Offsets, v \in {FD, XX} :
       /\ mem' = [mem EXCEPT ![o] = v]
       /\ writes' = writes \cup {<<o, v>>}
  /\ UNCHANGED <<F, S, pc, i, reports, dirtyAtRelease>>

\* deallocate_node -> debug_fill_free: fill the node, then start scanning the front fence
Release ==
  /\ pc = "user"
  /\ dirtyAtRelease' = {o \in Pre \cup Post : mem[o] # FD}
  /\ mem' = [o \in Offsets |-> IF o \in Node THEN DD ELSE mem[o]]
  /\ pc' = IF Defect = "back_only" THEN "post" ELSE "pre"
  /\ i' = IF Defect = "back_only" THEN S ELSE 0 - F
  /\ UNCHANGED <<F, S, writes, reports>>

ScanEnd(end) == IF Defect = "one_byte_less" /\ F > 0 THEN end - 1 ELSE end

\* one iteration of debug_is_filled over the front fence
ScanPre ==
  /\ pc = "pre"
  /\ IF i = ScanEnd(0) THEN pc' = "post" /\ i' = S /\ UNCHANGED reports          \* clean: returns nullptr
     ELSE IF mem[i] # FD THEN reports' = Append(reports, i) /\ pc' = "post" /\ i' = S
     ELSE i' = i + 1 /\ UNCHANGED <<pc, reports>>
  /\ UNCHANGED <<F, S, mem, writes, dirtyAtRelease>>

ScanPost ==
  /\ pc = "post"
  /\ IF i = ScanEnd(S + F) THEN pc' = "done" /\ UNCHANGED <<i, reports>>
     ELSE IF mem[i] # FD THEN reports' = Append(reports, i) /\ pc' = "done" /\ UNCHANGED i
     ELSE i' = i + 1 /\ UNCHANGED <<pc, reports>>
  /\ UNCHANGED <<F, S, mem, writes, dirtyAtRelease>>

Next == FillNew \/ Write \/ Release \/ ScanPre \/ ScanPost
Spec == Init /\ [][Next]_vars

-----------------------------------------------------------------------------
MinOf(T) == CHOOSE m \in T : \A k \in T : m <= k
DirtyPre == dirtyAtRelease \cap Pre
DirtyPost == dirtyAtRelease \cap Post
Expected == (IF DirtyPre = {} THEN <<>> ELSE <<MinOf(DirtyPre)>>) \o (IF DirtyPost = {} THEN <<>> ELSE <<MinOf(DirtyPost)>>)

TypeOK == pc \in {"new", "user", "pre", "post", "done"} /\ \A o \in Offsets : mem[o] \in Bytes

\* a report is made iff a fence byte differs, it names the lowest differing byte of its side,
\* front fence first
OverflowReportedAtFirstDirtyByte == pc = "done" => reports = Expected
\* whatever has been reported so far is right (the exiting handler sees a prefix)
ReportsArePrefix == Len(reports) <= Len(Expected) /\ \A k \in 1..Len(reports) : reports[k] = Expected[k]
InBoundsNeverReported == (pc = "done" /\ \A w \in writes : w[1] \in Node \/ w[2] = FD) => reports = <<>>
NoFenceNoReport == F = 0 => reports = <<>>
FreshMemoryIsNewPattern == (pc = "user" /\ writes = {}) => \A o \in Node : mem[o] = CD
ReleasedMemoryIsFreedPattern == pc \in {"pre", "post", "done"} => \A o \in Node : mem[o] = DD

\* witnesses (must be violated)
NotWitnessBackFenceReport == ~(pc = "done" /\ Len(reports) = 1 /\ reports[1] >= S /\ F = MaxF /\ S = MaxS)
NotWitnessBothSides == ~(pc = "done" /\ Len(reports) = 2)
=============================================================================
