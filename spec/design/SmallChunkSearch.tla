--------------------------- MODULE SmallChunkSearch ---------------------------
(***************************************************************************)
(* Design model (C16, finding F18): the chunk search of                    *)
(* small_free_memory_list::deallocate, transcribed from                    *)
(* src/detail/small_free_list.cpp at the level at which the code compares  *)
(* and dereferences:                                                       *)
(*                                                                         *)
(*   find_chunk_impl(node)              choose the half to search from     *)
(*                                      dealloc_chunk_ / alloc_chunk_      *)
(*   find_chunk_impl(node, first, last) two-ended walk over the circular,  *)
(*                                      address-ordered chunk list         *)
(*                                                                         *)
(* Chunks are addresses; the list is closed by the proxy node base_, which *)
(* lives inside the list object and therefore has an address of its own    *)
(* that is unrelated to the chunk addresses: below all chunks (pool object *)
(* in static storage / on the heap before its memory) or above them (pool  *)
(* object on the stack).  The code compares that address like any other.   *)
(*                                                                         *)
(* Layout: chunk i (1..N) has address 10*i, its node memory is             *)
(* 10*i+1 .. 10*i+5.  A node address is any number in 0 .. 10*N+19.        *)
(*                                                                         *)
(* Property: for a node inside some chunk the search returns that chunk;   *)
(* for any other address it TERMINATES and returns "none" (or reaches the  *)
(* "must be in one half" path, which aborts under assertions and returns   *)
(* nullptr otherwise: both are reported by deallocate()).                  *)
(* Termination is checked with a step counter: Steps <= MaxN + 2.          *)
(*                                                                         *)
(* CONSTANT Repaired selects the loop condition:                           *)
(*   FALSE   } while (!greater(first, last));                    (F18)     *)
(*   TRUE    } while (first != &base_ && last != &base_                    *)
(*                    && !greater(first, last));                           *)
(***************************************************************************)
EXTENDS Naturals, Integers, FiniteSets

CONSTANTS MaxN,      \* up to MaxN chunks
          Repaired   \* BOOLEAN

VARIABLES n,        \* number of chunks
          paddr,    \* address of the proxy node
          dealloc,  \* dealloc_chunk_ (0 = proxy, i = chunk i)
          alloc,    \* alloc_chunk_
          node,     \* the address passed to deallocate()
          pc, first, last, result, steps, overProxy

vars == <<n, paddr, dealloc, alloc, node, pc, first, last, result, steps, overProxy>>

Proxy == 0
\* results that are not a chunk
Pending == -1
None == -2          \* nullptr: deallocate() reports the pointer
Unreachable == -3   \* FOONATHAN_MEMORY_UNREACHABLE("must be in one half")
Addr(c) == IF c = Proxy THEN paddr ELSE 10 * c
Next(c) == IF c = n THEN Proxy ELSE c + 1          \* Proxy -> 1 -> ... -> n -> Proxy
Prev(c) == IF c = Proxy THEN n ELSE c - 1
\* chunk::from: the proxy has no_nodes = 0, so nothing is "from" it
From(c, a) == c # Proxy /\ a >= 10 * c + 1 /\ a <= 10 * c + 5
Home(a) == IF \E c \in 1..n : From(c, a) THEN CHOOSE c \in 1..n : From(c, a) ELSE Proxy

Init ==
  /\ n \in 1..MaxN
  /\ paddr \in {3, 10 * n + 13}
  /\ dealloc \in 0..n
  /\ alloc \in 0..n
  /\ node \in 0..(10 * n + 19)
  /\ node # paddr
  /\ pc = "start" /\ first = Proxy /\ last = Proxy /\ result = Pending /\ steps = 0 /\ overProxy = FALSE

\* chunk* small_free_memory_list::find_chunk_impl(unsigned char* node)
Start ==
  /\ pc = "start"
  /\ IF From(dealloc, node) THEN result' = dealloc /\ pc' = "done" /\ UNCHANGED <<first, last>>
     ELSE IF From(alloc, node) THEN result' = alloc /\ pc' = "done" /\ UNCHANGED <<first, last>>
     ELSE IF Addr(dealloc) < node
          THEN \* node is in (dealloc_chunk_, base_.prev]
               first' = Next(dealloc) /\ last' = Prev(Proxy) /\ pc' = "body" /\ UNCHANGED result
     ELSE IF Addr(dealloc) > node
          THEN \* node is in [base.next, dealloc_chunk_)
               first' = Next(Proxy) /\ last' = Prev(dealloc) /\ pc' = "body" /\ UNCHANGED result
     ELSE result' = Unreachable /\ pc' = "done" /\ UNCHANGED <<first, last>>
  /\ UNCHANGED <<n, paddr, dealloc, alloc, node, steps, overProxy>>

\* one iteration of the do-while in find_chunk_impl(node, first, last)
Body ==
  /\ pc = "body"
  /\ steps <= MaxN + 3          \* the counter saturates: non-termination shows as Steps > bound
  /\ IF From(first, node) THEN result' = first /\ pc' = "done" /\ UNCHANGED <<first, last, steps, overProxy>>
     ELSE IF From(last, node) THEN result' = last /\ pc' = "done" /\ UNCHANGED <<first, last, steps, overProxy>>
     ELSE LET f == Next(first)
              b == Prev(last)
              again == IF Repaired THEN f # Proxy /\ b # Proxy /\ ~(Addr(f) > Addr(b))
                       ELSE ~(Addr(f) > Addr(b))
          IN /\ first' = f /\ last' = b /\ steps' = steps + 1
             /\ overProxy' = (overProxy \/ first = Proxy \/ last = Proxy)
             /\ IF again THEN pc' = "body" /\ UNCHANGED result
                ELSE pc' = "done" /\ result' = None
  /\ UNCHANGED <<n, paddr, dealloc, alloc, node>>

Next_ == Start \/ Body
Spec == Init /\ [][Next_]_vars

-----------------------------------------------------------------------------
TypeOK == pc \in {"start", "body", "done"} /\ n \in 1..MaxN

\* the two-ended walk ends after at most about half the list
Terminates == steps <= MaxN + 2

\* result of the search
Correct ==
  pc = "done" =>
    IF Home(node) # Proxy THEN result = Home(node)
    ELSE result \in {None, Unreachable}

\* the "must be in one half" path is taken only for an address that equals the cursor's
UnreachableOnlyOnEqualAddress == (pc = "done" /\ result = Unreachable) => node = Addr(dealloc)

\* witnesses (must be violated): the interesting situations are inside the constants
NotWitnessForeignOverProxy == ~(pc = "done" /\ result = None /\ overProxy)
NotWitnessSingleChunkFresh == ~(pc = "done" /\ result = None /\ n = 1 /\ dealloc = Proxy)
NotWitnessFoundInSearch == ~(pc = "done" /\ steps >= 1 /\ result \in 1..MaxN)
=============================================================================
