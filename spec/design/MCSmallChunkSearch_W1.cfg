SPECIFICATION Spec
CONSTANTS
  MaxN = 5
  Repaired = TRUE
INVARIANTS
  NotWitnessForeignOverProxy
CHECK_DEADLOCK FALSE
