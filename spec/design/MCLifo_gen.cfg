SPECIFICATION Spec
CONSTANTS
 Slots = {10,11,12,13,14}
 MaxHalves = 5
 CeilFix = TRUE
 MaxHist = 8
VIEW View
CONSTRAINT HistBound
ACTION_CONSTRAINT Emit
CHECK_DEADLOCK FALSE
