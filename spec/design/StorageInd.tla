---------------------------- MODULE StorageInd ----------------------------
(* Apalache version of spec/design/Storage.tla (all members locked) with an inductive invariant:
   mutual exclusion of the wrapped allocator for ANY number of calls per thread. *)
EXTENDS Integers, FiniteSets
CONSTANTS
  \* @type: Set(Int);
  Threads,
  \* @type: Set(Str);
  Members
VARIABLES
  \* @type: Int -> Str;
  pc,
  \* @type: Int;
  holder,
  \* @type: Int;
  head,
  \* @type: Int -> Int;
  seen

CInit == Threads = {1, 2, 3} /\ Members = {"allocate_node", "try_allocate_node"}
States == {"idle", "locked", "inside", "leaving"}
Init == /\ pc = [t \in Threads |-> "idle"] /\ holder = 0 /\ head = 1
        /\ seen = [t \in Threads |-> 0]
Begin(t) == /\ pc[t] = "idle" /\ holder = 0 /\ holder' = t /\ pc' = [pc EXCEPT ![t] = "locked"] /\ UNCHANGED <<head, seen>>
Enter(t) == /\ pc[t] = "locked" /\ seen' = [seen EXCEPT ![t] = head] /\ pc' = [pc EXCEPT ![t] = "inside"] /\ UNCHANGED <<holder, head>>
Leave(t) == /\ pc[t] = "inside" /\ head' = seen[t] + 1
            /\ pc' = [pc EXCEPT ![t] = "leaving"] /\ UNCHANGED <<holder, seen>>
End(t) == /\ pc[t] = "leaving" /\ holder' = 0 /\ pc' = [pc EXCEPT ![t] = "idle"] /\ UNCHANGED <<head, seen>>
Next == \E t \in Threads : Begin(t) \/ Enter(t) \/ Leave(t) \/ End(t)

TypeOK == /\ pc \in [Threads -> States] /\ holder \in Threads \union {0} /\ head \in Nat
          /\ seen \in [Threads -> Nat]
\* the thread that is past the lock_guard constructor holds the mutex, nobody else does
LockInv == /\ \A t \in Threads : pc[t] # "idle" => holder = t
           /\ (holder # 0 => pc[holder] # "idle")
\* what a thread read is the head, until it writes it back; nodes handed out lie below the head
DataInv == /\ \A t \in Threads : pc[t] = "inside" => seen[t] = head
IndInv == TypeOK /\ LockInv /\ DataInv
AtMostOneInside == \A a, b \in Threads : (pc[a] = "inside" /\ pc[b] = "inside") => a = b
\* the wrapped allocator's read-modify-write is never interleaved: what a thread inside has read is still current
NoLostUpdate == \A t \in Threads : pc[t] = "inside" => seen[t] = head
=============================================================================
