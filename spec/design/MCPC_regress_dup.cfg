SPECIFICATION Spec
CONSTANTS
 U = 7
 NS <- NS12
 MaxBlocks = 1
 MaxLive = 9
 FixRest = FALSE
 MaxHist = 99
INVARIANT LiveDisjoint
VIEW View
CHECK_DEADLOCK FALSE
