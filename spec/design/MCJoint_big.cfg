\* (thorough tier) joint stack: block <= 24 units, requests 0..5 units with alignments 1,2,4: all clauses of C11 hold
SPECIFICATION Spec
CONSTANTS S = 4
          MaxAdd = 20
          Bases = {8, 10}
          Aligns = {1, 2, 4}
          MaxSize = 5
          MaxAllocs = 3
          NMembers = 2
          CloneBases = "same"
          EmptyRange = FALSE
          Bug = "none"
INVARIANTS PieceAfterObjectInsideBlock PiecesDisjoint PieceAligned OverflowThrowsFixedMemory ObjectDestroyedOnce BlockReleasedOnceSameSizeAlign CloneIndependent CloneSucceeds
CHECK_DEADLOCK FALSE
