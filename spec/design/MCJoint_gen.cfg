SPECIFICATION GenSpec
CONSTANTS S = 104
          MaxAdd = 64
          Bases = {16, 24}
          Aligns = {1, 2, 4, 8, 16}
          MaxSize = 17
          MaxAllocs = 3
          NMembers = 0
          CloneBases = "same"
          EmptyRange = FALSE
          Bug = "none"
          GenAdds = {0, 19, 40}
          GenSizes = {0, 3, 17}
          GenAligns = {1, 8, 16}
INVARIANTS PieceAfterObjectInsideBlock PiecesDisjoint PieceAligned OverflowThrowsFixedMemory
CHECK_DEADLOCK FALSE
ACTION_CONSTRAINT Emit
