SPECIFICATION GenSpec
CONSTANTS
 Cached = FALSE
 MaxBlocks = 5
 MaxFails = 2
 Reverse = TRUE
 MaxHist = 9
INVARIANT StacksOrdered
INVARIANT ReverseOrder
VIEW View
CHECK_DEADLOCK FALSE
CONSTRAINT HistBound
ACTION_CONSTRAINT Emit
