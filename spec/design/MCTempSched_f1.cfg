SPECIFICATION GenSpec
CONSTANTS
 Threads = {1,2,3,4,5,6}
 Main = 1
 MaxNodes = 5
 MaxOps = 1
 FixUninit = TRUE
 FixDetector = TRUE
 FixNifty = TRUE
 AtomicAdopt = TRUE
 RefreshExpected = TRUE
 ReleaseLast = TRUE
 Free = 1
 Getters = {2,3,4}
 Releasers = {}
VIEW GenView
INVARIANT NoShare
INVARIANT ListComplete
CHECK_DEADLOCK FALSE
ACTION_CONSTRAINT Emit
