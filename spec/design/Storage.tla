------------------------------- MODULE Storage -------------------------------
(***************************************************************************)
(* Design model of allocator_storage<StoragePolicy, Mutex> used as         *)
(* thread_safe_allocator (allocator_storage.hpp, threading.hpp): every     *)
(* forwarding member function is                                           *)
(*     lock_guard on the storage, then traits::f on the stored allocator;   *)
(* i.e. four steps per call: acquire, enter the wrapped allocator, leave   *)
(* it, release.  The wrapped allocator is a (non thread safe) pool: its    *)
(* critical section reads the free-list head when entering and writes it   *)
(* when leaving, so two threads inside at once hand out the same node.     *)
(* Locked[m] = FALSE models a member whose lock_guard is missing           *)
(* (regression: TLC must find the interleaving that breaks the pool).      *)
(* Threads run a fixed number of calls; which member each call uses is     *)
(* chosen nondeterministically.                                            *)
(***************************************************************************)
EXTENDS Naturals, Sequences, FiniteSets, TLC
CONSTANTS Threads, Members, Unlocked, Calls, Nodes
VARIABLES pc,      \* pc[t] in {"idle","locked","inside","leaving","done"}
          cur,     \* member function the thread is executing
          holder,  \* thread that holds the mutex or 0
          head,    \* free-list head of the wrapped pool: next node to hand out
          seen,    \* what the thread read when it entered
          got,     \* nodes handed to each thread
          left     \* calls left per thread
vars == <<pc, cur, holder, head, seen, got, left>>
Init == /\ pc = [t \in Threads |-> "idle"] /\ cur = [t \in Threads |-> CHOOSE m \in Members : TRUE]
        /\ holder = 0 /\ head = 1 /\ seen = [t \in Threads |-> 0] /\ got = [t \in Threads |-> {}]
        /\ left = [t \in Threads |-> Calls]
Locked(m) == m \notin Unlocked

Begin(t, m) ==  \* constructor of the lock_guard
  /\ pc[t] = "idle" /\ left[t] > 0
  /\ cur' = [cur EXCEPT ![t] = m]
  /\ IF Locked(m) THEN holder = 0 /\ holder' = t ELSE UNCHANGED holder
  /\ pc' = [pc EXCEPT ![t] = "locked"]
  /\ UNCHANGED <<head, seen, got, left>>
Enter(t) ==     \* the wrapped allocator reads its state
  /\ pc[t] = "locked" /\ seen' = [seen EXCEPT ![t] = head] /\ pc' = [pc EXCEPT ![t] = "inside"]
  /\ UNCHANGED <<cur, holder, head, got, left>>
Leave(t) ==     \* ... and writes it back
  /\ pc[t] = "inside" /\ seen[t] <= Nodes
  /\ head' = seen[t] + 1 /\ got' = [got EXCEPT ![t] = @ \cup {seen[t]}]
  /\ pc' = [pc EXCEPT ![t] = "leaving"]
  /\ UNCHANGED <<cur, holder, seen, left>>
End(t) ==       \* destructor of the lock_guard
  /\ pc[t] = "leaving"
  /\ IF Locked(cur[t]) THEN holder' = 0 ELSE UNCHANGED holder
  /\ pc' = [pc EXCEPT ![t] = "idle"] /\ left' = [left EXCEPT ![t] = @ - 1]
  /\ UNCHANGED <<cur, head, seen, got>>
Next == \E t \in Threads : (\E m \in Members : Begin(t, m)) \/ Enter(t) \/ Leave(t) \/ End(t)
Spec == Init /\ [][Next]_vars

InsideSet == {t \in Threads : pc[t] \in {"inside", "leaving"}}
\* C13
AtMostOneInside == Cardinality({t \in Threads : pc[t] = "inside"}) <= 1
InsideHoldsMutex == \A t \in Threads : pc[t] \in {"locked", "inside", "leaving"} /\ Locked(cur[t]) => holder = t
\* C01 under concurrency: no node is handed out twice
NoNodeTwice == \A a, b \in Threads : a # b => got[a] \cap got[b] = {}
NotWitnessContention == ~(\E a, b \in Threads : a # b /\ pc[a] = "inside" /\ pc[b] = "idle" /\ left[b] > 0 /\ holder = a)
=============================================================================
