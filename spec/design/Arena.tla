-------------------------------- MODULE Arena --------------------------------
(***************************************************************************)
(* Design model of memory_arena<BlockAllocator, Cached> (memory_arena.hpp, *)
(* src/memory_arena.cpp): two intrusive block stacks `used' and `cached',  *)
(* a block source that may fail, and the operations allocate_block,        *)
(* deallocate_block, shrink_to_fit (which reverses the cache through a     *)
(* temporary stack), move construction, move assignment (tmp + swap) and   *)
(* destruction, for two arena objects.  Blocks are numbered in order of    *)
(* acquisition; `out' is the sequence of blocks the source has handed out  *)
(* and not got back.  The source is LIFO-only (static / virtual block      *)
(* allocators check this): returning anything but the most recently        *)
(* acquired outstanding block sets `bad'.                                  *)
(* Reverse = TRUE: shrink_to_fit as written; FALSE: a variant that pops    *)
(* the cache directly (regression: TLC must find the order violation).     *)
(***************************************************************************)
EXTENDS Naturals, Sequences, FiniteSets, TLC, Json
CONSTANTS Cached, MaxBlocks, MaxFails, Reverse, MaxHist
Objs == {1, 2}
Srcs == 1..3
VARIABLES used, cached, status,  \* status[o] in {"none", "live", "moved", "dead"}
          src,                   \* the block source object o currently holds
          out,                   \* per source: blocks handed out and not yet returned, in order
          nextb, nextsrc, fails, bad, retlog, hist
vars == <<used, cached, status, src, out, nextb, nextsrc, fails, bad, retlog, hist>>

Init == /\ used = [o \in Objs |-> <<>>] /\ cached = [o \in Objs |-> <<>>]
        /\ status = [o \in Objs |-> IF o = 1 THEN "live" ELSE "none"]
        /\ src = [o \in Objs |-> IF o = 1 THEN 1 ELSE 0] /\ nextsrc = 2
        /\ out = [s \in Srcs |-> <<>>] /\ nextb = 1 /\ fails = 0 /\ bad = FALSE /\ retlog = <<>> /\ hist = <<>>

Top(s) == s[Len(s)]
Pop(s) == SubSeq(s, 1, Len(s) - 1)

\* source sc gets block b back; a LIFO-only source checks that it is its most recent outstanding block
UpFree(o_out, sc, b) == [out |-> [o_out EXCEPT ![sc] = SelectSeq(@, LAMBDA y : y # b)],
                         bad |-> ~(o_out[sc] # <<>> /\ Top(o_out[sc]) = b)]

(* a fresh arena object with its own block source *)
Create(o) ==
  /\ status[o] \in {"none", "dead"} /\ nextsrc \in Srcs
  /\ status' = [status EXCEPT ![o] = "live"] /\ src' = [src EXCEPT ![o] = nextsrc] /\ nextsrc' = nextsrc + 1
  /\ UNCHANGED <<used, cached, out, nextb, fails, bad, retlog>>
  /\ hist' = Append(hist, [op |-> "create", o |-> o])

(* memory_arena::allocate_block *)
AllocateBlock(o) ==
  /\ status[o] = "live"
  /\ IF Cached /\ cached[o] # <<>>
     THEN /\ used' = [used EXCEPT ![o] = Append(@, Top(cached[o]))]      \* steal_top from the cache
          /\ cached' = [cached EXCEPT ![o] = Pop(@)]
          /\ UNCHANGED <<out, nextb, fails>>
     ELSE \/ /\ nextb <= MaxBlocks                                        \* the source delivers
             /\ used' = [used EXCEPT ![o] = Append(@, nextb)]
             /\ out' = [out EXCEPT ![src[o]] = Append(@, nextb)] /\ nextb' = nextb + 1
             /\ UNCHANGED <<cached, fails>>
          \/ /\ fails < MaxFails                                          \* the source throws: nothing changes
             /\ fails' = fails + 1 /\ UNCHANGED <<used, cached, out, nextb>>
  /\ UNCHANGED <<status, src, nextsrc, bad, retlog>>
  /\ hist' = Append(hist, [op |-> "alloc_block", o |-> o, res |-> IF Len(used'[o]) > Len(used[o]) THEN Top(used'[o]) ELSE 0])

(* memory_arena::deallocate_block *)
DeallocateBlock(o) ==
  /\ status[o] = "live" /\ used[o] # <<>>
  /\ IF Cached
     THEN /\ cached' = [cached EXCEPT ![o] = Append(@, Top(used[o]))]
          /\ used' = [used EXCEPT ![o] = Pop(@)]
          /\ UNCHANGED <<out, bad, retlog>>
     ELSE LET r == UpFree(out, src[o], Top(used[o])) IN
          /\ used' = [used EXCEPT ![o] = Pop(@)] /\ out' = r.out /\ bad' = (bad \/ r.bad)
          /\ retlog' = Append(retlog, Top(used[o])) /\ UNCHANGED cached
  /\ UNCHANGED <<status, src, nextsrc, nextb, fails>>
  /\ hist' = Append(hist, [op |-> "dealloc_block", o |-> o])

\* returns the blocks of sequence s to source sc (first element returned first)
RECURSIVE ReturnAll(_, _, _, _, _)
ReturnAll(s, sc, o_out, o_bad, log) ==
  IF s = <<>> THEN [out |-> o_out, bad |-> o_bad, log |-> log]
  ELSE LET r == UpFree(o_out, sc, Head(s)) IN ReturnAll(Tail(s), sc, r.out, o_bad \/ r.bad, Append(log, Head(s)))
Rev(s) == [i \in 1..Len(s) |-> s[Len(s) - i + 1]]

(* do_shrink_to_fit: cached_ is popped into to_dealloc, then to_dealloc is popped.  The cache as a
   sequence has its top at the end.  to_dealloc receives top(c) first, so its own top is
   bottom(c); popping it returns bottom(c) first and top(c) last: the sequence c itself.
   Reverse = FALSE: the cache is popped directly, top(c) first. *)
ShrinkOrder(c) == IF Reverse THEN c ELSE Rev(c)
ShrinkToFit(o) ==
  /\ status[o] = "live" /\ Cached
  /\ LET r == ReturnAll(ShrinkOrder(cached[o]), src[o], out, bad, retlog) IN
     /\ out' = r.out /\ bad' = r.bad /\ retlog' = r.log
  /\ cached' = [cached EXCEPT ![o] = <<>>]
  /\ UNCHANGED <<used, status, src, nextsrc, nextb, fails>>
  /\ hist' = Append(hist, [op |-> "shrink", o |-> o])

(* the destructor: shrink_to_fit, then pop used_ *)
DestroyEffect(o, o_out, o_bad, log) ==
  LET r1 == ReturnAll(IF Cached THEN ShrinkOrder(cached[o]) ELSE <<>>, src[o], o_out, o_bad, log)
  IN ReturnAll(Rev(used[o]), src[o], r1.out, r1.bad, r1.log)
Destroy(o) ==
  /\ status[o] \in {"live", "moved"}
  /\ LET r == DestroyEffect(o, out, bad, retlog) IN out' = r.out /\ bad' = r.bad /\ retlog' = r.log
  /\ used' = [used EXCEPT ![o] = <<>>] /\ cached' = [cached EXCEPT ![o] = <<>>]
  /\ status' = [status EXCEPT ![o] = "dead"]
  /\ UNCHANGED <<src, nextsrc, nextb, fails>>
  /\ hist' = Append(hist, [op |-> "destroy", o |-> o])

(* move constructor: the new object takes the source and both stacks, the old one is left empty *)
MoveCtor(o, n) ==
  /\ status[o] = "live" /\ status[n] \in {"none", "dead"}
  /\ used' = [used EXCEPT ![n] = used[o], ![o] = <<>>]
  /\ cached' = [cached EXCEPT ![n] = cached[o], ![o] = <<>>]
  /\ status' = [status EXCEPT ![n] = "live", ![o] = "moved"] /\ src' = [src EXCEPT ![n] = src[o]]
  /\ UNCHANGED <<out, nextsrc, nextb, fails, bad, retlog>>
  /\ hist' = Append(hist, [op |-> "move", o |-> o])

(* move assignment: a temporary is move-constructed from other and swapped with this; the
   temporary's destructor releases the old blocks of the target to the target's old source *)
MoveAssign(o, n) ==
  /\ status[o] = "live" /\ status[n] \in {"live", "moved"} /\ o # n
  /\ LET r == DestroyEffect(n, out, bad, retlog) IN out' = r.out /\ bad' = r.bad /\ retlog' = r.log
  /\ used' = [used EXCEPT ![n] = used[o], ![o] = <<>>]
  /\ cached' = [cached EXCEPT ![n] = cached[o], ![o] = <<>>]
  /\ status' = [status EXCEPT ![n] = "live", ![o] = "moved"] /\ src' = [src EXCEPT ![n] = src[o]]
  /\ UNCHANGED <<nextsrc, nextb, fails>>
  /\ hist' = Append(hist, [op |-> "assign", o |-> o])

Next == \E o \in Objs : \/ Create(o) \/ AllocateBlock(o) \/ DeallocateBlock(o) \/ ShrinkToFit(o) \/ Destroy(o)
                        \/ \E n \in Objs : MoveCtor(o, n) \/ MoveAssign(o, n)
Spec == Init /\ [][Next]_vars

Elems(s) == {s[i] : i \in 1..Len(s)}
Held == UNION {Elems(used[o]) \cup Elems(cached[o]) : o \in Objs}
\* C05
EachBlockHeldOnce == /\ \A o \in Objs : Len(used[o]) = Cardinality(Elems(used[o])) /\ Len(cached[o]) = Cardinality(Elems(cached[o]))
                     /\ \A o \in Objs : Elems(used[o]) \cap Elems(cached[o]) = {}
                     /\ (Elems(used[1]) \cup Elems(cached[1])) \cap (Elems(used[2]) \cup Elems(cached[2])) = {}
HeldIsOutstanding == Held = UNION {Elems(out[sc]) : sc \in Srcs}                   \* nothing leaked, nothing returned twice
ReturnedOnce == Len(retlog) = Cardinality(Elems(retlog))
ReverseOrder == ~bad
\* when no object is alive with blocks, everything is back
AllReturnedWhenDead == (\A o \in Objs : status[o] \in {"dead", "none"}) => \A sc \in Srcs : out[sc] = <<>>
MovedFromHoldsNothing == \A o \in Objs : status[o] = "moved" => used[o] = <<>> /\ cached[o] = <<>>
\* the single-object view: used blocks ascend from bottom to top, cached blocks descend (so that
\* take_from_cache brings them back in the original order)
StacksOrdered == \A o \in Objs :
    /\ \A i, j \in 1..Len(used[o]) : i < j => used[o][i] < used[o][j]
    /\ \A i, j \in 1..Len(cached[o]) : i < j => cached[o][i] > cached[o][j]
    /\ (used[o] # <<>> /\ cached[o] # <<>>) => Top(used[o]) < Top(cached[o])

NotWitnessShrinkTwoCached == ~(\E i \in 1..Len(hist) : hist[i].op = "shrink") \/ Len(retlog) < 2
NotWitnessFailThenGrow == ~(fails > 0 /\ nextb > 2)
View == <<used, cached, status, src, out, nextb, nextsrc, fails, bad>>
Emit == PrintT(<<"BEHAVIOUR", ToJson(hist')>>)
\* behaviour generation for one arena object (allocate_block incl. a refusing source, deallocate_block, shrink_to_fit):
\* the history records the block every allocate_block returns; the real memory_arena is driven along it
GenNext == AllocateBlock(1) \/ DeallocateBlock(1) \/ ShrinkToFit(1)
GenSpec == Init /\ [][GenNext]_vars
HistBound == Len(hist) < MaxHist
=============================================================================
