--------------------------- MODULE FreeListOrdered ---------------------------
(***************************************************************************)
(* Design model of detail::ordered_free_memory_list (src/detail/           *)
(* free_list.cpp): an address-ordered, xor-linked list of free nodes with  *)
(* two proxy nodes that live INSIDE the list object and a cached insert    *)
(* position (last_dealloc_, last_dealloc_prev_).                           *)
(*                                                                         *)
(* Written at the level at which the code compares and dereferences:       *)
(* `mem' maps an address to the word stored there (prev xor next); the     *)
(* proxies have ordinary addresses BA < EA that may lie below or above the *)
(* node slots (the code compares node addresses with proxy addresses);     *)
(* reading through NULL or through an address that is not on the list is   *)
(* an explicit crash outcome.  One action per public member function:      *)
(* allocate(), allocate(n bytes), deallocate(ptr), deallocate(ptr, n).     *)
(*                                                                         *)
(* Node size is one address unit.  Array requests are expressed in half    *)
(* units (`h' halves) so that requests that are not a multiple of the node *)
(* size exist: allocate takes ceil(h/2) nodes; deallocate gives back       *)
(* ceil(h/2) (CeilFix = TRUE, the repaired code) or floor(h/2).            *)
(*                                                                         *)
(* ProxyFix = TRUE models find_pos() as repaired (proxies are before/after *)
(* every node regardless of their address), FALSE as originally written    *)
(* (proxy addresses compared): the regression configurations show that TLC *)
(* finds both defects in the defective transcriptions.                     *)
(***************************************************************************)
EXTENDS Naturals, Integers, Sequences, FiniteSets, TLC, Bitwise, Json

CONSTANTS Slots,     \* set of node addresses (one block = consecutive addresses; several blocks = gaps)
          BA, EA,    \* addresses of the begin / end proxy node
          MaxHalves, \* largest array request in half nodes
          ProxyFix, CeilFix,
          MaxHist    \* bound on the length of emitted behaviours
NULL == 0

VARIABLES mem,     \* address -> stored word (prev xor next); domain = proxies + free nodes
          ld, ldp, \* last_dealloc_, last_dealloc_prev_
          cap,     \* capacity_
          live,    \* allocations handed out: [first, n (nodes), h (requested halves)]
          crash,   \* a read through NULL / off-list address happened
          hist     \* commands executed so far (for behaviour emission; hidden by VIEW)
vars == <<mem, ld, ldp, cap, live, crash, hist>>

X(a, b) == a ^^ b
CeilHalf(h) == (h + 1) \div 2

(* free_list_utils.hpp *)
Stored(m, a) == IF a \in DOMAIN m THEN m[a] ELSE -1
GetOther(m, a, p) == IF Stored(m, a) = -1 \/ p = -1 THEN -1 ELSE X(m[a], p)
SetN(m, a, p, n) == (a :> X(p, n)) @@ m
Change(m, a, old, new) ==
  IF a \in DOMAIN m /\ old >= 0 /\ new >= 0 THEN [m EXCEPT ![a] = X(X(m[a], old), new)] ELSE m
Remove(m, S) == [b \in DOMAIN m \ S |-> m[b]]

(* find_pos_interval: search from both ends at once *)
RECURSIVE FPI(_, _, _, _, _, _, _)
FPI(m, memory, cf, pf, cb, pb, fuel) ==
  IF fuel = 0 THEN <<-1, -1>>
  ELSE IF cf # NULL /\ cf # -1 /\ cf > memory THEN <<pf, cf>>
  ELSE IF cb # -1 /\ cb # NULL /\ cb < memory THEN <<cb, pb>>
  ELSE IF cb = NULL /\ memory > NULL THEN <<cb, pb>>       \* less(nullptr, memory): garbage position
  ELSE IF cf = NULL \/ cf = -1 \/ cb = -1 THEN <<-1, -1>>   \* xor_list_iter_next reads through NULL
  ELSE LET nf == GetOther(m, cf, pf)
           nb == GetOther(m, cb, pb)
       IN IF ~(cf < cb) THEN <<-1, -1>>                     \* ran outside of the list
          ELSE FPI(m, memory, nf, cf, nb, cb, fuel - 1)

(* find_pos *)
FindPos(m, memory) ==
  LET first == GetOther(m, BA, NULL)
      last  == GetOther(m, EA, NULL)
      afterPrev  == IF ProxyFix THEN (ldp = BA \/ ldp < memory) ELSE ldp < memory
      beforeNext == IF ProxyFix THEN (ld = EA \/ memory < ld) ELSE memory < ld
  IN IF first > memory THEN <<BA, first>>
     ELSE IF last < memory THEN <<last, EA>>
     ELSE IF afterPrev /\ beforeNext THEN <<ldp, ld>>
     ELSE IF beforeNext THEN FPI(m, memory, first, BA, ldp, ld, 2 * Cardinality(Slots) + 4)
     ELSE IF (IF ProxyFix THEN ld # EA /\ memory > ld ELSE memory > ld)
          THEN FPI(m, memory, ld, ldp, last, EA, 2 * Cardinality(Slots) + 4)
     ELSE <<-1, -1>>

Lo == CHOOSE a \in Slots : \A b \in Slots : a <= b
Hi == CHOOSE a \in Slots : \A b \in Slots : a >= b
PrevSlot(a) == IF a = Lo THEN BA ELSE CHOOSE p \in Slots : p < a /\ \A q \in Slots : q < a => q <= p
NextSlot(a) == IF a = Hi THEN EA ELSE CHOOSE n \in Slots : n > a /\ \A q \in Slots : q > a => q >= n

Init ==
  /\ mem = [a \in Slots \cup {BA, EA} |->
              IF a = BA THEN X(NULL, Lo) ELSE IF a = EA THEN X(Hi, NULL) ELSE X(PrevSlot(a), NextSlot(a))]
  \* after insert() of the first block: last_dealloc_ = first node, last_dealloc_prev_ = begin proxy
  /\ ld = Lo /\ ldp = BA /\ cap = Cardinality(Slots) /\ live = {} /\ crash = FALSE /\ hist = <<>>

Rank(a) == Cardinality({b \in live : b.first < a.first})

(* allocate() *)
AllocNode ==
  /\ ~crash /\ cap > 0
  /\ LET prev == BA
         node == GetOther(mem, prev, NULL)
         next == GetOther(mem, node, prev)
         m1 == Change(SetN(Remove(mem, {node}), prev, NULL, next), next, node, prev)
     IN /\ mem' = m1 /\ cap' = cap - 1 /\ live' = live \cup {[first |-> node, n |-> 1, h |-> 2]}
        /\ IF node = ld THEN ld' = next /\ UNCHANGED ldp
           ELSE IF node = ldp THEN ldp' = prev /\ UNCHANGED ld
           ELSE UNCHANGED <<ld, ldp>>
        /\ UNCHANGED crash
  /\ hist' = Append(hist, [op |-> "an", k |-> 0, res |-> GetOther(mem, BA, NULL)])

(* xor_list_search_array *)
RECURSIVE Search(_, _, _, _, _, _, _)
Search(m, prev, first, last, next, sofar, k) ==
  IF next = EA THEN <<-1, -1, -1, -1>>
  ELSE IF last + 1 # next THEN Search(m, last, next, next, GetOther(m, next, last), 1, k)
  ELSE LET nn == GetOther(m, next, last)
       IN IF sofar + 1 >= k THEN <<prev, first, next, nn>> ELSE Search(m, prev, first, next, nn, sofar + 1, k)

(* allocate(n bytes) with n > node_size *)
AllocArray(h) ==
  /\ ~crash /\ cap > 0 /\ h > 2
  /\ LET k == CeilHalf(h)
         f == GetOther(mem, BA, NULL)
         r == Search(mem, BA, f, f, GetOther(mem, f, BA), 1, k)
     IN /\ r[1] # -1
        /\ LET iprev == r[1]
               ifirst == r[2]
               ilast == r[3]
               inext == r[4]
               m1 == Change(Change(mem, iprev, ifirst, inext), inext, ilast, iprev)
               m2 == Remove(m1, {ifirst + j : j \in 0..(k - 1)})
           IN /\ mem' = m2 /\ cap' = cap - k /\ live' = live \cup {[first |-> ifirst, n |-> k, h |-> h]}
              /\ IF ifirst <= ld /\ ld <= ilast THEN ld' = inext /\ ldp' = iprev
                 ELSE IF ldp = ilast THEN ldp' = iprev /\ UNCHANGED ld
                 ELSE UNCHANGED <<ld, ldp>>
              /\ UNCHANGED crash
  /\ hist' = Append(hist, [op |-> "aa", k |-> h, res |-> Search(mem, BA, GetOther(mem, BA, NULL), GetOther(mem, BA, NULL), GetOther(mem, GetOther(mem, BA, NULL), BA), 1, CeilHalf(h))[2]])

(* deallocate(ptr) and deallocate(ptr, n): xor_list_insert / xor_link_block at find_pos *)
Dealloc(a) ==
  /\ ~crash /\ a \in live
  /\ LET back == IF a.n = 1 \/ CeilFix THEN a.n ELSE a.h \div 2
         p == FindPos(mem, a.first)
     IN IF p[1] = -1 \/ p[1] \notin DOMAIN mem \/ p[2] \notin DOMAIN mem
        THEN crash' = TRUE /\ UNCHANGED <<mem, ld, ldp, cap, live>>
        ELSE LET RECURSIVE Link(_, _, _)
                 Link(m, i, lastcur) ==
                   IF i = back - 1 THEN SetN(m, a.first + i, lastcur, p[2])
                   ELSE Link(SetN(m, a.first + i, lastcur, a.first + i + 1), i + 1, a.first + i)
                 m1 == Change(mem, p[1], p[2], a.first)
                 m2 == Link(m1, 0, p[1])
                 m3 == Change(m2, p[2], p[1], a.first + back - 1)
             IN /\ mem' = m3 /\ cap' = cap + back /\ live' = live \ {a}
                /\ ld' = a.first /\ ldp' = p[1] /\ UNCHANGED crash
  /\ hist' = Append(hist, [op |-> "da", k |-> Rank(a), res |-> -1])

Next == AllocNode \/ (\E h \in 3..MaxHalves : AllocArray(h)) \/ (\E a \in live : Dealloc(a))
Spec == Init /\ [][Next]_vars

-----------------------------------------------------------------------------
(* properties: the clauses of C01 / C04 that this mechanism is responsible for *)
NoCrash == ~crash

RECURSIVE Walk(_, _, _, _)
Walk(m, cur, prev, fuel) ==
  IF cur = EA \/ fuel = 0 \/ cur \notin DOMAIN m THEN <<>>
  ELSE <<cur>> \o Walk(m, GetOther(m, cur, prev), cur, fuel - 1)
FreeNodes == Walk(mem, GetOther(mem, BA, NULL), BA, 2 * Cardinality(Slots) + 4)
LiveNodes == UNION {{a.first + j : j \in 0..(a.n - 1)} : a \in live}

\* the list is sorted, holds exactly capacity_ nodes, and these are exactly the stored free nodes
ListWellFormed == crash \/ LET w == FreeNodes IN
   /\ Len(w) = cap
   /\ \A i, j \in 1..Len(w) : i < j => w[i] < w[j]
   /\ {w[i] : i \in 1..Len(w)} = DOMAIN mem \ {BA, EA}
\* C01: no node is both free and handed out; live allocations are pairwise disjoint
FreeAndLiveDisjoint == crash \/ LET w == FreeNodes IN {w[i] : i \in 1..Len(w)} \cap LiveNodes = {}
LiveDisjoint == \A a, b \in live : a # b => {a.first + j : j \in 0..(a.n - 1)} \cap {b.first + j : j \in 0..(b.n - 1)} = {}
\* C04: every node is either free or part of a live allocation (nothing is lost)
NoNodeLost == crash \/ LET w == FreeNodes IN {w[i] : i \in 1..Len(w)} \cup LiveNodes = Slots
\* the cached position is a pair of neighbours of the list
FullList == <<BA>> \o FreeNodes \o <<EA>>
CacheAdjacent == crash \/ \E i \in 1..(Len(FullList) - 1) : FullList[i] = ldp /\ FullList[i + 1] = ld

(* witnesses: situations the constants must be large enough to reach (checked as INVARIANT, must be violated) *)
NotWitnessCacheAtEnd == ~(ld = EA /\ Cardinality(live) >= 2 /\ cap >= 2)
NotWitnessArrayFromMiddle == ~(\E a \in live : a.n >= 2 /\ a.first # Lo)
NotWitnessOddArrayFreed == ~(\E i \in 1..Len(hist) : hist[i].op = "aa" /\ hist[i].k % 2 = 1) \/ live # {} \/ Len(hist) < 2

(* behaviour emission: one shortest command sequence per transition of the state graph *)
View == <<mem, ld, ldp, cap, live, crash>>
Emit == PrintT(<<"BEHAVIOUR", ToJson(hist')>>)
HistBound == Len(hist) < MaxHist
=============================================================================
