---------------------------- MODULE MCVirtualGen ----------------------------
EXTENDS VirtualBlocks, TLC, Json
\* ---- behaviour generation: the operations and the page ranges the model says the operating system sees; the real
\* virtual_block_allocator (under an uncached memory_arena) is driven along them and its recorded mmap / mprotect /
\* munmap calls are compared with the prediction (header key vmexpect)
VARIABLE hist
GenInit == Init /\ hist = <<>>
GenNext == \/ (Alloc /\ hist' = Append(hist, [op |-> "ab", blk |-> cur]))
           \/ (AllocFail /\ hist' = Append(hist, [op |-> "abf", blk |-> cur]))
           \/ (Dealloc /\ hist' = Append(hist, [op |-> "db", blk |-> IF MoveBeforeDecommit THEN cur - 1 ELSE cur]))
GenSpec == GenInit /\ [][GenNext]_<<vars, hist>>
GenView == vars
HistBound == Len(hist) < 8
Emit == PrintT(<<"BEHAVIOUR", ToJson(hist')>>)
=============================================================================
