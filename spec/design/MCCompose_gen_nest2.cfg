SPECIFICATION GenSpec
CONSTANTS
 Tree = 3
 Cap <- CapSmall
 HasArray <- ArrAll
 FbHasTryAllocArray = TRUE
 SegByTotal = TRUE
 MaxLive = 3
INVARIANT ReleasedAsAllocated
INVARIANT UsedWithinCapacity
CHECK_DEADLOCK FALSE
CONSTRAINT HistBound5
ACTION_CONSTRAINT Emit
