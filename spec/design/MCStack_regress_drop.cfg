SPECIFICATION Spec
CONSTANTS
 BSize <- BS3
 Fence = 0
 Aligns = {1}
 Sizes = {3,7}
 DropFix = FALSE
 MaxLive = 3
 MaxMarks = 2
 MaxHist = 99
INVARIANT UnwindRestores
VIEW View
CHECK_DEADLOCK FALSE
