SPECIFICATION Spec
CONSTANTS
  MaxF = 3
  MaxS = 3
  MaxWrites = 2
  Defect = "none"
INVARIANTS
  NotWitnessBothSides
CHECK_DEADLOCK FALSE
