--------------------------- MODULE VirtualBlocks ---------------------------
(***************************************************************************)
(* Design model of virtual_block_allocator (src/virtual_memory.cpp): a     *)
(* reserved address range of NBlocks blocks, a cursor `cur' directly       *)
(* behind the last block handed out, blocks committed when they are handed *)
(* out and decommitted when they come back (the arena returns them in      *)
(* reverse order), the whole range released by the destructor.             *)
(*   Alloc      allocate_block(): commit succeeded                         *)
(*   AllocFail  allocate_block(): the operating system refused the commit  *)
(*   Dealloc    deallocate_block() of the youngest block                   *)
(*   Destroy    destructor after every block came back                     *)
(* The constants select the code as written (TRUE) or two plausible        *)
(* reorderings (FALSE): CursorAfterCheck (the cursor moves only after the  *)
(* result of the commit was checked) and MoveBeforeDecommit (the cursor    *)
(* moves back before the range at the cursor is decommitted).  The trace   *)
(* contract SeqTrace judges the same rules on the recorded mmap / mprotect *)
(* / munmap calls of the real code (events `vm').                          *)
(***************************************************************************)
EXTENDS Integers, Sequences, FiniteSets
CONSTANTS NBlocks, MaxFails, CursorAfterCheck, MoveBeforeDecommit
VARIABLES cur, com, out, reserved, relFrom, fails, stray
vars == <<cur, com, out, reserved, relFrom, fails, stray>>
Blocks == 0..(NBlocks - 1)
Init == cur = 0 /\ com = {} /\ out = <<>> /\ reserved = TRUE /\ relFrom = -1 /\ fails = 0 /\ stray = FALSE
Alloc == /\ reserved /\ cur < NBlocks
         /\ com' = com \cup {cur} /\ out' = Append(out, cur) /\ cur' = cur + 1
         /\ stray' = (stray \/ cur \in com)
         /\ UNCHANGED <<reserved, relFrom, fails>>
AllocFail == /\ reserved /\ cur < NBlocks /\ fails < MaxFails
             /\ fails' = fails + 1
             /\ cur' = IF CursorAfterCheck THEN cur ELSE cur + 1
             /\ UNCHANGED <<com, out, reserved, relFrom, stray>>
Dealloc == /\ reserved /\ out # <<>> /\ cur > 0
           /\ LET b == out[Len(out)]
                  d == IF MoveBeforeDecommit THEN cur - 1 ELSE cur       \* the block that gets decommitted
              IN /\ com' = com \ {d}
                 /\ stray' = (stray \/ d # b \/ d \notin com)           \* a range that is not the returned block
           /\ cur' = cur - 1 /\ out' = SubSeq(out, 1, Len(out) - 1)
           /\ UNCHANGED <<reserved, relFrom, fails>>
Destroy == /\ reserved /\ out = <<>>
           /\ reserved' = FALSE /\ relFrom' = cur
           /\ UNCHANGED <<cur, com, out, fails, stray>>
Next == Alloc \/ AllocFail \/ Dealloc \/ Destroy
Spec == Init /\ [][Next]_vars
OutSet == {out[i] : i \in 1..Len(out)}
\* exactly the blocks that are out are committed, each once
CommittedAreOut == reserved => (com = OutSet /\ Cardinality(OutSet) = Len(out))
\* the cursor is directly behind the youngest block
CursorBehindYoungest == reserved => cur = Len(out)
\* commit and decommit only ever touch the block concerned
NoStrayRange == ~stray
\* the destructor releases the whole reservation, nothing stays committed
ReleasedWhole == ~reserved => (relFrom = 0 /\ com = {})
\* a refused commit does not cost a block: afterwards all NBlocks blocks can still be handed out
NotWitnessFull == ~(Len(out) = NBlocks /\ fails = MaxFails)
=============================================================================
