SPECIFICATION Spec
CONSTANTS
 Threads = {1,2}
 Main = 1
 MaxNodes = 2
 MaxOps = 2
 FixUninit = TRUE
 FixDetector = TRUE
 FixNifty = FALSE
 AtomicAdopt = TRUE
 RefreshExpected = TRUE
 ReleaseLast = TRUE
INVARIANT FreedAtExit
CHECK_DEADLOCK FALSE
