---------------------------- MODULE FreeListSmall ----------------------------
(***************************************************************************)
(* Design model of detail::small_free_memory_list (small_free_list.cpp):   *)
(* a circular doubly linked list of chunks around a proxy chunk (`base_')  *)
(* inside the list object; each chunk has up to K nodes (255 in the code)  *)
(* and threads its free nodes through an index byte stored in each free    *)
(* node: first_free, then *node = next index, no_nodes = end marker;       *)
(* per-chunk `capacity'; list-wide capacity_; cursors alloc_chunk_ and     *)
(* dealloc_chunk_.  Actions: allocate() (find_chunk_impl(1): cursor,       *)
(* other cursor, then a two-ended walk from alloc_chunk_), deallocate()    *)
(* (chunk found by address), move construction.                            *)
(* MoveFix = TRUE: the move constructor transfers the chunk list whenever  *)
(* there are chunks (repaired); FALSE: only if capacity_ > 0 (original).   *)
(* Chunk 0 is the proxy.  Chunks 1..C are in address order.                *)
(***************************************************************************)
EXTENDS Naturals, Integers, Sequences, FiniteSets, TLC, Json
CONSTANTS C, K, MoveFix, MaxHist
Chunks == 1..C
Ring == 0..C                      \* the proxy plus the chunks, in list order (ring)
Nxt(c) == (c + 1) % (C + 1)
Prv(c) == (c + C) % (C + 1)

VARIABLES ff,       \* ff[c]: first_free index of chunk c (K = none)
          link,     \* link[c][i]: index stored in free node i of chunk c
          ccap,     \* ccap[c]: capacity of chunk c (proxy: 0)
          cap,      \* capacity_
          ac, dc,   \* alloc_chunk_, dealloc_chunk_ (0 = proxy)
          haveChunks, \* FALSE after a move that dropped the chunk list
          live, hang, hist
vars == <<ff, link, ccap, cap, ac, dc, haveChunks, live, hang, hist>>

Init == /\ ff = [c \in Chunks |-> 0]
        /\ link = [c \in Chunks |-> [i \in 0..(K - 1) |-> i + 1]]     \* chunk ctor: *p = ++i
        /\ ccap = [c \in Ring |-> IF c = 0 THEN 0 ELSE K]
        /\ cap = C * K /\ ac = 0 /\ dc = 0 /\ haveChunks = TRUE /\ live = {} /\ hang = FALSE /\ hist = <<>>

(* find_chunk_impl(n = 1) *)
RECURSIVE Walk2(_, _, _)
Walk2(f, b, fuel) ==
  IF fuel = 0 THEN -1
  ELSE IF ccap[f] >= 1 THEN f
  ELSE IF ccap[b] >= 1 THEN b
  ELSE Walk2(Nxt(f), Prv(b), fuel - 1)
FindChunk == IF ccap[ac] >= 1 THEN ac
             ELSE IF ccap[dc] >= 1 THEN dc
             ELSE Walk2(Nxt(ac), Prv(ac), C + 2)

Allocate ==
  /\ ~hang /\ cap > 0 /\ haveChunks
  /\ LET c == FindChunk IN
     /\ c \in Chunks
     /\ LET i == ff[c] IN
        /\ i < K
        /\ ff' = [ff EXCEPT ![c] = link[c][i]]
        /\ ccap' = [ccap EXCEPT ![c] = @ - 1] /\ cap' = cap - 1 /\ ac' = c
        /\ live' = live \cup {<<c, i>>}
  /\ UNCHANGED <<link, dc, haveChunks, hang>>
  /\ hist' = Append(hist, [op |-> "an", k |-> 0])

Rank(n) == Cardinality({m \in live : m[1] < n[1] \/ (m[1] = n[1] /\ m[2] < n[2])})
Deallocate(n) ==
  /\ ~hang /\ n \in live
  /\ IF ~haveChunks
     THEN hang' = TRUE /\ UNCHANGED <<ff, link, ccap, cap, dc, live>>   \* the chunk search never finds it
     ELSE LET c == n[1] i == n[2] IN
          /\ link' = [link EXCEPT ![c][i] = ff[c]]
          /\ ff' = [ff EXCEPT ![c] = i]
          /\ ccap' = [ccap EXCEPT ![c] = @ + 1] /\ cap' = cap + 1 /\ dc' = c
          /\ live' = live \ {n} /\ UNCHANGED hang
  /\ UNCHANGED <<ac, haveChunks>>
  /\ hist' = Append(hist, [op |-> "da", k |-> Rank(n)])

(* move constructor: cursors are reset; the chunk list is taken over if ... *)
Move ==
  /\ ~hang /\ haveChunks
  /\ haveChunks' = (IF MoveFix THEN TRUE ELSE cap > 0)
  /\ ac' = 0 /\ dc' = 0
  /\ UNCHANGED <<ff, link, ccap, cap, live, hang>>
  /\ hist' = Append(hist, [op |-> "mv", k |-> 0])

Next == Allocate \/ (\E n \in live : Deallocate(n)) \/ Move
Spec == Init /\ [][Next]_vars

RECURSIVE FreeOf(_, _, _)
FreeOf(c, i, fuel) == IF i = K \/ fuel = 0 THEN <<>> ELSE <<i>> \o FreeOf(c, link[c][i], fuel - 1)
FreeSeq(c) == FreeOf(c, ff[c], K + 1)
FreeSet(c) == {FreeSeq(c)[j] : j \in 1..Len(FreeSeq(c))}
NoHang == ~hang
ChunkListsWellFormed == \A c \in Chunks : Len(FreeSeq(c)) = ccap[c] /\ Cardinality(FreeSet(c)) = ccap[c]
CapacityIsSum == cap = ccap[1] + (IF C >= 2 THEN ccap[2] ELSE 0) + (IF C >= 3 THEN ccap[3] ELSE 0)
FreeAndLiveDisjoint == \A c \in Chunks : \A i \in FreeSet(c) : <<c, i>> \notin live
NoNodeLost == \A c \in Chunks : \A i \in 0..(K - 1) : i \in FreeSet(c) \/ <<c, i>> \in live
NotWitnessAllAllocated == cap > 0
NotWitnessSecondChunk == ~(\E n \in live : n[1] = C) \/ C = 1
View == <<ff, link, ccap, cap, ac, dc, haveChunks, live, hang>>
Emit == PrintT(<<"BEHAVIOUR", ToJson(hist')>>)
HistBound == Len(hist) < MaxHist
=============================================================================
