SPECIFICATION Spec
CONSTANTS
 Threads = {1,2,3}
 Ops = 2
 Atomic = FALSE
 MoveZeroes = TRUE
INVARIANT NotWitnessInterleaved
CHECK_DEADLOCK FALSE
