SPECIFICATION Spec
CONSTANTS
 N = 3
 Size = 11
 Sizes = {1,2,3}
 CtorFix = FALSE
 MaxLive = 5
 MaxHist = 99
INVARIANT NoCrash
INVARIANT RegionsDisjoint
INVARIANT SwitchRestoresCapacity
VIEW View
CHECK_DEADLOCK FALSE
