\* witness: the last piece was released and its bytes handed out again (must be VIOLATED)
SPECIFICATION Spec
CONSTANTS S = 4
          MaxAdd = 8
          Bases = {8}
          Aligns = {1, 2}
          MaxSize = 3
          MaxAllocs = 4
          NMembers = 0
          CloneBases = "same"
          EmptyRange = FALSE
          Bug = "none"
INVARIANT NotWitnessReuse
CHECK_DEADLOCK FALSE
