\* (thorough tier) raw requests through joint_allocator with releases in any order (4 requests, block <= 12 units): all clauses of C11 hold
SPECIFICATION Spec
CONSTANTS S = 4
          MaxAdd = 8
          Bases = {8}
          Aligns = {1, 2}
          MaxSize = 3
          MaxAllocs = 4
          NMembers = 0
          CloneBases = "same"
          EmptyRange = FALSE
          Bug = "none"
INVARIANTS PieceAfterObjectInsideBlock PiecesDisjoint PieceAligned OverflowThrowsFixedMemory ObjectDestroyedOnce BlockReleasedOnceSameSizeAlign CloneIndependent CloneSucceeds
CHECK_DEADLOCK FALSE
