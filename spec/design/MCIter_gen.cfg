SPECIFICATION Spec
CONSTANTS
 N = 3
 Size = 10
 Sizes = {1,3}
 CtorFix = TRUE
 MaxLive = 4
 MaxHist = 8
VIEW View
CHECK_DEADLOCK FALSE
CONSTRAINT HistBound
ACTION_CONSTRAINT Emit
