SPECIFICATION Spec
CONSTANTS
 Slots = {10,11,12,13,14,15,16}
 BA = 101
 EA = 102
 MaxHalves = 5
 ProxyFix = TRUE
 CeilFix = FALSE
 MaxHist = 99
INVARIANT NoNodeLost
VIEW View
CHECK_DEADLOCK FALSE
