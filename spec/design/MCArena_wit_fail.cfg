SPECIFICATION Spec
CONSTANTS
 Cached = TRUE
 MaxBlocks = 4
 MaxFails = 1
 Reverse = TRUE
 MaxHist = 99
INVARIANT NotWitnessFailThenGrow
VIEW View
CHECK_DEADLOCK FALSE
