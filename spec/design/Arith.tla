------------------------------- MODULE Arith -------------------------------
(***************************************************************************)
(* Design model for property C19 of foonathan/memory: the arithmetic       *)
(* building blocks agree with their mathematical definitions.              *)
(*                                                                         *)
(* Part 1 states the DEFINITIONS the property talks about, descriptively   *)
(* (least multiple >= a, least non-negative offset that aligns, largest    *)
(* power of two dividing n capped at max_alignment, floor / ceiling of     *)
(* log2, bucket laws).                                                     *)
(* Part 2 TRANSCRIBES the bit tricks of the code for a machine whose       *)
(* unsigned words have W bits (the code: std::size_t / std::uintptr_t /    *)
(* std::uint64_t, W = 64): every +, - is taken modulo 2^W, & and ~ are     *)
(* bitwise on W bits.  Sources: detail/align.hpp, src/detail/align.cpp,    *)
(* detail/ilog2.hpp, src/detail/free_list_array.cpp,                       *)
(* detail/free_list_array.hpp, the free list constructors.                 *)
(* Part 3: TLC compares transcription and definition on the COMPLETE       *)
(* domain of a small machine: with W = 13 every word 0..8191 (this         *)
(* contains 0..4096) and every valid alignment 1..4096, including the      *)
(* inputs on which the sum inside round_up wraps around.  (The 64-bit      *)
(* boundary classes are covered on the real code by the harness rows that  *)
(* TablesTrace.tla checks with limb arithmetic.)                           *)
(*                                                                         *)
(* The model has a small state graph only to let TLC spread the work over  *)
(* its workers: root -> (alignment) -> (alignment, residue class c1) ->    *)
(* (alignment, c1, c2); the invariants quantify over the words of one      *)
(* residue class.                                                          *)
(***************************************************************************)
EXTENDS Naturals, Integers, FiniteSets, TLC

CONSTANTS W,          \* word width in bits
          MaxAl,      \* detail::max_alignment (alignof(std::max_align_t)), a power of two
          MinElPtr,   \* free_memory_list::min_element_size = sizeof(char*)
          Clamp,      \* TRUE: free_list_array::get clamps the index to min_size_index (as in the code)
          Parts       \* which groups of checks this configuration evaluates

ASSUME W \in 4..16 /\ MaxAl \in {2^j : j \in 0..(W-1)} /\ Clamp \in BOOLEAN
ASSUME Parts \subseteq {"align", "ilog", "iloop", "bucket"}

M == 2^W
Word == 0..(M - 1)
Exps == 0..(W - 1)
Aligns == {2^j : j \in Exps}            \* all valid alignments of the W-bit machine
Max(a, b) == IF a > b THEN a ELSE b
Min(a, b) == IF a < b THEN a ELSE b

-----------------------------------------------------------------------------
(* Part 1: definitions *)

\* r is the least multiple of al that is >= a
IsLeastMultipleGE(r, a, al) ==
  /\ r >= a
  /\ r % al = 0
  /\ \A m \in a..(r - 1) : m % al # 0

\* o is the least non-negative adjustment that aligns a
IsLeastOffsetAligning(o, a, al) ==
  /\ o >= 0
  /\ (a + o) % al = 0
  /\ \A p \in 0..(o - 1) : (a + p) % al # 0

\* the largest power of two dividing n (n > 0), capped
Pow2Dividing(n) == {p \in Aligns : n % p = 0}
LargestPow2Dividing(n) == CHOOSE p \in Pow2Dividing(n) : \A q \in Pow2Dividing(n) : q <= p
LargestPow2DividingCapped(n, cap) == Min(LargestPow2Dividing(n), cap)

\* e = floor(log2 n), e = ceil(log2 n)   (n > 0)
IsFloorLog2(e, n) == 2^e <= n /\ n < 2^(e + 1)
IsCeilLog2(e, n) == n <= 2^e /\ (e = 0 \/ 2^(e - 1) < n)

-----------------------------------------------------------------------------
(* Part 2: transcription of the code on W-bit words *)

Add(x, y) == (x + y) % M
Sub(x, y) == (x + M - y) % M
Not(x) == M - 1 - x
RECURSIVE AndBits(_, _, _)
AndBits(x, y, k) == IF k = 0 THEN 0
                    ELSE (IF x % 2 = 1 /\ y % 2 = 1 THEN 1 ELSE 0) + 2 * AndBits(x \div 2, y \div 2, k - 1)
And(x, y) == AndBits(x, y, W)
Shl(x, k) == (x * 2^k) % M
Shr(x, k) == x \div 2^k

\* align.hpp: alignment && (alignment & (alignment - 1)) == 0u
IsValidAlignment(al) == al # 0 /\ And(al, Sub(al, 1)) = 0

\* align.hpp: (size + alignment - 1) & ~(alignment - 1)
RoundUp(size, al) == And(Sub(Add(size, al), 1), Not(Sub(al, 1)))

\* align.hpp: misaligned = address & (alignment - 1); misaligned != 0 ? alignment - misaligned : 0
AlignOffset(addr, al) == LET mis == And(addr, Sub(al, 1)) IN IF mis # 0 THEN Sub(al, mis) ELSE 0

\* align.cpp: (address & (alignment - 1)) == 0u
IsAligned(addr, al) == And(addr, Sub(al, 1)) = 0

\* align.cpp: l = size & ~(size - 1); l > max_alignment ? max_alignment : l
AlignmentFor(size) == LET l == And(size, Not(Sub(size, 1))) IN IF l > MaxAl THEN MaxAl ELSE l

\* ilog2.hpp: (x & (x - 1)) == 0
IsPowerOfTwo(x) == And(x, Sub(x, 1)) = 0

\* ilog2.hpp (GNU branch): sizeof(value) * CHAR_BIT - __builtin_clzll(value); clz is undefined for 0
RECURSIVE Clz(_)
Clz(x) == IF Shr(x, W - 1) = 1 THEN 0 ELSE 1 + Clz(Shl(x, 1))
Ilog2Base(x) == W - Clz(x)

\* ilog2.hpp (portable branch): binary search for the highest set bit; needs W to be a power of two
RECURSIVE ClzLoop(_, _, _)
ClzLoop(x, clz, c) ==
  IF c = 0 THEN clz - (IF x # 0 THEN 1 ELSE 0)
  ELSE LET tmp == Shr(x, c)
       IN IF tmp # 0 THEN ClzLoop(tmp, clz - c, c \div 2) ELSE ClzLoop(x, clz, c \div 2)
Ilog2BaseLoop(x) == W - ClzLoop(x, W, W \div 2)

Ilog2(x) == Ilog2Base(x) - 1
Ilog2Ceil(x) == Ilog2Base(x) - (IF IsPowerOfTwo(x) THEN 1 ELSE 0)

\* free_list_array.hpp / .cpp: access policies
IndexFromSize(pol, size) == IF pol = "log2" THEN Ilog2Ceil(size) ELSE size
SizeFromIndex(pol, index) == IF pol = "log2" THEN Shl(1, index) ELSE index

\* the free lists' constructors: node_size > min_element_size ? node_size : min_element_size
\* (small_free_memory_list keeps node_size; its min_element_size is 1)
Lists == {[kind |-> "intrusive", minel |-> MinElPtr], [kind |-> "small", minel |-> 1]}
ListNodeSize(L, nodeSize) == IF L.kind = "small" THEN nodeSize
                             ELSE IF nodeSize > L.minel THEN nodeSize ELSE L.minel

\* free_list_array: min_size_index = AP::index_from_size(FL::min_element_size)
MinSizeIndex(pol, L) == IndexFromSize(pol, L.minel)
\* constructor: no_elements_ = index_from_size(max_node_size) - min_size_index + 1,
\*              array_[i] = FreeList(size_from_index(i + min_size_index))
NoElements(pol, L, max) == IndexFromSize(pol, max) - MinSizeIndex(pol, L) + 1
ElementNodeSize(pol, L, i) == ListNodeSize(L, SizeFromIndex(pol, i + MinSizeIndex(pol, L)))
\* get(node_size): i = index_from_size(node_size); if (i < min_size_index) i = min_size_index;
\*                 return array_[i - min_size_index]
GetSlot(pol, L, size) ==
  LET i == IndexFromSize(pol, size)
      j == IF Clamp /\ i < MinSizeIndex(pol, L) THEN MinSizeIndex(pol, L) ELSE i
  IN j - MinSizeIndex(pol, L)

-----------------------------------------------------------------------------
(* Part 3: work distribution and the invariants *)

VARIABLES al,   \* -1: root; 0: the unary functions and the buckets; otherwise an alignment
          c1, c2
vars == <<al, c1, c2>>
Fan == 4
Init == al = -1 /\ c1 = -1 /\ c2 = -1
Next ==
  \/ al = -1 /\ al' \in Aligns \cup {0} /\ UNCHANGED <<c1, c2>>
  \/ al # -1 /\ c1 = -1 /\ c1' \in 0..(Fan - 1) /\ UNCHANGED <<al, c2>>
  \/ al # -1 /\ c1 # -1 /\ c2 = -1 /\ c2' \in 0..(Fan - 1) /\ UNCHANGED <<al, c1>>
Spec == Init /\ [][Next]_vars

Leaf == c2 # -1
\* the words this leaf is responsible for
Mine == {a \in Word : a % (Fan * Fan) = c1 * Fan + c2}
Do(p) == Leaf /\ p \in Parts

\* ---- C19 clauses -----------------------------------------------------------------------------
ValidAlignmentsArePowersOfTwo ==
  Do("align") /\ al = 0 => \A a \in Mine : IsValidAlignment(a) <=> a \in Aligns

\* on every input for which the least multiple is representable the code returns it
RoundUpIsLeastMultiple ==
  Do("align") /\ al > 0 =>
    \A a \in Mine : a <= M - al => IsLeastMultipleGE(RoundUp(a, al), a, al)

AlignOffsetIsLeast ==
  Do("align") /\ al > 0 => \A a \in Mine : IsLeastOffsetAligning(AlignOffset(a, al), a, al)

IsAlignedIffOffsetZero ==
  Do("align") /\ al > 0 => \A a \in Mine : IsAligned(a, al) <=> IsLeastOffsetAligning(0, a, al)

AlignmentForIsLargestPow2Capped ==
  Do("align") /\ al = 0 =>
    \A n \in Mine \ {0} : AlignmentFor(n) = LargestPow2DividingCapped(n, MaxAl)

Ilog2IsFloor == Do("ilog") /\ al = 0 => \A n \in Mine \ {0} : IsFloorLog2(Ilog2(n), n)
Ilog2CeilIsCeil == Do("ilog") /\ al = 0 => \A n \in Mine \ {0} : IsCeilLog2(Ilog2Ceil(n), n)
\* the portable branch computes the same as the builtin
Ilog2LoopSameAsClz == Do("iloop") /\ al = 0 => \A n \in Mine \ {0} : Ilog2BaseLoop(n) = Ilog2Base(n)

\* bucket laws, for every size a pool collection can be asked for (sizes up to 2^(W-1), the largest
\* power of two of the machine) and every free list kind and policy
BucketSizes == Mine \cap 1..(2^(W - 1))
Policies == {"log2", "identity"}
\* the slot lies inside the array for every collection whose maximum node size is >= the size:
\* index_from_size is monotonic, so the slot of `size` is at most the slot of `max`
BucketInsideArray ==
  Do("bucket") /\ al = 0 =>
    \A pol \in Policies, L \in Lists : \A s \in BucketSizes :
       /\ GetSlot(pol, L, s) >= 0
       /\ s < 2^(W - 1) => IndexFromSize(pol, s) <= IndexFromSize(pol, s + 1)
       /\ s >= L.minel => GetSlot(pol, L, s) < NoElements(pol, L, s)
BucketHoldsSize ==
  Do("bucket") /\ al = 0 =>
    \A pol \in Policies, L \in Lists : \A s \in BucketSizes :
       ElementNodeSize(pol, L, GetSlot(pol, L, s)) >= s
Log2BucketLessThanTwice ==
  Do("bucket") /\ al = 0 =>
    \A L \in Lists : \A s \in BucketSizes :
       s > L.minel => ElementNodeSize("log2", L, GetSlot("log2", L, s)) < 2 * s
IdentityBucketExact ==
  Do("bucket") /\ al = 0 =>
    \A L \in Lists : \A s \in BucketSizes :
       ElementNodeSize("identity", L, GetSlot("identity", L, s)) = Max(s, L.minel)

\* ---- witnesses (must be violated) -----------------------------------------------------------
\* outside the domain the sum inside round_up wraps: the result is smaller than the input
NotWitnessRoundUpWraps ==
  Do("align") /\ al > 0 => \A a \in Mine : RoundUp(a, al) >= a
\* the cap of alignment_for matters: some size is divisible by more than max_alignment
NotWitnessCapMatters ==
  Do("align") /\ al = 0 => \A n \in Mine \ {0} : LargestPow2Dividing(n) <= MaxAl
=============================================================================
