SPECIFICATION Spec
CONSTANTS
 Tree = 5
 Cap <- CapSeg
 HasArray <- ArrAll
 FbHasTryAllocArray = TRUE
 SegByTotal = TRUE
 MaxLive = 4
INVARIANT ReleasedAsAllocated
INVARIANT UsedWithinCapacity
INVARIANT RoutedByThreshold
VIEW View
CHECK_DEADLOCK FALSE
