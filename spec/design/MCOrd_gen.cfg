SPECIFICATION Spec
CONSTANTS
 Slots = {10,11,12,13,14,15}
 BA = 1
 EA = 2
 MaxHalves = 5
 ProxyFix = TRUE
 CeilFix = TRUE
 MaxHist = 9
VIEW View
CONSTRAINT HistBound
ACTION_CONSTRAINT Emit
CHECK_DEADLOCK FALSE
