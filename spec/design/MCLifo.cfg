SPECIFICATION Spec
CONSTANTS
 Slots = {10,11,12,13,14,15}
 MaxHalves = 5
 CeilFix = TRUE
 MaxHist = 99
INVARIANT ListWellFormed
INVARIANT FreeAndLiveDisjoint
INVARIANT LiveDisjoint
INVARIANT NoNodeLost
VIEW View
CHECK_DEADLOCK FALSE
