---- MODULE MCPoolCollection ----
EXTENDS PoolCollection
NS12 == <<1, 2>>
NS123 == <<1, 2, 3>>
NS24 == <<2, 4>>
====
