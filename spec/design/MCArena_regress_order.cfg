SPECIFICATION Spec
CONSTANTS
 Cached = TRUE
 MaxBlocks = 3
 MaxFails = 0
 Reverse = FALSE
 MaxHist = 99
INVARIANT ReverseOrder
VIEW View
CHECK_DEADLOCK FALSE
