SPECIFICATION Spec
CONSTANTS
 W = 13
 MaxAl = 16
 MinElPtr = 8
 Clamp = TRUE
 Parts = {"align"}
INVARIANT NotWitnessCapMatters
CHECK_DEADLOCK FALSE
