SPECIFICATION Spec
CONSTANTS
 Slots = {10,11,12,13,20,21,22,23}
 BA = 101
 EA = 102
 MaxHalves = 4
 ProxyFix = TRUE
 CeilFix = TRUE
 MaxHist = 99
INVARIANT NoCrash
INVARIANT ListWellFormed
INVARIANT FreeAndLiveDisjoint
INVARIANT LiveDisjoint
INVARIANT NoNodeLost
INVARIANT CacheAdjacent
VIEW View
CHECK_DEADLOCK FALSE
