--------------------------- MODULE TempStackList ---------------------------
(***************************************************************************)
(* Design model of the per-thread temporary stacks                         *)
(* (src/temporary_allocator.cpp, FOONATHAN_MEMORY_TEMPORARY_STACK_MODE 2): *)
(* a lock-free singly linked list of stack nodes (`first', `next'), a      *)
(* per-node flag in_use that is taken with compare-exchange, a             *)
(* thread-local pointer temp_stack, a thread-local exit detector that      *)
(* releases the stack when the thread ends, temporary_stack_initializer    *)
(* whose destructor releases the stack early, and the nifty counter that   *)
(* destroys all stacks when the program ends.                              *)
(* One action per shared-memory step of the code:                          *)
(*   Get        get_temporary_stack(): test temp_stack, first.load()       *)
(*   Find       one iteration of find_unused(): CAS on in_use              *)
(*   NewLoad    create_new(): node constructor reads first (next_ = ...)   *)
(*   PushCas    ... and publishes itself with compare-exchange on first,   *)
(*              retrying with the refreshed expected value on failure      *)
(*   InitDtor   ~temporary_stack_initializer(): clear()                    *)
(*   Exit       thread ends: exit detector clears                          *)
(*   ProgramExit  nifty counter reaches zero in the main thread            *)
(* The constants select the code as repaired (TRUE) or as originally       *)
(* written (FALSE): FixUninit (the initializer's destructor resets         *)
(* temp_stack), FixDetector (the exit detector exists in every thread that *)
(* acquired a stack, not only in threads that created one), FixNifty       *)
(* (stacks are destroyed at exit even if the main thread has none),        *)
(* AtomicAdopt (in_use is taken with one compare-exchange; FALSE = load    *)
(* then store, a plausible wrong refactoring), RefreshExpected (a failed    *)
(* push compare-exchange refreshes next_ with the head it found; FALSE =   *)
(* the link keeps the value read before the loop, the retry publishes a    *)
(* node whose next_ is stale), ReleaseLast (clear() empties the stack and   *)
(* THEN marks it free; FALSE = the flag is cleared first and the thread    *)
(* goes on working on the stack - shrink_to_fit() - while another thread   *)
(* can already take it: actions ShrinkDone / ExitDone end that work).      *)
(* The atomic steps are exactly the events                                 *)
(* the trace specification spec/contract/TempListTrace.tla validates       *)
(* against recorded executions of the real code.                           *)
(***************************************************************************)
EXTENDS Naturals, Sequences, FiniteSets, TLC
CONSTANTS Threads, Main, MaxNodes, MaxOps, FixUninit, FixDetector, FixNifty, AtomicAdopt, RefreshExpected, ReleaseLast
NULL == 0
Nodes == 1..MaxNodes
VARIABLES first, next, inuse, created, destroyed,    \* the global list
          ts, det, pc, cur, alive, ops, sawfree,     \* per thread
          nx, lnk                                    \* push loop: expected head, value that will be linked as next_
vars == <<first, next, inuse, created, destroyed, ts, det, pc, cur, alive, ops, sawfree, nx, lnk>>
Init == /\ first = NULL /\ next = [n \in Nodes |-> NULL] /\ inuse = [n \in Nodes |-> FALSE] /\ created = 0
        /\ destroyed = FALSE
        /\ ts = [t \in Threads |-> NULL] /\ det = [t \in Threads |-> FALSE]
        /\ pc = [t \in Threads |-> "idle"] /\ cur = [t \in Threads |-> NULL]
        /\ alive = [t \in Threads |-> TRUE] /\ ops = [t \in Threads |-> 0] /\ sawfree = [t \in Threads |-> FALSE]
        /\ nx = [t \in Threads |-> NULL] /\ lnk = [t \in Threads |-> NULL]

Get(t) == /\ alive[t] /\ pc[t] = "idle" /\ ops[t] < MaxOps /\ ~destroyed
          /\ ops' = [ops EXCEPT ![t] = @ + 1]
          /\ IF ts[t] # NULL THEN UNCHANGED <<pc, cur>>
             ELSE pc' = [pc EXCEPT ![t] = "find"] /\ cur' = [cur EXCEPT ![t] = first]        \* first.load()
          /\ UNCHANGED <<first, next, inuse, created, destroyed, ts, det, alive, sawfree, nx, lnk>>

Adopt(t, n) == /\ inuse' = [inuse EXCEPT ![n] = TRUE] /\ ts' = [ts EXCEPT ![t] = n]
               /\ det' = IF FixDetector THEN [det EXCEPT ![t] = TRUE] ELSE det
               /\ pc' = [pc EXCEPT ![t] = "idle"]

Find(t) == /\ pc[t] = "find"
           /\ IF cur[t] = NULL THEN pc' = [pc EXCEPT ![t] = "new"] /\ UNCHANGED <<inuse, ts, cur, det, sawfree>>
              ELSE IF AtomicAdopt
                   THEN IF ~inuse[cur[t]] THEN Adopt(t, cur[t]) /\ UNCHANGED <<cur, sawfree>>
                        ELSE cur' = [cur EXCEPT ![t] = next[cur[t]]] /\ UNCHANGED <<inuse, ts, pc, det, sawfree>>
                   ELSE \* load ...
                        IF ~inuse[cur[t]] THEN pc' = [pc EXCEPT ![t] = "store"] /\ UNCHANGED <<inuse, ts, cur, det, sawfree>>
                        ELSE cur' = [cur EXCEPT ![t] = next[cur[t]]] /\ UNCHANGED <<inuse, ts, pc, det, sawfree>>
           /\ UNCHANGED <<first, next, created, destroyed, alive, ops, nx, lnk>>
\* ... then store (only when AtomicAdopt = FALSE)
Store(t) == /\ pc[t] = "store" /\ Adopt(t, cur[t])
            /\ UNCHANGED <<first, next, created, destroyed, cur, alive, ops, sawfree, nx, lnk>>

NewLoad(t) == /\ pc[t] = "new" /\ created < MaxNodes
              /\ pc' = [pc EXCEPT ![t] = "push"] /\ nx' = [nx EXCEPT ![t] = first] /\ lnk' = [lnk EXCEPT ![t] = first]
              /\ UNCHANGED <<first, next, inuse, created, destroyed, ts, det, cur, alive, ops, sawfree>>
PushCas(t) == /\ pc[t] = "push"
              /\ IF first = nx[t]
                 THEN /\ created < MaxNodes
                      /\ LET n == created + 1 IN
                         /\ created' = n /\ next' = [next EXCEPT ![n] = lnk[t]] /\ first' = n
                         /\ inuse' = [inuse EXCEPT ![n] = TRUE] /\ ts' = [ts EXCEPT ![t] = n]
                      /\ det' = [det EXCEPT ![t] = TRUE] /\ pc' = [pc EXCEPT ![t] = "idle"]
                      /\ UNCHANGED <<nx, lnk>>
                 ELSE /\ nx' = [nx EXCEPT ![t] = first]
                      /\ lnk' = IF RefreshExpected THEN [lnk EXCEPT ![t] = first] ELSE lnk
                      /\ UNCHANGED <<first, next, inuse, created, ts, det, pc>>
              /\ UNCHANGED <<destroyed, cur, alive, ops, sawfree>>

InitDtor(t) == /\ alive[t] /\ pc[t] = "idle" /\ ts[t] # NULL /\ ops[t] < MaxOps /\ ~destroyed
               /\ ops' = [ops EXCEPT ![t] = @ + 1]
               /\ inuse' = [inuse EXCEPT ![ts[t]] = FALSE]
               \* with ReleaseLast the stack was emptied before this store: nothing of this thread touches it afterwards
               /\ IF ReleaseLast THEN ts' = (IF FixUninit THEN [ts EXCEPT ![t] = NULL] ELSE ts) /\ UNCHANGED pc
                  ELSE pc' = [pc EXCEPT ![t] = "shrinking"] /\ UNCHANGED ts
               /\ UNCHANGED <<first, next, created, destroyed, det, cur, alive, sawfree, nx, lnk>>
\* (only when ReleaseLast = FALSE) the thread finishes emptying the stack it has already marked free
ShrinkDone(t) == /\ pc[t] = "shrinking"
                 /\ pc' = [pc EXCEPT ![t] = "idle"] /\ ts' = IF FixUninit THEN [ts EXCEPT ![t] = NULL] ELSE ts
                 /\ UNCHANGED <<first, next, inuse, created, destroyed, det, cur, alive, ops, sawfree, nx, lnk>>

Exit(t) == /\ alive[t] /\ pc[t] = "idle" /\ t # Main
           /\ IF det[t] /\ ts[t] # NULL THEN inuse' = [inuse EXCEPT ![ts[t]] = FALSE] ELSE UNCHANGED inuse
           /\ IF ReleaseLast \/ ~(det[t] /\ ts[t] # NULL) THEN alive' = [alive EXCEPT ![t] = FALSE] /\ UNCHANGED pc
              ELSE pc' = [pc EXCEPT ![t] = "exitshrinking"] /\ UNCHANGED alive
           /\ UNCHANGED <<first, next, created, destroyed, ts, det, cur, ops, sawfree, nx, lnk>>
ExitDone(t) == /\ pc[t] = "exitshrinking" /\ alive' = [alive EXCEPT ![t] = FALSE] /\ pc' = [pc EXCEPT ![t] = "idle"]
               /\ UNCHANGED <<first, next, inuse, created, destroyed, ts, det, cur, ops, sawfree, nx, lnk>>

\* the main thread runs the static destructors after all other threads have ended
ProgramExit == /\ ~destroyed /\ \A t \in Threads \ {Main} : ~alive[t]
               /\ pc[Main] = "idle"
               /\ destroyed' = (FixNifty \/ ts[Main] # NULL)
               /\ alive' = [alive EXCEPT ![Main] = FALSE]
               /\ UNCHANGED <<first, next, inuse, created, ts, det, pc, cur, ops, sawfree, nx, lnk>>

Next == (\E t \in Threads : Get(t) \/ Find(t) \/ Store(t) \/ NewLoad(t) \/ PushCas(t) \/ InitDtor(t) \/ Exit(t) \/ ShrinkDone(t) \/ ExitDone(t)) \/ ProgramExit
Spec == Init /\ [][Next]_vars

\* C14: no two live threads use the same stack
NoShare == \A a, b \in Threads : (a # b /\ alive[a] /\ alive[b] /\ ts[a] # NULL) => ts[a] # ts[b]
\* a live thread's stack is marked in use
OwnedInUse == \A t \in Threads : (alive[t] /\ ts[t] # NULL) => inuse[ts[t]]
\* stacks of finished threads are reusable: a node that is in use belongs to somebody alive
Reclaimed == destroyed \/ \A n \in 1..created : inuse[n] => \E t \in Threads : alive[t] /\ (ts[t] = n \/ pc[t] # "idle")
\* everything is freed at program exit
FreedAtExit == (\A t \in Threads : ~alive[t]) => (created = 0 \/ destroyed)
\* every stack that was ever created can be found from the list head (so it can be adopted and is destroyed at exit)
RECURSIVE Reach(_, _)
Reach(n, fuel) == IF n = NULL \/ fuel = 0 THEN {} ELSE {n} \cup Reach(next[n], fuel - 1)
ListComplete == destroyed \/ Reach(first, MaxNodes + 1) = 1..created
NotWitnessPushRetry == ~(\E t \in Threads : pc[t] = "push" /\ nx[t] # first)
NotWitnessAdoption == ~(\E t \in Threads : alive[t] /\ ts[t] # NULL /\ \E u \in Threads : ~alive[u] /\ ts[u] = ts[t])
NotWitnessRace == ~(\E a, b \in Threads : a # b /\ pc[a] = "find" /\ pc[b] = "find" /\ cur[a] = cur[b] /\ cur[a] # NULL)
=============================================================================
