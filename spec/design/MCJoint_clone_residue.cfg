\* design-level statement of finding D2 (must be VIOLATED while it exists): copy block with another residue
SPECIFICATION Spec
CONSTANTS S = 4
          MaxAdd = 12
          Bases = {8, 10}
          Aligns = {1, 2, 4}
          MaxSize = 5
          MaxAllocs = 3
          NMembers = 2
          CloneBases = "any"
          EmptyRange = FALSE
          Bug = "none"
INVARIANT CloneSucceeds
CHECK_DEADLOCK FALSE
