SPECIFICATION Spec
CONSTANTS
 U = 7
 NS <- NS12
 MaxBlocks = 1
 MaxLive = 9
 FixRest = TRUE
 MaxHist = 9
VIEW View
CHECK_DEADLOCK FALSE
CONSTRAINT HistBound
ACTION_CONSTRAINT Emit
