SPECIFICATION Spec
CONSTANTS
 MaxAlign = 16
 SizeofChunkBase = 24
 AlignofChunk = 8
 SizeofStackNode = 16
 MinElPtr = 8
 NSMax = 512
 NMax = 2000
 Groups = 8
 Formula = "repaired"
INVARIANT MinBlockSizeSuffices
INVARIANT ChunkCountFitsUnsignedChar
INVARIANT ArenaMinBlockSizeExact
CHECK_DEADLOCK FALSE
