SPECIFICATION Spec
CONSTANTS
 Slots = {1,2,3}
 Allocs = {1,2}
 POCCA = TRUE
 POCMA = FALSE
 POCS = TRUE
 EqByIdentity = FALSE
 MaxNodes = 2
 MaxHist = 99
INVARIANT NodesBelongToBoundAllocator
VIEW View
CHECK_DEADLOCK FALSE
