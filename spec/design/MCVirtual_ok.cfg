SPECIFICATION Spec
CONSTANTS
 NBlocks = 4
 MaxFails = 2
 CursorAfterCheck = TRUE
 MoveBeforeDecommit = TRUE
CHECK_DEADLOCK FALSE
INVARIANT CommittedAreOut
INVARIANT CursorBehindYoungest
INVARIANT NoStrayRange
INVARIANT ReleasedWhole
