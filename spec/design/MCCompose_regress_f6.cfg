SPECIFICATION Spec
CONSTANTS
 Tree = 2
 Cap <- CapSmall
 HasArray <- ArrAll
 FbHasTryAllocArray = FALSE
 SegByTotal = TRUE
 MaxLive = 4
INVARIANT ReleasedAsAllocated
VIEW View
CHECK_DEADLOCK FALSE
