SPECIFICATION Spec
CONSTANTS
 ResetFlag = FALSE
 MaxOps = 6
CHECK_DEADLOCK FALSE
INVARIANT NeverBad
INVARIANT FlagIsTruth
