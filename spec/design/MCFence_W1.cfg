SPECIFICATION Spec
CONSTANTS
  MaxF = 3
  MaxS = 3
  MaxWrites = 2
  Defect = "none"
INVARIANTS
  NotWitnessBackFenceReport
CHECK_DEADLOCK FALSE
