SPECIFICATION Spec
CONSTANTS
 U = 9
 NS <- NS123
 MaxBlocks = 2
 MaxLive = 5
 FixRest = TRUE
 MaxHist = 99
INVARIANT LiveDisjoint
INVARIANT LiveInside
INVARIANT FreeDisjointFromLive
INVARIANT FreeDisjoint
INVARIANT NoCrash
INVARIANT NeverMoreThanFits
VIEW View
CHECK_DEADLOCK FALSE
