------------------------------ MODULE Propagate ------------------------------
(***************************************************************************)
(* Design model of allocator propagation for node based containers on      *)
(* std_allocator (std_allocator.hpp): which allocator object a container   *)
(* is bound to and which allocator every one of its nodes came from, under *)
(* insert / erase / copy and move construction / copy and move assignment  *)
(* / swap / destruction, as the C++ allocator-aware container rules and    *)
(* the propagation traits prescribe.  The container releases a node        *)
(* through the allocator it is bound to at that moment; C10 holds iff that *)
(* is the allocator the node came from, or one that compares equal to it   *)
(* (EqByIdentity: std_allocators compare equal iff they refer to the same  *)
(* allocator object).                                                      *)
(* Constants POCCA / POCMA / POCS are the three propagation traits (all    *)
(* TRUE in the library); EqByIdentity = FALSE models an operator== that is *)
(* always true (regression: memory then goes back to the wrong allocator). *)
(***************************************************************************)
EXTENDS Naturals, Sequences, FiniteSets, TLC, Json
CONSTANTS Slots, Allocs, POCCA, POCMA, POCS, EqByIdentity, MaxNodes, MaxHist
VARIABLES bound,    \* bound[s]: allocator of the container in slot s, 0 = no container
          nodes,    \* nodes[s]: bag of nodes as a sequence of the allocators they came from
          wrong,    \* a node was released through an allocator it did not come from
          hist
vars == <<bound, nodes, wrong, hist>>
Init == /\ bound = [s \in Slots |-> IF s = 1 THEN 1 ELSE IF s = 2 THEN 2 ELSE 0]
        /\ nodes = [s \in Slots |-> <<>>] /\ wrong = FALSE /\ hist = <<>>
Equal(a, b) == IF EqByIdentity THEN a = b ELSE TRUE
H(op, a, c) == hist' = Append(hist, [op |-> op, a |-> a - 1, c |-> c - 1])
\* releasing all nodes of sequence ns through allocator al
BadRelease(ns, al) == \E i \in 1..Len(ns) : ns[i] # al
Fill(n, al) == [i \in 1..n |-> al]

Insert(s) == /\ bound[s] # 0 /\ Len(nodes[s]) < MaxNodes
             /\ nodes' = [nodes EXCEPT ![s] = Append(@, bound[s])] /\ UNCHANGED <<bound, wrong>> /\ H("ins", s, 2)
Erase(s) == /\ bound[s] # 0 /\ nodes[s] # <<>>
            /\ wrong' = (wrong \/ Head(nodes[s]) # bound[s])
            /\ nodes' = [nodes EXCEPT ![s] = Tail(@)] /\ UNCHANGED bound /\ H("era", s, 0)
Destroy(s) == /\ bound[s] # 0
              /\ wrong' = (wrong \/ BadRelease(nodes[s], bound[s]))
              /\ bound' = [bound EXCEPT ![s] = 0] /\ nodes' = [nodes EXCEPT ![s] = <<>>] /\ H("del", s, 0)
Create(s, al) == /\ bound[s] = 0 /\ bound' = [bound EXCEPT ![s] = al] /\ UNCHANGED <<nodes, wrong>> /\ H("new", s, al + 1)
CopyCtor(a, d) == /\ bound[a] # 0 /\ bound[d] = 0 /\ a # d
                  /\ bound' = [bound EXCEPT ![d] = bound[a]]               \* select_on_container_copy_construction
                  /\ nodes' = [nodes EXCEPT ![d] = Fill(Len(nodes[a]), bound[a])]
                  /\ UNCHANGED wrong /\ H("cpy", a, d)
MoveCtor(a, d) == /\ bound[a] # 0 /\ bound[d] = 0 /\ a # d
                  /\ bound' = [bound EXCEPT ![d] = bound[a]]
                  /\ nodes' = [nodes EXCEPT ![d] = nodes[a], ![a] = <<>>]
                  /\ UNCHANGED wrong /\ H("mov", a, d)
CopyAssign(a, d) ==
  /\ bound[a] # 0 /\ bound[d] # 0 /\ a # d
  /\ IF POCCA
     THEN \* if the allocators differ the target releases its nodes with the old allocator first
          /\ wrong' = (wrong \/ BadRelease(nodes[d], bound[d]))
          /\ bound' = [bound EXCEPT ![d] = bound[a]]
          /\ nodes' = [nodes EXCEPT ![d] = Fill(Len(nodes[a]), bound[a])]
     ELSE /\ wrong' = (wrong \/ BadRelease(nodes[d], bound[d]))
          /\ nodes' = [nodes EXCEPT ![d] = Fill(Len(nodes[a]), bound[d])] /\ UNCHANGED bound
  /\ H("cas", a, d)
MoveAssign(a, d) ==
  /\ bound[a] # 0 /\ bound[d] # 0 /\ a # d
  /\ wrong' = (wrong \/ BadRelease(nodes[d], bound[d]))
  /\ IF POCMA \/ Equal(bound[a], bound[d])
     THEN \* the nodes are taken over; they will be released through the target's (new) allocator
          /\ bound' = [bound EXCEPT ![d] = IF POCMA THEN bound[a] ELSE bound[d]]
          /\ nodes' = [nodes EXCEPT ![d] = nodes[a], ![a] = <<>>]
     ELSE \* element-wise move into nodes of the target's own allocator
          /\ nodes' = [nodes EXCEPT ![d] = Fill(Len(nodes[a]), bound[d]), ![a] = <<>>] /\ UNCHANGED bound
  /\ H("mas", a, d)
Swap(a, d) ==
  /\ bound[a] # 0 /\ bound[d] # 0 /\ a < d
  /\ nodes' = [nodes EXCEPT ![a] = nodes[d], ![d] = nodes[a]]
  /\ IF POCS THEN bound' = [bound EXCEPT ![a] = bound[d], ![d] = bound[a]]
     ELSE UNCHANGED bound            \* undefined behaviour unless the allocators are equal
  /\ UNCHANGED wrong /\ H("swp", a, d)
Splice(a, d) ==  \* precondition of the containers: equal allocators
  /\ bound[a] # 0 /\ bound[d] # 0 /\ a # d /\ Equal(bound[a], bound[d])
  /\ Len(nodes[a]) + Len(nodes[d]) <= MaxNodes
  /\ nodes' = [nodes EXCEPT ![d] = @ \o nodes[a], ![a] = <<>>] /\ UNCHANGED <<bound, wrong>> /\ H("spl", a, d)

Next == \E s \in Slots : \/ Insert(s) \/ Erase(s) \/ Destroy(s) \/ (\E al \in Allocs : Create(s, al))
                         \/ \E d \in Slots : CopyCtor(s, d) \/ MoveCtor(s, d) \/ CopyAssign(s, d) \/ MoveAssign(s, d)
                                             \/ Swap(s, d) \/ Splice(s, d)
Spec == Init /\ [][Next]_vars

\* C10
NodesBelongToBoundAllocator == \A s \in Slots : \A i \in 1..Len(nodes[s]) : nodes[s][i] = bound[s]
NeverReleasedToWrongAllocator == ~wrong
NotWitnessCrossAssign == ~(\E i \in 1..Len(hist) : hist[i].op = "mas") \/ \A s \in Slots : nodes[s] = <<>>
View == <<bound, nodes, wrong>>
Emit == PrintT(<<"BEHAVIOUR", ToJson(hist')>>)
HistBound == Len(hist) < MaxHist
=============================================================================
