SPECIFICATION Spec
CONSTANTS
 ResetFlag = TRUE
 MaxOps = 6
CHECK_DEADLOCK FALSE
INVARIANT NeverBad
INVARIANT FlagIsTruth
