\* regression: the seeded defect "create_no_dealloc" must be found (must be VIOLATED)
SPECIFICATION Spec
CONSTANTS MaxN = 4
          Helpers = {"unique", "shared", "array", "jarray", "jcreate"}
          Bug = "create_no_dealloc"
INVARIANTS NoDestroyOfUnconstructed ConstructedAtMostOnce EachConstructedDestroyedOnce MemoryReturnedSameShape ExceptionPropagatesUnchanged AllocatorUsableAfter ConstructedOnceOnSuccess GuardNeverLeftArmed
CHECK_DEADLOCK FALSE
