SPECIFICATION Spec
CONSTANTS
  MaxF = 3
  MaxS = 3
  MaxWrites = 2
  Defect = "back_only"
INVARIANTS
  TypeOK
  OverflowReportedAtFirstDirtyByte
  ReportsArePrefix
  InBoundsNeverReported
  NoFenceNoReport
  FreshMemoryIsNewPattern
  ReleasedMemoryIsFreedPattern
CHECK_DEADLOCK FALSE
