----------------------------- MODULE ForwardTrace -----------------------------
(***************************************************************************)
(* Contract specification for wrapper / adapter compositions (C09) and the *)
(* routing of composable deallocation in fallback nests (C08), bound to    *)
(* the driver "compose".  Abstract state: the requests that reached an     *)
(* instrumented leaf allocator and are still live there (with the exact    *)
(* shape of the leaf request: leaf, kind, count, size, alignment), and for *)
(* each live top-level allocation the leaf allocation that backs it (or    *)
(* the library pool that served it, in mixed compositions).                *)
(* A top-level request is the events  call ... (leaf | trk)* ... ret.      *)
(***************************************************************************)
EXTENDS Naturals, Integers, Sequences, FiniteSets, TLC, Json, IOUtils

TraceFile == IF "TRACE" \in DOMAIN IOEnv THEN IOEnv.TRACE ELSE "trace.ndjson"
Tr == ndJsonDeserialize(TraceFile)

VARIABLES l, x, cfg, st, viol
vars == <<l, x, cfg, st, viol>>

V(p, r, i) == [prop |-> p, rule |-> r, line |-> l, exec |-> x, info |-> ToString(i)]
Chk(c, p, r, i) == IF c THEN {} ELSE {V(p, r, i)}
Result(s, v) == [s |-> s, v |-> v]
IsThrow(r) == Len(r) >= 6 /\ SubSeq(r, 1, 6) = "throw:"

NoCall == [id |-> 0, op |-> "", n |-> 0, sz |-> 0, al |-> 0, h |-> 0]
FreshState ==
  [comp |-> [name |-> "", fb |-> FALSE, trk |-> FALSE, mixed |-> FALSE, stk |-> FALSE, deep |-> FALSE, composable |-> FALSE,
             mxn |-> 0, mxa |-> 0, mxal |-> 0],
   upOut |-> 0,        \* upstream blocks taken and not yet returned since the execution began
   ups |-> <<>>,       \* upstream blocks taken ("ua") / returned ("uf") since the composition exists: [k, sz]
   grs |-> <<>>,       \* growth / shrinking callbacks of a deep tracker, same shape
   call |-> NoCall,
   leafs |-> <<>>,     \* leaf events of the current request
   trks |-> <<>>,      \* tracker events of the current request
   leafLive |-> {},    \* [L, b, off, kind, n, sz, al]
   reqLive |-> {}]     \* [h, b, off, len, kind, n, sz, al, by ("leaf"|"pool"), L, lb, loff]

AllocOps == {"an", "aa", "tan", "taa"}
DeallocOps == {"dn", "da", "tdn", "tda"}
KindOf(op) == IF op \in {"an", "tan", "dn", "tdn"} THEN "n" ELSE "a"
OkAllocs(ls) == {i \in 1..Len(ls) : ls[i].op \in AllocOps /\ ls[i].r = "ok"}
OkDeallocs(ls) == {i \in 1..Len(ls) : ls[i].op \in DeallocOps /\ ls[i].r \in {"ok", "true"}}
BadDeallocs(ls) == {i \in 1..Len(ls) : ls[i].op \in DeallocOps /\ ls[i].r = "unknown"}
TrkAllocs(ts) == {i \in 1..Len(ts) : ts[i].op \in {"na", "aa"}}
TrkDeallocs(ts) == {i \in 1..Len(ts) : ts[i].op \in {"nd", "ad"}}
Both(c, r, i) == Chk(c, "C09", r, i) \cup (IF st.comp.fb THEN Chk(c, "C08", r, i) ELSE {})

\* storage classes and the tracker adapter forward the size queries unchanged: the full leaf reports
\* max_node_size 2^20, max_array_size 2^22, max_alignment 4096
ForwardsQueries == {"leaf", "direct", "ref", "anyref", "ts", "ts_ref", "tracked", "ref_aligned", "aligned", "aligned_tracked"}
OnComp(e) == Result([st EXCEPT !.comp = e, !.ups = <<>>, !.grs = <<>>],
                    Chk(e.ok, "X", "UnknownComposition", <<e.name>>)
                    \cup Chk(~(e.ok /\ e.name \in ForwardsQueries) \/ (e.mxn = 1048576 /\ e.mxa = 4194304 /\ e.mxal = 4096),
                             "C09", "SizeQueriesForwarded", <<e.name, e.mxn, e.mxa, e.mxal>>))
OnCall(e) == Result([st EXCEPT !.call = e, !.leafs = <<>>, !.trks = <<>>],
                    Chk(st.call.id = 0, "X", "NestedCall", <<e.id>>))

OnLeaf(e) ==
  LET rec == [L |-> e.L, b |-> e.b, off |-> e.off, kind |-> KindOf(e.op), n |-> e.n, sz |-> e.sz, al |-> e.al]
      mine == {a \in st.leafLive : a.b = e.b /\ a.off = e.off}
  IN IF e.op \in AllocOps /\ e.r = "ok"
     THEN Result([st EXCEPT !.leafs = Append(@, e), !.leafLive = @ \cup {rec}], {})
     ELSE IF e.op \in DeallocOps /\ e.r \in {"ok", "true"}
     THEN Result([st EXCEPT !.leafs = Append(@, e), !.leafLive = @ \ mine],
            \* the leaf releases with exactly the shape it allocated with
            Both(\A a \in mine : a.kind = rec.kind /\ a.n = rec.n /\ a.sz = rec.sz /\ a.al = rec.al,
                 "ReleaseSameShape", <<rec, mine>>))
     \* a request that arrives at a default constructed object instead of the allocator object the composition was
     \* given (a reference adapter that takes a stateful allocator for stateless talks to a static of its own)
     ELSE IF e.r = "stray"
     THEN Result(st, {V("C09", "RequestReachesTheGivenObject", <<e.L, e.op>>)})
     ELSE Result([st EXCEPT !.leafs = Append(@, e)],
            Both(e.r # "unknown", "ReleaseSameLeaf", <<"leaf got memory it does not own", e.L, e.op, e.b, e.off>>))

OnTrk(e) ==
  IF e.op \in {"gr", "sh"}
  THEN Result([st EXCEPT !.grs = Append(@, [k |-> IF e.op = "gr" THEN "ua" ELSE "uf", sz |-> e.sz])],
              Chk(e.alive, "C09", "TrackerCallbackReachesLiveTracker", <<e.op>>))
  ELSE Result([st EXCEPT !.trks = Append(@, e)], Chk(e.alive, "C09", "TrackerCallbackReachesLiveTracker", <<e.op>>))
\* a deeply tracked allocator reports every block its arena takes from / returns to the block source, once,
\* with the size of the block (blocks taken at construction and returned by the destructor are not reported:
\* the tracker is attached after construction and detached before destruction)
DeepOk(where) == Chk(~st.comp.deep \/ st.ups = st.grs, "C09", "TrackerSeesEveryGrowthOnce", <<where, st.ups, st.grs>>)
OnUp(e) == Result([st EXCEPT !.ups = Append(@, [k |-> e.e, sz |-> e.sz]), !.upOut = IF e.e = "ua" THEN @ + 1 ELSE @ - 1], {})

\* threshold segregators: a request of at most the threshold (count * size for arrays) goes to the segregatable,
\* anything bigger to the next one; the thresholds are those the driver builds the compositions with
SegExpected(name, bytes) ==
  CASE name \in {"seg2", "ref_seg_sl", "anyref_seg"} -> IF bytes <= 32 THEN {1} ELSE {2}
    [] name = "seg3" -> IF bytes <= 16 THEN {1} ELSE IF bytes <= 64 THEN {2} ELSE {3}
    [] name = "seg_n" -> IF bytes <= 24 THEN {1} ELSE {2}
    [] name = "seg_fb" -> IF bytes <= 32 THEN {1} ELSE {2, 3}
    [] OTHER -> {1, 2, 3, 4, 5, 6, 7}
\* fallback compositions over tagged leaves (default = lower tag): a leaf serves a request only after every leaf
\* in front of it was asked through the composable interface in this very request and said no
FbOrdered == {"fb", "fb_n", "fb_nest", "fb_nest2", "fb_aligned", "fb_tracked", "tracked_fb", "ts_fb", "fb_sl", "ref_fb_sl"}
AskedAndRefused(k) == \E i \in 1..Len(st.leafs) : st.leafs[i].L = k /\ st.leafs[i].op \in {"tan", "taa"} /\ st.leafs[i].r = "null"
\* compositions whose outermost adapter is the tracker: it is told exactly what the caller asked for
TrackerOutermost == {"tracked", "tracked_n", "tracked_p", "tracked_fb", "tracked_sl", "ref_tracked_sl",
                     "deep_pool", "deep_apool", "deep_coll", "deep_stack"}
TrkArgsOk(ts, ops, c) == \A i \in 1..Len(ts) : ts[i].op \notin ops \/
                           (ts[i].sz = c.sz /\ ts[i].al = c.al /\ ts[i].n = c.n /\ (ts[i].op \in {"na", "nd"}) = (c.op \in {"an", "tn", "dn", "tdn"}))
OnRetWith(c, e) ==
  LET isAlloc == c.op \in {"an", "aa", "tn", "ta"}
      isTry == c.op \in {"tn", "ta", "tdn", "tda"}
      okA == OkAllocs(st.leafs)
      okD == OkDeallocs(st.leafs)
      bytes == c.n * c.sz
      done == [st EXCEPT !.call = NoCall, !.leafs = <<>>, !.trks = <<>>]
  IN IF c.id = 0 \/ c.id # e.id THEN Result(done, {V("X", "RetWithoutCall", <<e.id>>)})
     \* composable release of memory that belongs to nobody in the composition: refused, no leaf takes it, and a
     \* tracker ("every successful operation exactly once") hears nothing
     ELSE IF c.op \in {"tdfn", "tdfa"}
     THEN Result(done,
            Chk(e.r = "false", "C08", "TryDeallocFalseForForeign", <<st.comp.name, c.op, e.r>>)
            \cup Chk(okD = {}, "C08", "FalseChangesNothing", <<"a leaf released foreign memory", c.op>>)
            \cup Chk(st.trks = <<>>, "C09", "TrackerSilentOnRefusal", <<st.comp.name, c.op, Len(st.trks)>>))
     ELSE IF isAlloc
     THEN IF e.r = "ok"
          THEN LET byPool == st.comp.mixed /\ okA = {}
                   lf == IF okA = {} THEN [L |-> 0, b |-> -1, off |-> 0, n |-> 0, sz |-> 0, al |-> 0, op |-> "an"]
                         ELSE st.leafs[CHOOSE i \in okA : TRUE]
                   rq == [h |-> e.h, b |-> e.b, off |-> e.off, len |-> e.len, kind |-> KindOf(c.op), n |-> c.n,
                          sz |-> c.sz, al |-> c.al, by |-> IF byPool THEN "pool" ELSE "leaf",
                          L |-> lf.L, lb |-> lf.b, loff |-> lf.off]
               IN Result([done EXCEPT !.reqLive = @ \cup {rq}],
                    Chk(byPool \/ Cardinality(okA) = 1, "C09", "OneLeafRequestPerRequest", <<c.op, Cardinality(okA)>>)
                    \cup Chk(byPool \/ okA = {} \/ lf.n * lf.sz >= bytes, "C09", "LeafBytesAtLeast", <<bytes, lf.n, lf.sz>>)
                    \cup Chk(byPool \/ okA = {} \/ lf.al >= c.al, "C09", "LeafAlignAtLeast", <<c.al, lf.al>>)
                    \cup Chk(byPool \/ okA = {} \/ (e.b = lf.b /\ e.off >= lf.off /\ e.off + e.len <= lf.off + lf.n * lf.sz),
                             "C09", "ResultInsideLeafAllocation", <<e.b, e.off, e.len, lf.b, lf.off>>)
                    \cup Chk(okA = {} \/ bytes = 0 \/ lf.L \in SegExpected(st.comp.name, bytes), "C09", "SegregatorRoutesBySize",
                             <<st.comp.name, c.op, c.n, c.sz, lf.L>>)
                    \cup Chk(~(st.comp.name \in FbOrdered /\ okA # {}) \/ \A k \in 1..(lf.L - 1) : AskedAndRefused(k),
                             "C08", "FallbackAsksDefaultFirst", <<st.comp.name, c.op, lf.L>>)
                    \cup Chk(e.mis = 0, "C02", "Aligned", <<c.al, e.mis>>)
                    \cup Chk(~st.comp.trk \/ st.comp.fb \/ Cardinality(TrkAllocs(st.trks)) = 1, "C09", "TrackerSeesEachSuccessOnce", <<c.op, Len(st.trks)>>)
                    \cup Chk(~(st.comp.trk /\ st.comp.fb) \/ Cardinality(TrkAllocs(st.trks)) = 1, "C09", "TrackerSeesEachSuccessOnce", <<c.op, Len(st.trks)>>)
                    \cup Chk(st.comp.name \notin TrackerOutermost \/ c.sz = 0 \/ TrkArgsOk(st.trks, {"na", "aa"}, c),
                             "C09", "TrackerToldWhatWasAsked", <<c.op, c.n, c.sz, c.al, st.trks>>)
                    \* fb_tracked: the tracker sits on the default allocator (leaf 1): a request the fallback served is none of its business
                    \cup Chk(~(st.comp.name = "fb_tracked" /\ okA # {} /\ lf.L # 1) \/ TrkAllocs(st.trks) = {},
                             "C09", "TrackerSeesEachSuccessOnce", <<"callback for a request the tracked allocator did not serve", c.op, lf.L>>)
                    \cup Chk(TrkDeallocs(st.trks) = {}, "C09", "TrackerSeesEachSuccessOnce", <<"dealloc callback during allocation">>))
          ELSE Result(done,
                 Chk(okA = {}, "C09", "FailedRequestLeavesNothing", <<c.op, e.r>>)
                 \cup Chk(~isTry \/ e.r = "null", "C03", "TryNeverThrows", <<c.op, e.r>>)
                 \cup Chk(isTry \/ e.r # "null", "C03", "ThrowingNeverNull", <<c.op>>)
                 \cup Chk(st.trks = <<>>, "C09", "TrackerSilentOnFailure", <<c.op, Len(st.trks)>>))
     ELSE \* release of handle c.h
          LET m == {r \in st.reqLive : r.h = c.h}
          IN IF m = {} THEN Result(done, {V("X", "ReleaseOfUnknownHandle", <<c.h>>)})
             ELSE LET rq == CHOOSE r \in m : TRUE
                      refused == e.r = "false"
                      d == IF okD = {} THEN [L |-> 0, b |-> -1, off |-> 0] ELSE st.leafs[CHOOSE i \in okD : TRUE]
                  IN Result([done EXCEPT !.reqLive = IF refused THEN @ ELSE @ \ m],
                       Chk(e.r \in {"ok", "true", "false"}, "C03", "DeallocNeverThrows", <<e.r>>)
                       \cup Both(~refused, "TryDeallocTrueForOwn", <<c.op, rq.by>>)
                       \cup Chk(e.bad = 0, "C01", "ContentIntactAtRelease", <<c.h, e.bad>>)
                       \* served by a leaf: exactly one leaf release, on that leaf, of that memory
                       \cup Both(~(rq.by = "leaf" /\ ~refused) \/ Cardinality(okD) = 1, "ReleaseOnce", <<c.op, Cardinality(okD)>>)
                       \cup Both(~(rq.by = "leaf" /\ okD # {}) \/ (d.L = rq.L /\ d.b = rq.lb /\ d.off = rq.loff),
                                 "ReleaseSameLeaf", <<rq.L, d.L, rq.lb, d.b>>)
                       \* served by the library pool: no leaf may be asked to free it, and the pool gets it back
                       \cup Chk(~(rq.by = "pool" /\ ~refused) \/ (okD = {} /\ BadDeallocs(st.leafs) = {} /\ (st.comp.stk \/ e.fn1 > e.fn0)),
                                "C08", "ReleasedToServingPool", <<e.fn0, e.fn1, Cardinality(okD)>>)
                       \cup Chk(~(st.comp.trk /\ ~st.comp.fb) \/ refused \/ Cardinality(TrkDeallocs(st.trks)) = 1,
                                "C09", "TrackerSeesEachSuccessOnce", <<c.op, Len(st.trks)>>)
                       \cup Chk(~(st.comp.trk /\ st.comp.fb) \/ refused \/ Cardinality(TrkDeallocs(st.trks)) = 1,
                                "C09", "TrackerSeesEachSuccessOnce", <<c.op, Len(st.trks)>>)
                       \cup Chk(st.comp.name \notin TrackerOutermost \/ c.sz = 0 \/ TrkArgsOk(st.trks, {"nd", "ad"}, c),
                                "C09", "TrackerToldWhatWasAsked", <<c.op, c.n, c.sz, c.al, st.trks>>)
                       \cup Chk(~(st.comp.name = "fb_tracked" /\ rq.by = "leaf" /\ rq.L # 1) \/ TrkDeallocs(st.trks) = {},
                                "C08", "FalseChangesNothing", <<"tracker of the default allocator told about foreign memory", c.op, rq.L>>)
                       \cup Chk(TrkAllocs(st.trks) = {}, "C09", "TrackerSeesEachSuccessOnce", <<"alloc callback during release">>))

OnRet(e) == LET r == OnRetWith(st.call, e) IN Result(r.s, r.v \cup DeepOk("ret"))
\* object-creating helpers (allocate_unique, allocate_shared, unique_base_ptr): the shape of the request the
\* helper has to make (count, sizeof, alignof) is reported with the result
OnSret(e) ==
  IF e.r = "unsupported" THEN Result([st EXCEPT !.call = NoCall, !.leafs = <<>>, !.trks = <<>>], {})
  ELSE OnRetWith([st.call EXCEPT !.n = e.n, !.sz = e.sz, !.al = e.al],
                 [id |-> e.id, r |-> e.r, h |-> e.h, b |-> e.b, off |-> e.off, len |-> e.n * e.sz, mis |-> e.mis,
                  fn0 |-> -1, fn1 |-> -1, bad |-> 0])

\* the composition has been destroyed: library allocators inside it (pools behind a fallback, deeply tracked pools
\* and stacks) have given every block back to the instrumented upstream
OnEnd(e) == Result(st, Chk(e.leaf_live = 0 /\ st.leafLive = {}, "C09", "EverythingReleasedToLeaves", <<e.leaf_live>>)
                       \cup Chk(st.upOut = 0, "C09", "UpstreamBlocksReturnedAtEnd", <<st.comp.name, st.upOut>>))

Apply(e) ==
  CASE e.e = "comp" -> OnComp(e)
    [] e.e = "fill" -> Result(st, {})
    \* move assignment into a differently configured object and move construction back: no request may reach
    \* a leaf or tracker, nothing may be thrown; the calls that follow are judged as before
    \* (the spare takes a block when it is built and gives it back when it is assigned over: the block
    \* accounting of a deep tracker starts afresh after the move)
    [] e.e = "xfer" -> Result([st EXCEPT !.ups = <<>>, !.grs = <<>>], Chk(e.r = "ok", "C09", "MoveOfAdapterNeverThrows", <<e.r>>))
    [] e.e = "call" -> OnCall(e)
    [] e.e = "leaf" -> OnLeaf(e)
    [] e.e = "trk" -> OnTrk(e)
    [] e.e = "ret" -> OnRet(e)
    [] e.e = "sret" -> OnSret(e)
    [] e.e = "end" -> OnEnd(e)
    [] e.e \in {"ua", "uf"} -> OnUp(e)
    [] e.e = "ux" -> Result(st, {})
    [] e.e = "cshrink" -> Result(st, Chk(e.r = "ok", "C09", "ShrinkNeverThrows", <<e.r>>) \cup DeepOk("shrink"))
    [] e.e = "h" -> Result(st, Chk(e.k \notin {"invptr", "overflow"}, "C16", "ValidReleaseNeverReported", <<e.k>>))
    [] e.e = "died" -> Result(st, {V("ANY", "NoCrash", <<e.how, e.code>>)})
    [] e.e = "terminate" -> Result(st, {V("ANY", "NoTerminate", <<>>)})
    [] OTHER -> Result(st, {V("X", "UnknownEvent", <<e.e>>)})

Init == l = 1 /\ x = -1 /\ cfg = [leak |-> 0] /\ st = FreshState /\ viol = {}
Step ==
  /\ l <= Len(Tr)
  /\ LET e == Tr[l] IN
       IF e.e = "cfg" THEN cfg' = e /\ UNCHANGED <<x, st, viol>>
       ELSE IF e.e = "x" THEN x' = e.n /\ st' = FreshState /\ UNCHANGED <<cfg, viol>>
       ELSE LET res == Apply(e)
            IN /\ st' = res.s
               /\ viol' = viol \cup (IF "ovf" \in DOMAIN e THEN {V("ANY", "ValueInRange", <<e.e>>)} ELSE {}) \cup res.v
               /\ UNCHANGED <<x, cfg>>
  /\ l' = l + 1
  /\ (l' = Len(Tr) + 1) => PrintT(<<"VERDICT", ToJson([lines |-> Len(Tr), viol |-> viol'])>>)
Spec == Init /\ [][Step]_vars
TraceAccepted == TLCGet("stats").diameter - 1 = Len(Tr)
=============================================================================
