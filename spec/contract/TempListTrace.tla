---------------------------- MODULE TempListTrace ----------------------------
(***************************************************************************)
(* Design-level trace specification of the per-thread temporary stack list *)
(* (src/temporary_allocator.cpp, temporary stack mode 2).  It refines the  *)
(* design model spec/design/TempStackList.tla to the grain of the code:    *)
(* one action per atomic operation on the list head `first' and on the     *)
(* in_use_ flag of a node, as the guarded hook (FOONATHAN_MEMORY_VERIF)    *)
(* reports them:                                                           *)
(*    at t k o w     thread t passes hook point k on object o              *)
(*      k = 1 load, 2 store, 3 exchange, 4 compare-exchange (about to),    *)
(*          5 compare-exchange done (w = result),                          *)
(*          10 thread-local stack pointer set (o = the stack),             *)
(*          11 thread exit detector (o = the thread's stack or none),      *)
(*          12 nifty counter destructor, 13 list destroyed,                *)
(*          14 clear(): the thread has emptied the stack it releases       *)
(*             (its last access: the flag store follows)                   *)
(*      o = 0 the list head, h >= 1 a stack node in the order the harness  *)
(*          first saw it, -1 none                                          *)
(* Between two hook points only one thread runs (the harness' scheduler    *)
(* hands the turn over at hook points only), an event is logged when its   *)
(* thread passes the point, a compare-exchange result directly after the   *)
(* operation: the log order is the execution order of the atomic steps.    *)
(*                                                                         *)
(* The model state is the list (first, next, inuse), per thread the        *)
(* program counter, the traversal pointer `cur', the expected head `nx' of *)
(* the push loop and the thread-local stack pointer `ts'.  Every event     *)
(* must be a step the model can take in its current state (guard           *)
(* ListStepExplained) with the logged result (CasResultAsModel,            *)
(* TraversalFollowsList, PushLinksExpectedHead); the invariants of the     *)
(* design model are evaluated after every step (NoShare, OwnedInUse).      *)
(* Harness node numbers are bound to model nodes when they first meet.     *)
(* Events other than `at' are ignored here (TempTrace judges them).        *)
(***************************************************************************)
EXTENDS Naturals, Integers, Sequences, FiniteSets, TLC, Json, IOUtils
TraceFile == IF "TRACE" \in DOMAIN IOEnv THEN IOEnv.TRACE ELSE "trace.ndjson"
Tr == ndJsonDeserialize(TraceFile)
VARIABLES l, x, cfg, st, viol
vars == <<l, x, cfg, st, viol>>
V(p, r, i) == [prop |-> p, rule |-> r, line |-> l, exec |-> x, info |-> ToString(i)]
Chk(c, p, r, i) == IF c THEN {} ELSE {V(p, r, i)}
Result(s, v) == [s |-> s, v |-> v]

TIds == -1..16
NoThread == [pc |-> "idle", cur |-> 0, nx |-> 0, ts |-> 0, emptied |-> FALSE]
FreshState ==
  [first |-> 0,          \* model node at the head of the list (0 = empty)
   next |-> <<>>,        \* next[n]
   inuse |-> <<>>,       \* inuse[n]
   destroyed |-> FALSE,
   map |-> <<>>,         \* map[h] = model node of harness node h (0 = not bound yet)
   th |-> [t \in TIds |-> NoThread],
   lost |-> FALSE]       \* an unexplained step was seen: the rest of the execution is not judged

Created == Len(st.next)
Bound(h) == IF h >= 1 /\ h <= Len(st.map) THEN st.map[h] ELSE 0
\* harness node h stands for model node n (binds it if neither is bound yet)
CanBind(h, n) == n >= 1 /\ (Bound(h) = n \/ (Bound(h) = 0 /\ \A i \in 1..Len(st.map) : st.map[i] # n))
BindIn(s, h, n) ==
  IF h >= 1 /\ h <= Len(s.map) THEN [s EXCEPT !.map[h] = n]
  ELSE [s EXCEPT !.map = @ \o [i \in 1..(h - Len(@)) |-> IF i = h - Len(s.map) THEN n ELSE 0]]

Alive(s, t) == s.th[t].pc # "dead"
NoShareIn(s) == \A a, b \in TIds : (a # b /\ Alive(s, a) /\ Alive(s, b) /\ s.th[a].ts # 0) => s.th[a].ts # s.th[b].ts
OwnedInUseIn(s) == \A t \in TIds : (Alive(s, t) /\ s.th[t].ts # 0 /\ s.th[t].pc # "exiting") => s.inuse[s.th[t].ts]
Inv(s, what) == Chk(NoShareIn(s), "C14", "NoTwoLiveThreadsShareAStack", <<"list model", what>>)
                \cup Chk(OwnedInUseIn(s), "C14", "HeldStackMarkedInUse", <<what>>)

Lost(e, why) == Result([st EXCEPT !.lost = TRUE],
                       {V("C14", "ListStepExplained", <<why, e.t, e.k, e.o, e.w, st.th[e.t].pc>>)})
Step(s, v, what) == Result(s, v \cup Inv(s, what))

OnAt(e) ==
  LET t == e.t
      me == st.th[t]
  IN
  IF st.lost THEN Result(st, {})
  ELSE IF t \notin TIds THEN Lost(e, "thread")
  \* ---- loads -------------------------------------------------------------------------------
  ELSE IF e.k = 1 /\ e.o = 0 THEN
       IF me.pc = "idle" /\ me.ts = 0 /\ ~st.destroyed       \* find_unused(): first.load()
       THEN Step([st EXCEPT !.th[t].pc = IF st.first = 0 THEN "new" ELSE "find", !.th[t].cur = st.first], {}, "find")
       ELSE IF me.pc = "new"                                  \* node constructor: next_ = first.load()
       THEN Step([st EXCEPT !.th[t].pc = "push", !.th[t].nx = st.first], {}, "pushload")
       ELSE IF me.pc = "destroyed" THEN Result(st, {})        \* assertion after destroy()
       ELSE Lost(e, "load of the list head")
  ELSE IF e.k = 1 THEN                                        \* assertion ptr->in_use_ after adoption
       IF me.pc = "adopted" /\ Bound(e.o) = me.ts THEN Result(st, {}) ELSE
       IF me.pc = "adopted" /\ CanBind(e.o, me.ts) THEN Result(BindIn(st, e.o, me.ts), {})
       ELSE Lost(e, "load of a flag")
  \* ---- compare-exchange --------------------------------------------------------------------
  ELSE IF e.k = 4 THEN
       IF e.o = 0 THEN (IF me.pc = "push" THEN Result(st, {}) ELSE Lost(e, "cas on the head outside the push loop"))
       ELSE IF me.pc = "find" /\ CanBind(e.o, me.cur) THEN Result(BindIn(st, e.o, me.cur), {})
       ELSE IF me.pc = "find"
            THEN Result([st EXCEPT !.lost = TRUE],
                        {V("C14", "TraversalFollowsList", <<t, "flag of", e.o, Bound(e.o), "model is at", me.cur>>)})
            ELSE Lost(e, "cas on a flag outside find_unused")
  ELSE IF e.k = 5 /\ e.o # 0 THEN
       IF me.pc # "find" \/ Bound(e.o) # me.cur \/ me.cur = 0 THEN Lost(e, "cas result on a flag")
       ELSE LET n == me.cur IN
            IF e.w = 1
            THEN Step([st EXCEPT !.inuse[n] = TRUE, !.th[t].ts = n, !.th[t].pc = "adopted"],
                      Chk(~st.inuse[n], "C14", "CasResultAsModel", <<"took a stack that is in use", t, n>>), "adopt")
            ELSE Step([st EXCEPT !.th[t].cur = st.next[n], !.th[t].pc = IF st.next[n] = 0 THEN "new" ELSE "find"],
                      Chk(st.inuse[n], "C14", "CasResultAsModel", <<"a free stack was not taken", t, n>>), "skip")
  ELSE IF e.k = 5 THEN
       IF me.pc # "push" THEN Lost(e, "cas result on the head")
       ELSE IF e.w = 1
            THEN LET n == Created + 1 IN
                 Step([st EXCEPT !.next = Append(@, me.nx), !.inuse = Append(@, TRUE), !.first = n,
                                 !.th[t].ts = n, !.th[t].pc = "adopted"],
                      Chk(st.first = me.nx, "C14", "PushLinksExpectedHead", <<t, st.first, me.nx>>), "push")
            ELSE Step([st EXCEPT !.th[t].nx = st.first],
                      Chk(st.first # me.nx, "C14", "CasResultAsModel", <<"push failed although the head was as expected", t>>), "pushretry")
  \* ---- store: clear() ----------------------------------------------------------------------
  ELSE IF e.k = 2 THEN
       IF e.o = 0 \/ me.ts = 0 \/ me.pc \notin {"idle", "exiting"} THEN Lost(e, "store")
       ELSE IF ~(Bound(e.o) = me.ts \/ CanBind(e.o, me.ts))
            THEN Result([st EXCEPT !.lost = TRUE], {V("C14", "ClearsOwnStack", <<t, e.o, Bound(e.o), me.ts>>)})
            ELSE LET s1 == BindIn(st, e.o, me.ts)
                 IN Step([s1 EXCEPT !.inuse[me.ts] = FALSE,
                                    !.th[t].ts = IF me.pc = "idle" THEN 0 ELSE @,
                                    !.th[t].emptied = FALSE,
                                    !.th[t].pc = IF me.pc = "exiting" THEN "dead" ELSE @],
                         \* marking the stack free is the releasing thread's LAST access to it: whoever takes the
                         \* flag next owns the stack at once (design model: constant ReleaseLast)
                         Chk(me.emptied, "C14", "ReleaseIsLastAccess", <<"marked free before it was emptied", t, me.ts>>), "clear")
  \* ---- exchange: destroy() -----------------------------------------------------------------
  ELSE IF e.k = 3 THEN
       IF e.o # 0 \/ me.pc # "nifty" THEN Lost(e, "exchange")
       ELSE Step([st EXCEPT !.first = 0, !.destroyed = TRUE, !.th[t].pc = "destroying"],
                 Chk(\A u \in TIds : u = t \/ ~Alive(st, u) \/ st.th[u].ts = 0, "C14", "DestroyedWhileInUse", <<t>>), "destroy")
  \* ---- points ------------------------------------------------------------------------------
  ELSE IF e.k = 10 THEN
       IF me.pc = "adopted" /\ CanBind(e.o, me.ts) THEN Step(BindIn([st EXCEPT !.th[t].pc = "idle"], e.o, me.ts), {}, "got")
       ELSE IF me.pc = "idle" /\ me.ts # 0 /\ Bound(e.o) = me.ts THEN Result(st, {})
       ELSE Result([st EXCEPT !.lost = TRUE], {V("C14", "ThreadPointerIsTheStackTaken", <<t, e.o, Bound(e.o), me.ts, me.pc>>)})
  ELSE IF e.k = 11 THEN
       IF me.pc # "idle" THEN Lost(e, "thread exit in the middle of an operation")
       ELSE IF (e.o = -1) # (me.ts = 0) \/ (e.o # -1 /\ Bound(e.o) # me.ts)
            THEN Result([st EXCEPT !.lost = TRUE], {V("C14", "ThreadPointerIsTheStackTaken", <<"at thread exit", t, e.o, Bound(e.o), me.ts>>)})
            ELSE Step([st EXCEPT !.th[t].pc = IF me.ts = 0 THEN "dead" ELSE "exiting"], {}, "exit")
  ELSE IF e.k = 14 THEN
       IF me.pc \in {"idle", "exiting"} /\ me.ts # 0 /\ (Bound(e.o) = me.ts \/ CanBind(e.o, me.ts))
       THEN Result([BindIn(st, e.o, me.ts) EXCEPT !.th[t].emptied = TRUE], {})
       ELSE Result(st, {V("C14", "ReleaseIsLastAccess", <<"worked on a stack it does not hold", t, e.o, Bound(e.o), me.ts, me.pc>>)})
  ELSE IF e.k = 12 THEN
       IF me.pc \in {"idle", "nifty"} THEN Result([st EXCEPT !.th[t].pc = "nifty"], {}) ELSE
       IF me.pc \in {"destroyed", "destroying"} THEN Result(st, {}) ELSE Lost(e, "nifty counter")
  ELSE IF e.k = 13 THEN
       IF me.pc = "destroying" THEN Result([st EXCEPT !.th[t].pc = "destroyed"], {}) ELSE
       IF me.pc = "nifty" THEN Result(st, {}) ELSE Lost(e, "destroy")
  ELSE Lost(e, "unknown kind")

Apply(e) == IF e.e = "at" THEN OnAt(e) ELSE Result(st, {})

Init == l = 1 /\ x = -1 /\ cfg = [leak |-> 0] /\ st = FreshState /\ viol = {}
Next ==
  /\ l <= Len(Tr)
  /\ LET e == Tr[l] IN
       IF e.e = "cfg" THEN cfg' = e /\ UNCHANGED <<x, st, viol>>
       ELSE IF e.e = "x" THEN x' = e.n /\ st' = FreshState /\ UNCHANGED <<cfg, viol>>
       ELSE LET res == Apply(e) IN st' = res.s /\ viol' = viol \cup res.v /\ UNCHANGED <<x, cfg>>
  /\ l' = l + 1
  /\ (l' = Len(Tr) + 1) => PrintT(<<"VERDICT", ToJson([lines |-> Len(Tr), viol |-> viol'])>>)
Spec == Init /\ [][Next]_vars
TraceAccepted == TLCGet("stats").diameter - 1 = Len(Tr)
=============================================================================
