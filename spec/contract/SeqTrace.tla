------------------------------ MODULE SeqTrace ------------------------------
(***************************************************************************)
(* Contract specification for the stateful allocators of foonathan/memory  *)
(* (pools, pool collections, memory_stack, iteration_allocator,            *)
(* static_allocator), written to be bound to the implementation: the       *)
(* harness driver "seq" records one event per API call and this module     *)
(* replays the recorded trace.  Every action is total: it applies the      *)
(* event to the abstract state (who owns which upstream block, which       *)
(* allocations are live, what each allocation took from its pool, which    *)
(* markers exist, ...) and adds one record to `viol' for every named       *)
(* guard that is false.  Each guard is one clause of one property          *)
(* (C01..C18); nothing else is constrained: which free node is returned,   *)
(* how blocks grow and in which order lists are kept is left open.         *)
(***************************************************************************)
EXTENDS Naturals, Integers, Sequences, FiniteSets, TLC, Json, IOUtils

TraceFile == IF "TRACE" \in DOMAIN IOEnv THEN IOEnv.TRACE ELSE "trace.ndjson"
Tr == ndJsonDeserialize(TraceFile)

VARIABLES l,     \* next trace line
          x,     \* current execution number
          cfg,   \* build configuration of the library under observation
          st,    \* abstract state of the current execution
          viol   \* set of false guards found so far

vars == <<l, x, cfg, st, viol>>

-----------------------------------------------------------------------------
(* helpers *)
CeilDiv(a, b) == (a + b - 1) \div b
Max(a, b) == IF a > b THEN a ELSE b
Min(a, b) == IF a < b THEN a ELSE b
RECURSIVE NextPow2From(_, _)
NextPow2From(p, n) == IF p >= n THEN p ELSE NextPow2From(2 * p, n)
NextPow2(n) == NextPow2From(1, n)
RECURSIVE SumSeq(_)
SumSeq(s) == IF s = <<>> THEN 0 ELSE Head(s) + SumSeq(Tail(s))
Huge == 1000000000   \* values are clamped to +-10^9 by the trace writer so that sums and differences stay inside TLC's 32-bit integers
IsThrow(r) == Len(r) >= 6 /\ SubSeq(r, 1, 6) = "throw:"
OomFamily == {"throw:out_of_memory", "throw:out_of_fixed_memory"}
SizeFamily == {"throw:bad_allocation_size", "throw:bad_node_size", "throw:bad_array_size",
               "throw:bad_alignment"}

V(p, r, i) == [prop |-> p, rule |-> r, line |-> l, exec |-> x, info |-> ToString(i)]
Chk(c, p, r, i) == IF c THEN {} ELSE {V(p, r, i)}

Overlap(a, b) == a.b = b.b /\ a.off < b.off + b.len /\ b.off < a.off + a.len

FreshState ==
  [blocks |-> <<>>,   \* upstream blocks in order of acquisition: [size, al, src, live, st]
   objs   |-> <<>>,   \* allocator objects in order of creation (index o+1)
   live   |-> {},     \* live allocations
   pend   |-> <<>>,   \* handler invocations since the last API call event
   inj    |-> 0,      \* injected upstream failures since the last API call event
   marks  |-> <<>>,   \* stack markers by index+1: [wm, cap, blk]
   slog   |-> <<>>,   \* allocations currently on the stack, oldest first: [id, n, sz, al, b, off]
   expect |-> <<>>,   \* after an unwind: what a repetition of the requests must return
   eidx   |-> 1,
   hdef   |-> FALSE,  \* the script has reset the error handlers to the library's defaults (set_handler(nullptr))
   clk    |-> 0,      \* logical time: counts requests and markers of the execution
   purged |-> 0,      \* time of the last shrink_to_fit / move (what next_capacity() was before is history then)
   taint  |-> {},     \* times of the failed stack requests that changed the stack's state (moved on to the next block)
   snap   |-> {},     \* upstream blocks that were outstanding when the previous API call returned
   over   |-> FALSE,  \* execution ended abnormally
   vm     |-> <<>>,   \* address ranges reserved from the operating system (index r+1): [pg, live, com = committed pages]
   vmPend |-> {}]     \* page ranges <<r, off, pg>> of blocks returned to a virtual source and not yet decommitted

HasBlk(b) == b >= 0 /\ b < Len(st.blocks)
\* total: an address outside every block the world handed out maps to a dead, empty block of no source
NoBlk == [size |-> 0, al |-> 0, src |-> -1, live |-> FALSE, st |-> FALSE]
Blk(b) == IF HasBlk(b) THEN st.blocks[b + 1] ELSE NoBlk
Obj(o) == st.objs[o + 1]
LiveBlocksOf(s, src) == {i \in 1..Len(s.blocks) : s.blocks[i].live /\ ~s.blocks[i].st /\ s.blocks[i].src = src}
MaxOf(S) == CHOOSE m \in S : \A k \in S : k <= m
PendK(k) == {i \in 1..Len(st.pend) : st.pend[i].k = k}
NoStrayReports(p) ==
     Chk(PendK("invptr") = {}, "C16", "ValidReleaseNeverReported", <<p>>)
     \cup Chk(PendK("overflow") = {}, "C17", "InBoundsNeverReported", <<p>>)
NoLeakReport(p) == Chk(PendK("leak") = {}, "C15", "ReportOnlyAtDestroy", <<p>>)
HasLeakChecker(o) == cfg.leak = 1 /\ o.fam \in {"pool", "coll", "stack"}
IsPoolLike(o) == o.fam \in {"pool", "coll"}
\* upper bound of the node size of the bucket that serves element size sz
NodeUpper(o, sz) == IF o.fam = "pool" THEN o.ns
                    ELSE IF o.bd = "log2" THEN NextPow2(Max(sz, 8)) ELSE Max(sz, 8)

Result(s, v) == [s |-> s, v |-> v]

-----------------------------------------------------------------------------
(* upstream events *)
\* (defined below) a block handed out by a virtual source consists of committed pages of its reservation
VmOf(e) == "vr" \in DOMAIN e /\ e.vr >= 0
OnUa(e) ==
  Result([st EXCEPT !.blocks = Append(@, [size |-> e.sz, al |-> e.al, src |-> e.s,
                                           live |-> TRUE, st |-> e.st])],
         \* a fixed storage hands out blocks of itself only: beyond its end it must refuse (out_of_fixed_memory)
         Chk(~e.out, "C03", "FixedStorageNeverOverrun", <<e.s, e.b, e.sz>>)
         \cup Chk(~VmOf(e) \/ (e.vr < Len(st.vm) /\ (e.vo..(e.vo + e.vp - 1)) \subseteq st.vm[e.vr + 1].com),
                  "C05", "VmBlockIsCommitted", <<e.b, e.vr, e.vo, e.vp>>))

OnUx(e) == Result([st EXCEPT !.inj = @ + 1], {})

(* The operating system as the upstream of virtual_block_allocator (src/virtual_memory.cpp): what is committed is  *)
(* inside the reservation and not committed yet, what is decommitted is exactly a block that was given back, the   *)
(* reservation is released whole and empty.  Pages are numbered relative to the reservation.                       *)
VmRange(e) == e.off..(e.off + e.pg - 1)
HasVm(r) == r >= 0 /\ r < Len(st.vm)
OnVm(e) ==
  IF e.k = "reserve" THEN Result([st EXCEPT !.vm = Append(@, [pg |-> e.pg, live |-> TRUE, com |-> {}])], {})
  ELSE IF ~HasVm(e.r) THEN Result(st, {V("X", "VmUnknownReservation", <<e.k, e.r>>)})
  ELSE LET v == st.vm[e.r + 1]
           rng == VmRange(e)
           inside == v.live /\ e.off >= 0 /\ e.off + e.pg <= v.pg
       IN CASE e.k = "commit" ->
                 Result([st EXCEPT !.vm[e.r + 1].com = IF e.ok /\ inside THEN @ \cup rng ELSE @],
                        Chk(inside, "C05", "VmCommitInsideReservation", <<e.r, e.off, e.pg, v.pg, v.live>>)
                        \cup Chk(rng \cap v.com = {}, "C05", "VmCommitNotCommittedYet", <<e.r, e.off, e.pg, v.com>>))
            [] e.k = "decommit" ->
                 Result([st EXCEPT !.vm[e.r + 1].com = @ \ rng, !.vmPend = @ \ {<<e.r, e.off, e.pg>>}],
                        Chk(inside /\ rng \subseteq v.com, "C05", "VmDecommitWasCommitted", <<e.r, e.off, e.pg, v.com>>)
                        \cup Chk(<<e.r, e.off, e.pg>> \in st.vmPend, "C05", "VmDecommitIsTheReturnedBlock", <<e.r, e.off, e.pg, st.vmPend>>))
            [] e.k = "release" ->
                 Result([st EXCEPT !.vm[e.r + 1].live = FALSE],
                        Chk(v.live /\ e.off = 0 /\ e.pg = v.pg, "C05", "VmReleaseWholeReservation", <<e.r, e.off, e.pg, v.pg, v.live>>)
                        \cup Chk(v.com = {}, "C05", "VmReleaseAfterDecommit", <<e.r, v.com>>))
            [] OTHER -> Result(st, {V("X", "UnknownEvent", <<"vm", e.k>>)})

OnUf(e) ==
  IF e.b < 0
  THEN Result(st, {V("C05", "NoUnknownOrDoubleReturn", <<e.s, e.sz, e.pb, e.po>>)})
  ELSE LET b == Blk(e.b)
           peers == LiveBlocksOf(st, b.src)
       IN Result([st EXCEPT !.blocks[e.b + 1].live = FALSE,
                            !.vmPend = IF VmOf(e) THEN @ \cup {<<e.vr, e.vo, e.vp>>} ELSE @],
            Chk(e.sz = b.size /\ e.al = b.al, "C05", "UpFreeSameSizeAlign", <<e.b, e.sz, b.size, e.al, b.al>>)
            \cup Chk(e.s = b.src, "C05", "UpFreeSameSource", <<e.b, e.s, b.src>>)
            \cup Chk(peers = {} \/ e.b + 1 = MaxOf(peers), "C05", "UpFreeReverseOrder", <<e.b, peers>>))

OnH(e) == Result([st EXCEPT !.pend = Append(@, e)], {})

-----------------------------------------------------------------------------
(* construction *)
OnNew(e) ==
  LET ok == e.r = "ok"
      mine == LiveBlocksOf(st, e.src)
      o == [status |-> IF ok THEN "live" ELSE "failed", src |-> e.src, fam |-> e.fam,
            type |-> e.type, srck |-> e.srck, bd |-> e.bd, hdr |-> e.hdr, ns |-> e.ns,
            link |-> e.link, mem |-> e.mem, N |-> e.N, net |-> 0,
            curblk |-> IF mine = {} THEN -1 ELSE MaxOf(mine) - 1,
            cap0s |-> e.caps, caps |-> e.caps, fnE |-> e.fn, bsz |-> IF mine = {} THEN 0 ELSE st.blocks[MaxOf(mine)].size,
            \* memory_arena driven directly: the block stacks (block numbers, top = last)
            used |-> <<>>, cach |-> <<>>, acached |-> e.acached,
            ssz |-> e.ssz, sbs |-> e.sbs,      \* static source: size of the storage and of its blocks (0: not known)
            pools |-> e.pools,                 \* memory_pool_collection: number of free lists (0: not a collection)
            defres |-> "unseen"]               \* ... whether its reservations are seen to be block / pools ("unseen", "yes", "no")
      famOk == e.r \in OomFamily \cup SizeFamily \/ (e.r = "throw:injected" /\ e.upf > 0)
  IN Result([st EXCEPT !.objs = Append(@, o), !.pend = <<>>, !.inj = 0],
       Chk(ok \/ famOk, "C03", "ThrowIsLibraryFamily", <<"new", e.r>>)
       \cup Chk(~(e.r \in OomFamily) \/ (st.hdef \/ PendK("oom") # {}), "C03", "HandlerCalledFirst", <<"new", e.r>>)
       \cup Chk(~(e.r \in SizeFamily) \/ (st.hdef \/ PendK("badsize") # {}), "C03", "HandlerCalledFirst", <<"new", e.r>>)
       \cup Chk(ok \/ mine = {}, "C05", "FailedConstructionReturnsBlocks", <<mine>>)
       \cup Chk(~ok \/ e.fam # "iter" \/ SumSeq(e.caps) <= o.bsz, "C07", "RegionsCoverNoMoreThanBlock", <<e.caps, o.bsz>>)
       \cup NoStrayReports("new") \cup NoLeakReport("new"))

-----------------------------------------------------------------------------
(* allocation *)
\* detail::alignment_for: the largest power of two dividing the size, at most max_alignment (16)
AlignmentFor(sz) == IF sz % 16 = 0 THEN 16 ELSE IF sz % 8 = 0 THEN 8 ELSE IF sz % 4 = 0 THEN 4 ELSE IF sz % 2 = 0 THEN 2 ELSE 1
\* node slots of a pool's block that no live allocation touches; the ordered free list keeps every free
\* node sorted by address, so an array fits without growth iff `need` such slots are adjacent in one block
SlotFree(i, off, ns) == \A a \in st.live : ~(a.b = i - 1 /\ a.off < off + ns /\ off < a.off + a.len)
RunFree(o, mine, need) ==
  \E i \in mine : LET cnt == (st.blocks[i].size - o.hdr) \div o.ns
                  IN \E k0 \in 0..(cnt - need) : \A j \in 0..(need - 1) : SlotFree(i, o.hdr + (k0 + j) * o.ns, o.ns)
OrderedList(o) == o.fam = "pool" /\ (o.type = "array" \/ (o.type = "node" /\ cfg.dbl = 1))
\* a static source refuses only when its storage cannot hold another block
RECURSIVE SumBlocks(_)
SumBlocks(S) == IF S = {} THEN 0 ELSE LET i == CHOOSE i \in S : TRUE IN st.blocks[i].size + SumBlocks(S \ {i})
Justified(o, mine) == st.inj > 0 \/ (o.srck = "fixed" /\ mine # {}) \/ o.srck = "virtual"
                      \/ (o.srck = "static" /\ (o.ssz = 0 \/ SumBlocks(mine) + o.sbs > o.ssz))
OnAlloc(e) ==
  LET o == Obj(e.o)
      ok == e.r = "ok"
      thr == IsThrow(e.r)
      traitsIface == ~o.mem
      need == CeilDiv(e.len, NodeUpper(o, e.sz))
      refill == e.ups > 0 \/ (o.fam = "coll" /\ e.cap0 # e.cap1)
      takenObs == e.fn0 - e.fn1
      rec == [id |-> e.id, o |-> e.o, b |-> e.b, off |-> e.off, len |-> e.len, op |-> e.op,
              n |-> e.n, sz |-> e.sz, al |-> e.al, t |-> e.t,
              taken |-> IF refill THEN need ELSE takenObs, exact |-> ~refill, g |-> e.g]
      inside == HasBlk(e.b) /\ Blk(e.b).live /\ Blk(e.b).src = o.src
                /\ e.off >= o.hdr /\ e.off + e.len <= Blk(e.b).size
      clash == {a \in st.live : Overlap(a, rec)}
      mine == LiveBlocksOf(st, o.src)
      stackLike == o.fam \in {"stack", "iter", "static"}
      fence == cfg.fence
      \* replay after unwind (C06)
      expecting == o.fam = "stack" /\ st.expect # <<>> /\ st.eidx <= Len(st.expect)
      ex == st.expect[st.eidx]
      sameReq == expecting /\ ex.n = e.n /\ ex.sz = e.sz /\ ex.al = e.al /\ ex.op = e.op /\ ex.t = e.t
      nst == [st EXCEPT
               !.live = IF ok THEN @ \cup {rec} ELSE @,
               !.pend = <<>>, !.inj = 0,
               !.objs[e.o + 1].net = IF ok /\ ~e.t /\ traitsIface /\ HasLeakChecker(o) THEN @ + e.len ELSE @,
               !.objs[e.o + 1].curblk = IF ok THEN e.b ELSE IF o.fam = "stack" /\ ~e.t THEN -1 ELSE @,
               !.objs[e.o + 1].caps = IF o.fam = "iter" /\ ok THEN [@ EXCEPT ![(e.g % o.N) + 1] = e.cap1] ELSE @,
               \* the size of a collection's default reservation is implementation defined; the rule about the tail
               \* of the block below presumes block / pools and is applied only while reservations made with plenty of
               \* room are seen to have that size (otherwise the mechanism changed: no verdict from that rule)
               !.objs[e.o + 1].defres =
                   IF o.fam = "coll" /\ o.pools > 0 /\ e.ups = 0 /\ e.cap0 > e.cap1 /\ LiveBlocksOf(st, o.src) # {}
                   THEN LET dc == (st.blocks[MaxOf(LiveBlocksOf(st, o.src))].size - o.hdr) \div o.pools
                            mv == e.cap0 - e.cap1
                        IN IF e.cap0 < 2 * dc + 64 THEN @
                           ELSE IF mv >= dc /\ mv < dc + 16 + 2 * cfg.fence + 16 /\ @ # "no" THEN "yes" ELSE "no"
                   ELSE @,
               !.slog = IF ok /\ o.fam = "stack" THEN Append(@, [id |-> e.id, n |-> e.n, sz |-> e.sz, al |-> e.al, op |-> e.op, t |-> e.t, b |-> e.b, off |-> e.off]) ELSE @,
               \* a request that failed AFTER the stack had moved on to its next (cached) block is part of the history
               \* although it is not in slog: replay expectations across it would compare different sequences
               !.clk = @ + 1,
               !.taint = IF o.fam = "stack" /\ ~ok /\ (e.cap1 # e.cap0 \/ e.mv) THEN @ \cup {st.clk + 1} ELSE @,
               !.expect = IF ok /\ sameReq THEN @ ELSE <<>>,
               !.eidx = IF ok /\ sameReq THEN @ + 1 ELSE 1]
  IN Result(nst,
       \* ---- C03: failure is signalled ----
       Chk(e.t \/ e.r # "null", "C03", "ThrowingNeverNull", <<o.fam, e.op, e.n, e.sz, e.al>>)
       \cup Chk(~e.t \/ ~thr, "C03", "TryNeverThrows", <<o.fam, e.r>>)
       \cup Chk(~e.t \/ e.ups = 0, "C03", "TryNeverGrows", <<o.fam, e.ups>>)
       \cup Chk(~thr \/ e.r \in OomFamily \cup SizeFamily \/ (e.r = "throw:injected" /\ st.inj > 0),
                "C03", "ThrowIsLibraryFamily", <<o.fam, e.r>>)
       \cup Chk(~(e.r \in OomFamily) \/ (st.hdef \/ PendK("oom") # {}), "C03", "HandlerCalledFirst", <<o.fam, e.r>>)
       \cup Chk(~(e.r \in SizeFamily) \/ (st.hdef \/ PendK("badsize") # {}), "C03", "HandlerCalledFirst", <<o.fam, e.r>>)
       \* "able to serve later valid requests": an allocator over a growing source reports exhaustion only
       \* when its upstream refused in this very call, one over a fixed source only while its block is out
       \cup Chk(~(e.r \in OomFamily /\ o.fam \in {"pool", "coll", "stack"}) \/ Justified(o, mine),
                "C03", "FailureIsJustified", <<o.fam, o.srck, e.r, mine>>)
       \* a request that does not fit into what is left must fail, not "succeed" somewhere else
       \cup Chk(~(ok /\ stackLike /\ e.ups = 0 /\ e.cap0 >= 0 /\ (o.fam # "stack" \/ e.t \/ e.b = o.curblk))
                  \/ e.len + 2 * fence <= e.cap0,
                "C03", "ImpossibleRequestNeverSucceeds", <<o.fam, e.len, e.al, e.cap0, e.cap1>>)
       \* ... and capacity_left() is usable: a composable request that fits into it whatever the alignment padding
       \* turns out to be (exact fit included) is served, by a stack-like allocator from its current block
       \cup Chk(~(e.t /\ e.r = "null" /\ stackLike /\ e.cap0 >= 0 /\ e.al >= 1 /\ e.len >= 1) \/ e.len + 2 * fence + (e.al - 1) > e.cap0,
                "C18", "CapacityLeftIsUsable", <<o.fam, e.len, e.al, e.cap0>>)
       \cup Chk(~(ok /\ traitsIface) \/ (e.al <= e.mxal /\ IF e.op = "n" THEN e.sz <= e.mxn ELSE e.len <= e.mxa),
                "C18", "AboveMaxNeverSucceeds", <<o.fam, e.op, e.n, e.sz, e.al, e.mxn, e.mxa, e.mxal>>)
       \* a collection serves a request through its traits only at the alignment its node size guarantees: an
       \* over-aligned request is refused (bad_alignment), not absorbed
       \cup Chk(~(ok /\ traitsIface /\ ~e.t /\ o.fam = "coll" /\ e.sz > 0) \/ e.al <= AlignmentFor(e.sz),
                "C03", "OverAlignedRequestRefused", <<o.fam, e.op, e.sz, e.al>>)
       \* ---- C01 / C02: what a successful allocation returns ----
       \cup Chk(~ok \/ inside, "C01", "InsideOwned", <<o.fam, e.b, e.off, e.len>>)
       \cup Chk(~ok \/ clash = {}, "C01", "DisjointFromLive", <<o.fam, e.b, e.off, e.len, {a.id : a \in clash}>>)
       \cup Chk(~ok \/ e.mis = 0, "C02", "Aligned", <<o.fam, e.al, e.mis, e.b, e.off>>)
       \cup Chk(~ok \/ inside, "C02", "FullSizeUsable", <<o.fam, e.b, e.off, e.len>>)
       \cup Chk(~ok \/ e.fresh \in {-1, 0}, "C17", "FreshMemoryIsNewPattern", <<o.fam, e.fresh>>)
       \* ---- C04 / C18: pool accounting ----
       \cup Chk(~(ok /\ IsPoolLike(o) /\ ~refill) \/ (IF e.op = "n" THEN takenObs = 1 ELSE takenObs >= need),
                "C04", "CapacityMovesByTaken", <<o.fam, e.op, e.fn0, e.fn1, need>>)
       \cup Chk(~(IsPoolLike(o) /\ e.op = "n" /\ e.fn0 > 0) \/ e.ups = 0, "C04", "NoGrowthWhileNodeFree", <<o.fam, e.fn0, e.ups>>)
       \cup Chk(~(OrderedList(o) /\ e.op = "a" /\ ~e.t /\ e.ups > 0 /\ need >= 1) \/ ~RunFree(o, {i \in mine : i <= Len(st.blocks) - e.ups}, need),
                "C04", "NoGrowthWhileRunFree", <<o.type, e.n, e.sz, need, e.fn0, e.ups>>)
       \cup Chk(~(IsPoolLike(o) /\ ~ok) \/ e.fn1 >= e.fn0, "C04", "FailureKeepsCapacity", <<o.fam, e.fn0, e.fn1>>)
       \* a free node of the right bucket is handed out: the composable interface refuses a valid single-node request
       \* (size up to and including max_node_size(), alignment the size guarantees) only when that bucket is empty
       \cup Chk(~(IsPoolLike(o) /\ e.t /\ e.op = "n" /\ e.r = "null" /\ e.fn0 > 0 /\ e.sz >= 1 /\ e.sz <= e.mxn
                   /\ e.al <= AlignmentFor(IF o.fam = "pool" THEN o.ns ELSE e.sz)),
                "C04", "FreeNodeIsUsable", <<o.fam, o.type, e.sz, e.al, e.fn0, e.mxn>>)
       \cup Chk(~(ok /\ stackLike /\ e.ups = 0 /\ e.cap0 >= 0 /\ (o.fam # "stack" \/ e.b = o.curblk)) \/
                  (e.cap0 - e.cap1 >= e.len + 2 * fence /\ e.cap0 - e.cap1 < e.len + 2 * fence + Max(e.al, 1)),
                "C18", "StackCapacityMovesExactly", <<o.fam, e.cap0, e.cap1, e.len, e.al>>)
       \* ... and whatever happened in the call (growth, a block from the cache, a block an earlier refused request
       \* had switched to): after a successful allocation capacity_left() is the distance from the allocation's end
       \* (plus its trailing fence) to the end of the block it lies in
       \cup Chk(~(ok /\ o.fam = "stack" /\ HasBlk(e.b)) \/ e.cap1 = Blk(e.b).size - (e.off + e.len + fence),
                "C18", "StackCapacityIsBlockEndMinusTop", <<e.b, e.off, e.len, e.cap1, IF HasBlk(e.b) THEN Blk(e.b).size ELSE -1>>)
       \* (the harness reads capacity_left() as a signed number: a figure that wrapped around shows up negative)
       \cup Chk(~(ok /\ o.fam = "stack") \/ (e.cap1 >= 0 /\ (~HasBlk(e.b) \/ e.cap1 <= Blk(e.b).size)),
                "C18", "StackCapacityWithinBlock", <<e.b, e.cap0, e.cap1>>)
       \* a collection carves a reservation off its block for the bucket that ran empty: what leaves capacity_left()
       \* arrives in pool_capacity_left() of that bucket, less than one node, the alignment padding and the fences short
       \cup Chk(~(o.fam = "coll" /\ o.type # "small" /\ ok /\ e.op = "n" /\ e.ups = 0 /\ e.cap0 > e.cap1 /\ e.fn0 >= 0 /\ e.fn1 >= 0)
                  \/ LET ns == NodeUpper(o, e.sz)
                         moved == e.cap0 - e.cap1
                         arrived == (e.fn1 - e.fn0 + 1) * ns
                     IN arrived <= moved /\ moved < arrived + ns + 16 + 2 * fence,
                "C18", "ReservationArrivesInBucket", <<o.type, o.bd, e.sz, e.cap0, e.cap1, e.fn0, e.fn1>>)
       \* memory_pool::next_capacity(): "capacity_left() will increase by this amount" when the pool grows - the node
       \* that made it grow is taken from the new block.  (Small-node pools announce the remainder of a partial chunk
       \* in bytes, not in whole nodes: announced - brought stays below one node plus a chunk header there.)
       \cup Chk(~(o.fam = "pool" /\ ok /\ e.op = "n" /\ e.ups = 1 /\ e.upf = 0 /\ o.ns > 0)
                  \/ LET brought == e.cap1 - e.cap0 + o.ns
                     IN IF o.type = "small" THEN brought <= e.ncap0 /\ e.ncap0 < brought + o.ns + 64 ELSE brought = e.ncap0,
                "C18", "GrowthBringsWhatWasAnnounced", <<o.type, o.ns, e.cap0, e.cap1, e.ncap0>>)
       \* the composable interface of a collection never grows: a bucket that ran empty gets the default reservation
       \* (current block / number of buckets) or, when that does not fit any more, ALL that is left of the block -
       \* capacity_left() is 0 then, it does not keep reporting bytes that belong to the bucket
       \cup Chk(~(o.fam = "coll" /\ o.pools > 0 /\ o.defres = "yes" /\ e.t /\ e.ups = 0 /\ e.cap0 > e.cap1 /\ mine # {})
                  \/ LET defcap == (st.blocks[MaxOf(mine)].size - o.hdr) \div o.pools
                     IN e.cap0 - e.cap1 >= defcap \/ e.cap1 = 0,
                "C18", "TailHandedOverLeavesNothing", <<o.type, o.bd, e.cap0, e.cap1, o.pools, mine>>)
       \* a request that failed without obtaining a block consumed nothing: the figures stay as they were
       \* (a memory_stack that moved on to a cached block before it failed, and a collection that handed the rest
       \* of its block to the bucket before its source refused, did consume something: cap1 # cap0 there)
       \cup Chk(~(~ok /\ e.ups = e.upf /\ o.fam \in {"pool", "coll", "stack"} /\ e.cap1 = e.cap0 /\ ~e.mv) \/ e.ncap1 = e.ncap0,
                "C18", "FailedRequestKeepsNextCapacity", <<o.fam, o.srck, e.r, e.ncap0, e.ncap1>>)
       \cup Chk(~(~ok /\ e.ups = e.upf /\ o.fam = "pool") \/ e.cap1 = e.cap0,
                "C18", "FailedRequestKeepsCapacity", <<o.fam, o.srck, e.r, e.cap0, e.cap1>>)
       \* ---- C05: cached blocks are reused before the upstream is asked ----
       \cup Chk(~(o.fam = "stack" /\ e.ups > e.upf /\ o.curblk >= 0)
                  \/ \A i \in mine : (i <= o.curblk + 1 \/ i > Len(st.blocks) - (e.ups - e.upf)),
                "C05", "CacheReusedBeforeUpstream", <<o.curblk, mine>>)
       \* ---- C06: replay after unwind yields the same addresses ----
       \cup Chk(~(ok /\ sameReq) \/ (ex.b = e.b /\ ex.off = e.off), "C06", "ReplaySameAddresses", <<e.b, e.off, ex.b, ex.off>>)
       \cup NoStrayReports("alloc") \cup NoLeakReport("alloc"))

-----------------------------------------------------------------------------
(* release *)
OnFree(e) ==
  LET o == Obj(e.o)
      m == {a \in st.live : a.id = e.id}
  IN IF m = {} THEN Result([st EXCEPT !.pend = <<>>, !.inj = 0], {V("X", "HarnessReleasedUnknownId", <<e.id>>)})
     ELSE
     LET a == CHOOSE a \in m : TRUE
         refused == e.r = "false"
         need == CeilDiv(a.len, NodeUpper(o, a.sz))
         back == e.fn1 - e.fn0
         rest == {b \in st.live : b.o = e.o /\ b.id # e.id}
         nowEmpty == ~refused /\ rest = {}
         nst == [st EXCEPT
                   !.live = IF refused THEN @ ELSE @ \ {a},
                   !.pend = <<>>, !.inj = 0,
                   !.objs[e.o + 1].net = IF ~e.t /\ ~o.mem /\ HasLeakChecker(o) THEN @ - a.len ELSE @,
                   !.objs[e.o + 1].fnE = IF nowEmpty /\ o.fam = "pool" THEN Max(@, e.fn1) ELSE @]
     IN Result(nst,
          Chk(e.bad = 0, "C01", "ContentIntactAtRelease", <<o.fam, e.id, e.bad, e.first>>)
          \cup Chk(~e.t \/ e.r = "true", "C08", "TryDeallocTrueForOwn", <<o.fam, e.r, a.b, a.off>>)
          \cup Chk(e.r \in {"ok", "true", "false"}, "C03", "DeallocNeverThrows", <<o.fam, e.r>>)
          \cup Chk(~(IsPoolLike(o) /\ ~refused) \/ (IF a.exact THEN back = a.taken ELSE back >= need),
                   "C04", "DeallocReturnsWhatWasTaken", <<o.fam, a.op, a.n, a.sz, a.taken, back>>)
          \cup Chk(~(nowEmpty /\ o.fam = "pool") \/ e.fn1 >= o.fnE, "C04", "FullReleaseRestoresCapacity", <<e.fn1, o.fnE>>)
          \cup Chk(e.ups = 0, "C04", "ReleaseNeverGrows", <<o.fam, e.ups>>)
          \cup Chk(e.fdb \in {-1, 0}, "C17", "ReleasedMemoryIsFreedPatternExceptLinks", <<o.fam, e.fdb, e.fdl>>)
          \cup NoStrayReports("free") \cup NoLeakReport("free"))

-----------------------------------------------------------------------------
(* memory_stack: markers *)
OnMark(e) ==
  LET o == Obj(e.o)
  IN Result([st EXCEPT !.marks = IF e.m + 1 <= Len(@) THEN [@ EXCEPT ![e.m + 1] = [wm |-> e.wm, cap |-> e.cap, ncap |-> e.ncap, blk |-> o.curblk, clk |-> st.clk + 1]]
                                  ELSE Append(@, [wm |-> e.wm, cap |-> e.cap, ncap |-> e.ncap, blk |-> o.curblk, clk |-> st.clk + 1]),
                       !.clk = @ + 1, !.pend = <<>>, !.inj = 0],
            NoStrayReports("mark") \cup NoLeakReport("mark"))

OnUnwind(e) ==
  LET o == Obj(e.o)
      mk == st.marks[e.m + 1]
      dying == {a \in st.live : a.o = e.o /\ a.id > e.wm}
      keep == SelectSeq(st.slog, LAMBDA r : r.id <= e.wm)
      gone == SelectSeq(st.slog, LAMBDA r : r.id > e.wm)
      \* no failed, state-changing request since the marker was taken
      clean == \A t \in st.taint : t < mk.clk
      nst == [st EXCEPT !.live = @ \ dying, !.slog = keep, !.expect = IF clean THEN gone ELSE <<>>, !.eidx = 1,
                        !.taint = {t \in @ : t < mk.clk},      \* what happened after the marker is undone
                        !.objs[e.o + 1].curblk = mk.blk, !.pend = <<>>, !.inj = 0]
  IN Result(nst,
       Chk(e.r = "ok", "C06", "UnwindNeverThrows", <<e.r>>)
       \cup Chk(e.nbad = 0, "C01", "ContentIntactUntilUnwound", <<e.bad>>)
       \cup Chk(e.cap = mk.cap, "C06", "UnwindRestoresCapacity", <<e.m, e.cap, mk.cap>>)
       \* ... and what the next block will bring: the blocks taken since the marker wait in the cache, the first of them
       \* is the block that was next when the marker was taken (unless the cache was purged or the stack moved since)
       \cup Chk(mk.clk <= st.purged \/ e.ncap = mk.ncap, "C06", "UnwindRestoresNextCapacity", <<e.m, e.ncap, mk.ncap>>)
       \cup Chk(e.ufs = 0 /\ e.ups = 0, "C06", "UnwoundBlocksCached", <<e.ufs, e.ups>>)
       \cup NoStrayReports("unwind") \cup NoLeakReport("unwind"))

\* rows: <<mi, mj, bits, wmi, wmj>>; bit0 <, bit1 <=, bit2 ==, bit3 !=, bit4 >, bit5 >=
Bit(v, k) == (v \div (2 ^ k)) % 2 = 1
\* an allocation that is still on the stack lies between the two markers
Between(lo, hi) == \E i \in 1..Len(st.slog) : lo < st.slog[i].id /\ st.slog[i].id <= hi
RowOk(r) ==
  LET lt == Bit(r[3], 0) le == Bit(r[3], 1) eq == Bit(r[3], 2)
      ne == Bit(r[3], 3) gt == Bit(r[3], 4) ge == Bit(r[3], 5)
  IN /\ lt = ~ge /\ le = ~gt /\ eq = ~ne /\ le = (lt \/ eq)
     /\ (r[1] = r[2] => eq)
     /\ (r[1] < r[2] => le)
     /\ (r[1] > r[2] => ge)
     /\ (r[1] < r[2] /\ Between(r[4], r[5]) => lt)
     /\ (r[1] > r[2] /\ Between(r[5], r[4]) => gt)
OnCmp(e) ==
  Result([st EXCEPT !.pend = <<>>],
         UNION {Chk(RowOk(e.rows[i]), "C06", "MarkerOrderConsistent", e.rows[i]) : i \in 1..Len(e.rows)})

OnShrink(e) ==
  LET o == Obj(e.o)
      mine == LiveBlocksOf(st, o.src)
  IN Result([st EXCEPT !.expect = <<>>, !.eidx = 1, !.pend = <<>>, !.inj = 0, !.objs[e.o + 1].cach = <<>>,
                       !.clk = @ + 1, !.purged = st.clk + 1],
       Chk(\A i \in 1..Len(o.cach) : ~Blk(o.cach[i]).live, "C05", "ShrinkEmptiesCache", <<"arena", o.cach>>) \cup
       Chk(~(o.fam = "stack" /\ o.curblk >= 0) \/ \A i \in mine : i <= o.curblk + 1, "C05", "ShrinkEmptiesCache", <<o.curblk, mine>>)
       \cup NoStrayReports("shrink") \cup NoLeakReport("shrink"))

-----------------------------------------------------------------------------
(* iteration_allocator *)
OnNi(e) ==
  LET o == Obj(e.o)
      dying == {a \in st.live : a.o = e.o /\ a.g <= e.g - o.N}
      nst == [st EXCEPT !.live = @ \ dying, !.objs[e.o + 1].caps = e.caps, !.pend = <<>>, !.inj = 0]
  IN Result(nst,
       Chk(e.r = "ok", "C07", "NextIterationNeverThrows", <<e.r>>)
       \cup Chk(e.nbad = 0, "C07", "LivesNIterations", <<e.bad>>)
       \cup Chk(e.cur = e.g % o.N, "C07", "IterationAdvancesCyclically", <<e.cur, e.g, o.N>>)
       \cup Chk(Len(e.caps) = o.N /\ e.caps[e.cur + 1] = o.cap0s[e.cur + 1], "C07", "SwitchRestoresFullCapacity", <<e.cur, e.caps, o.cap0s>>)
       \cup Chk(Len(e.caps) = o.N /\ \A i \in 1..o.N : i = e.cur + 1 \/ e.caps[i] = o.caps[i], "C07", "OtherRegionsUntouched", <<e.caps, o.caps>>)
       \cup NoStrayReports("ni") \cup NoLeakReport("ni"))

-----------------------------------------------------------------------------
(* moves and destruction *)
OnMove(e) ==
  LET from == Obj(e.from)
      moveLive == {IF a.o = e.from THEN [a EXCEPT !.o = e.to] ELSE a : a \in st.live}
      srcBlocks == {i \in st.snap : st.blocks[i].src = from.src /\ ~st.blocks[i].st}
      kept == \A i \in srcBlocks : st.blocks[i].live
  IN IF e.k = "ctor"
     THEN Result([st EXCEPT !.objs = Append([@ EXCEPT ![e.from + 1].status = "moved", ![e.from + 1].net = 0], from),
                            !.live = moveLive, !.pend = <<>>, !.inj = 0],
            Chk(e.r = "ok", "C12", "MoveNeverThrows", <<e.r>>)
            \cup Chk(e.ufs = 0 /\ e.ups = 0, "C12", "MoveCtorNoUpstreamTraffic", <<e.ufs, e.ups>>)
            \cup NoStrayReports("move") \cup NoLeakReport("move"))
     ELSE LET to == Obj(e.to)
              \* a moved-from target (command mz) holds nothing; its record still names the source that travelled on
              old == IF to.status = "moved" THEN {} ELSE LiveBlocksOf(st, to.src)
          IN Result([st EXCEPT !.objs[e.to + 1] = from, !.objs[e.from + 1].status = "moved",
                               !.objs[e.from + 1].net = 0,
                               !.live = moveLive, !.pend = <<>>, !.inj = 0],
               Chk(e.r = "ok", "C12", "MoveNeverThrows", <<e.r>>)
               \cup Chk(old = {}, "C12", "AssignReleasesOldOnce", <<to.fam, old>>)
               \* every block the source held (used or cached) travels with the move
               \cup Chk(kept, "C12", "MoveKeepsSourceBlocks", <<from.fam, srcBlocks>>)
               \cup Chk(kept \/ from.fam # "stack", "C06", "UnwoundBlocksCached", <<"move", srcBlocks>>)
               \cup Chk(kept, "C05", "CachedBlocksReturnedOnlyByShrinkOrDestroy", <<from.fam, srcBlocks>>)
               \cup Chk(e.ups = 0, "C12", "MoveAssignNoUpstreamAllocation", <<e.ups>>)
               \cup NoStrayReports("move") \cup NoLeakReport("move"))

OnDestroy(e) ==
  LET o == Obj(e.o)
      mine == LiveBlocksOf(st, o.src)
      reps == {i \in PendK("leak") : st.pend[i].o = e.o}
      others == PendK("leak") \ reps
      nst == [st EXCEPT !.objs[e.o + 1].status = "dead", !.pend = <<>>, !.inj = 0,
                        !.live = {a \in @ : a.o # e.o}]
  IN IF e.mf
     THEN Result(nst,
            Chk(e.r = "ok", "C12", "MovedFromIsHarmless", <<o.fam, e.r>>)
            \cup Chk(e.ufs = 0, "C12", "MovedFromReleasesNothing", <<o.fam, e.ufs>>)
            \cup Chk(PendK("leak") = {}, "C15", "MovedFromSilent", <<o.fam>>)
            \cup NoStrayReports("destroy"))
     ELSE Result(nst,
            Chk(e.r = "ok", "C05", "DestroyNeverThrows", <<e.r>>)
            \cup Chk(mine = {}, "C05", "AllReturnedAtDestroy", <<o.fam, mine>>)
            \cup Chk(~HasLeakChecker(o) \/ (IF o.net = 0 THEN reps = {} ELSE Cardinality(reps) = 1),
                     "C15", "ReportIffNonZero", <<o.fam, o.net, Cardinality(reps)>>)
            \cup Chk(~HasLeakChecker(o) \/ \A i \in reps : st.pend[i].amt = o.net, "C15", "ReportAmountIsNet", <<o.fam, o.net, {st.pend[i].amt : i \in reps}>>)
            \cup Chk(HasLeakChecker(o) \/ reps = {}, "C15", "NoReportWithoutChecker", <<o.fam>>)
            \cup Chk(others = {}, "C15", "ReportOnlyForDestroyedObject", <<o.fam>>)
            \cup NoStrayReports("destroy"))

(* sibling allocator: its allocations are live memory the subject does not own (C08) *)
OnSalloc(e) ==
  LET rec == [id |-> e.id, o |-> e.o, b |-> e.b, off |-> e.off, len |-> e.len, op |-> "n", n |-> 1, sz |-> e.sz,
              al |-> e.al, t |-> FALSE, taken |-> 0, exact |-> FALSE, g |-> 0]
      clash == {a \in st.live : Overlap(a, rec)}
  IN IF e.r = "ok" /\ e.id > 0
     THEN Result([st EXCEPT !.live = @ \cup {rec}, !.pend = <<>>, !.inj = 0],
            Chk(clash = {}, "C01", "DisjointFromLive", <<"sibling", e.b, e.off, e.len, {a.id : a \in clash}>>))
     ELSE Result([st EXCEPT !.pend = <<>>, !.inj = 0], {})
OnSfree(e) == Result([st EXCEPT !.live = {a \in @ : a.id # e.id}, !.pend = <<>>, !.inj = 0], {})
OnTdx(e) ==
  Result([st EXCEPT !.pend = <<>>, !.inj = 0],
    Chk(e.r = "false", "C08", "TryDeallocFalseForForeign", <<Obj(e.o).fam, e.r, e.b, e.off>>)
    \cup Chk(e.cap0 = e.cap1 /\ e.fn0 = e.fn1, "C08", "FalseChangesNothing", <<e.cap0, e.cap1, e.fn0, e.fn1>>)
    \cup Chk(e.bad = 0, "C08", "ForeignMemoryUntouched", <<e.id, e.bad>>)
    \cup NoStrayReports("tdx"))

(* memory_arena driven directly (C05, C08, C18) *)
Front(q) == SubSeq(q, 1, Len(q) - 1)
LastOf(q) == q[Len(q)]
OnAblk(e) ==
  LET o == Obj(e.o)
      fromCache == o.cach # <<>>
      newest == Len(st.blocks) - 1
      exp == IF fromCache THEN LastOf(o.cach) ELSE newest
      ok == e.r = "ok"
      used2 == IF ok THEN Append(o.used, e.b) ELSE o.used
      cach2 == IF ok /\ fromCache THEN Front(o.cach) ELSE o.cach
  IN Result([st EXCEPT !.objs[e.o + 1].used = used2, !.objs[e.o + 1].cach = cach2, !.pend = <<>>, !.inj = 0],
       Chk(ok \/ e.r \in OomFamily \/ (e.r = "throw:injected" /\ st.inj > 0), "C03", "ThrowIsLibraryFamily", <<"arena", e.r>>)
       \cup Chk(~(e.r \in OomFamily) \/ (st.hdef \/ PendK("oom") # {}), "C03", "HandlerCalledFirst", <<"arena", e.r>>)
       \cup Chk(~(e.r \in OomFamily) \/ Justified(o, LiveBlocksOf(st, o.src)), "C03", "FailureIsJustified",
                <<"arena", o.srck, e.r, LiveBlocksOf(st, o.src)>>)
       \cup Chk(~(ok /\ fromCache) \/ e.ups = 0, "C05", "CacheReusedBeforeUpstream", <<o.cach, e.ups>>)
       \cup Chk(~ok \/ e.b = exp, "C05", "CachedBlocksComeBackInOrder", <<e.b, exp, o.cach>>)
       \cup Chk(~ok \/ (HasBlk(e.b) /\ Blk(e.b).live /\ Blk(e.b).src = o.src /\ e.off = o.hdr /\ e.size = Blk(e.b).size - o.hdr),
                "C05", "ArenaBlockIsUpstreamBlockMinusHeader", <<e.b, e.off, e.size>>)
       \cup Chk(e.asz1 = Len(used2) /\ e.csz1 = Len(cach2) /\ e.acap1 = Len(used2) + Len(cach2), "C18", "ArenaCountersExact",
                <<e.asz1, e.csz1, e.acap1, Len(used2), Len(cach2)>>)
       \cup Chk(ok \/ (e.asz1 = e.asz0 /\ e.csz1 = e.csz0), "C05", "FailureLeavesStackIntact", <<e.asz0, e.asz1, e.csz0, e.csz1>>)
       \cup Chk(~ok \/ e.owns, "C08", "ArenaOwnsExactlyUsedBlocks", <<"fresh block not owned", e.b>>)
       \cup Chk(~(ok /\ cach2 # <<>>) \/ e.nbs1 = Blk(LastOf(cach2)).size - o.hdr, "C18", "NextBlockSizeIsCachedBlock", <<e.nbs1, cach2>>)
       \cup NoStrayReports("ablk") \cup NoLeakReport("ablk"))
OnDblk(e) ==
  LET o == Obj(e.o)
      top == LastOf(o.used)
      used2 == Front(o.used)
      cach2 == IF o.acached THEN Append(o.cach, top) ELSE o.cach
  IN IF o.used = <<>> THEN Result(st, {V("X", "ArenaDeallocWithoutBlock", <<e.o>>)})
     ELSE Result([st EXCEPT !.objs[e.o + 1].used = used2, !.objs[e.o + 1].cach = cach2, !.pend = <<>>, !.inj = 0],
       Chk(e.r = "ok", "C05", "DeallocateBlockNeverThrows", <<e.r>>)
       \cup Chk(IF o.acached THEN e.ufs = 0 /\ Blk(top).live ELSE e.ufs = 1 /\ ~Blk(top).live, "C05", "DeallocatedBlockGoesToCacheOrSource", <<o.acached, e.ufs, top>>)
       \cup Chk(e.asz1 = Len(used2) /\ e.csz1 = Len(cach2) /\ e.acap1 = Len(used2) + Len(cach2), "C18", "ArenaCountersExact",
                <<e.asz1, e.csz1, e.acap1, Len(used2), Len(cach2)>>)
       \cup NoStrayReports("dblk") \cup NoLeakReport("dblk"))
OnAown(e) ==
  LET o == Obj(e.o)
      inUsed == \E i \in 1..Len(o.used) : o.used[i] = e.b
      should == inUsed /\ e.off >= o.hdr /\ e.off < e.bsize
  IN Result(st, Chk(e.res = should, "C08", "ArenaOwnsExactlyUsedBlocks", <<e.b, e.off, e.bsize, e.res, should>>))
OnSwap(e) ==
  LET a == Obj(e.a) c == Obj(e.c)
  IN Result([st EXCEPT !.objs[e.a + 1] = c, !.objs[e.c + 1] = a, !.pend = <<>>, !.inj = 0],
       Chk(e.r = "ok", "C12", "SwapNeverThrows", <<e.r>>) \cup NoStrayReports("swap") \cup NoLeakReport("swap"))

(* draining: the reported number of free nodes is what can actually be obtained without growing *)
OnDrain(e) ==
  LET o == Obj(e.o)
      \* a collection may carve more nodes for the bucket out of the current block while draining
      exactly == o.fam = "pool"
  IN Result([st EXCEPT !.pend = <<>>, !.inj = 0],
       Chk(e.r \in {"ok"}, "C03", "TryNeverThrows", <<"drain", e.r>>)
       \cup Chk(e.ups = 0, "C03", "TryNeverGrows", <<"drain", e.ups>>)
       \cup Chk(IF exactly THEN e.got = e.fn0 ELSE e.got >= e.fn0, "C04", "ReportedCapacityIsUsable", <<o.fam, e.sz, e.fn0, e.got>>)
       \cup Chk(e.inside = e.got, "C01", "InsideOwned", <<"drain", e.got, e.inside>>)
       \cup Chk(~exactly \/ e.fn1 = 0, "C04", "CapacityMovesByTaken", <<"drain", e.fn1>>)
       \cup Chk(IF exactly THEN e.fn2 = e.fn0 ELSE e.fn2 >= e.fn0, "C04", "DeallocReturnsWhatWasTaken", <<"drain", e.fn0, e.fn2>>)
       \cup NoStrayReports("drain") \cup NoLeakReport("drain"))

OnSweep(e) ==
  Result([st EXCEPT !.pend = <<>>],
         Chk(e.nbad = 0, "C01", "ContentIntactAtSweep", <<e.bad>>)
         \cup Chk(e.gd = 0, "C01", "NoWriteOutsideOwnedBlocks", <<e.gd>>)
         \cup Chk(e.dd = 0, "C12", "NoWriteIntoReturnedBlocks", <<e.dd>>))

OnDied(e) ==
  Result([st EXCEPT !.over = TRUE], {V("ANY", "NoCrash", <<e.how, e.code>>)})

(* memory_pool_collection::reserve(node_size, capacity): "puts capacity bytes from the arena onto the free list":   *)
(* what leaves capacity_left() (or comes with a new block) arrives in pool_capacity_left() of that bucket             *)
OnReserve(e) ==
  LET o == Obj(e.o)
      ns == NodeUpper(o, e.sz)
      fence == cfg.fence
      okr == e.r = "ok"
  IN Result([st EXCEPT !.pend = <<>>, !.inj = 0],
       Chk(~(okr /\ o.type # "small" /\ e.fn0 >= 0 /\ e.fn1 >= 0) \/ e.fn1 - e.fn0 >= e.req \div (ns + 2 * fence),
           "C18", "ReservedMemoryArrivesInBucket", <<o.type, o.bd, e.sz, e.req, e.fn0, e.fn1, e.cap0, e.cap1>>)
       \cup Chk(~(okr /\ o.type = "small" /\ e.req >= 2 * ns + 64 /\ e.fn0 >= 0) \/ e.fn1 > e.fn0,
                "C18", "ReservedMemoryArrivesInBucket", <<o.type, o.bd, e.sz, e.req, e.fn0, e.fn1>>)
       \* (a request that cannot hold a single node reserves nothing)
       \cup Chk(~(okr /\ e.ups = 0 /\ o.type # "small" /\ e.fn0 >= 0 /\ e.fn1 > e.fn0) \/ e.cap0 - e.cap1 >= (e.fn1 - e.fn0) * ns,
                "C18", "ReservationLeavesCapacityLeft", <<e.req, e.cap0, e.cap1, e.fn0, e.fn1>>)
       \cup Chk(okr \/ e.r \in OomFamily \cup SizeFamily \/ (e.r = "throw:injected" /\ e.upf > 0), "C03", "ThrowIsLibraryFamily", <<"reserve", e.r>>)
       \cup NoStrayReports("reserve") \cup NoLeakReport("reserve"))

OnEnd(e) ==
  LET left == {i \in 1..Len(st.blocks) : st.blocks[i].live /\ ~st.blocks[i].st}
  IN Result(st, Chk(left = {}, "C05", "NoBlockLeftAtEnd", <<left>>)
                \cup Chk(st.vmPend = {}, "C05", "VmReturnedBlockDecommitted", <<st.vmPend>>)
                \cup Chk(\A i \in 1..Len(st.vm) : ~st.vm[i].live, "C05", "VmAllReleasedAtEnd",
                         <<{i - 1 : i \in {j \in 1..Len(st.vm) : st.vm[j].live}}>>))

-----------------------------------------------------------------------------
Apply(e) ==
  CASE e.e = "ua" -> OnUa(e)
    [] e.e = "ux" -> OnUx(e)
    [] e.e = "uf" -> OnUf(e)
    [] e.e = "vm" -> OnVm(e)
    [] e.e = "h" -> OnH(e)
    \* set_handler(nullptr) selects the default handler: the getters never return null, failures are still thrown
    [] e.e = "hmode" -> Result([st EXCEPT !.hdef = e.def],
                               Chk(e.nonnull, "C03", "HandlerNeverNull", <<e.def>>))
    [] e.e = "new" -> OnNew(e)
    [] e.e = "alloc" -> OnAlloc(e)
    [] e.e = "free" -> OnFree(e)
    [] e.e = "mark" -> OnMark(e)
    [] e.e = "unwind" -> OnUnwind(e)
    [] e.e = "cmp" -> OnCmp(e)
    [] e.e = "shrink" -> OnShrink(e)
    [] e.e = "ni" -> OnNi(e)
    [] e.e = "move" -> OnMove(e)
    [] e.e = "destroy" -> OnDestroy(e)
    [] e.e = "sweep" -> OnSweep(e)
    [] e.e = "drain" -> OnDrain(e)
    [] e.e = "reserve" -> OnReserve(e)
    [] e.e = "ablk" -> OnAblk(e)
    [] e.e = "dblk" -> OnDblk(e)
    [] e.e = "aown" -> OnAown(e)
    [] e.e = "swap" -> OnSwap(e)
    [] e.e = "salloc" -> OnSalloc(e)
    [] e.e = "sfree" -> OnSfree(e)
    [] e.e = "tdx" -> OnTdx(e)
    [] e.e = "died" -> OnDied(e)
    [] e.e = "terminate" -> Result(st, {V("ANY", "NoTerminate", <<>>)})
    [] e.e = "end" -> OnEnd(e)
    [] OTHER -> Result(st, {V("X", "UnknownEvent", <<e.e>>)})

Init == l = 1 /\ x = -1 /\ cfg = [leak |-> 0, fence |-> 0, fill |-> 0] /\ st = FreshState /\ viol = {}

Step ==
  /\ l <= Len(Tr)
  /\ LET e == Tr[l] IN
       IF e.e = "cfg" THEN cfg' = e /\ UNCHANGED <<x, st, viol>>
       ELSE IF e.e = "x" THEN x' = e.n /\ st' = FreshState /\ UNCHANGED <<cfg, viol>>
       ELSE LET res == Apply(e)
                isCall == e.e \notin {"ua", "uf", "ux", "h", "vm"}
                live2 == {i \in 1..Len(res.s.blocks) : res.s.blocks[i].live}
            IN /\ st' = IF isCall THEN [res.s EXCEPT !.snap = live2] ELSE res.s
               /\ viol' = viol \cup (IF "ovf" \in DOMAIN e THEN {V("ANY", "ValueInRange", <<e.e>>)} ELSE {}) \cup res.v
               /\ UNCHANGED <<x, cfg>>
  /\ l' = l + 1
  /\ (l' = Len(Tr) + 1) => PrintT(<<"VERDICT", ToJson([lines |-> Len(Tr), viol |-> viol'])>>)

Spec == Init /\ [][Step]_vars

TraceAccepted == TLCGet("stats").diameter - 1 = Len(Tr)
=============================================================================
