---------------------------- MODULE ContainerTrace ----------------------------
(***************************************************************************)
(* Contract specification for C10 (standard containers on RawAllocators    *)
(* return every node to the allocator it came from), bound to the driver   *)
(* "containers".  Abstract state: for each of the three container slots    *)
(* the allocator object it must be bound to according to the propagation   *)
(* rules of std_allocator (all three propagate_on_container_* are true and *)
(* copy construction keeps the allocator), and per allocator object the    *)
(* memory it has handed out and not got back.                              *)
(***************************************************************************)
EXTENDS Naturals, Integers, Sequences, FiniteSets, TLC, Json, IOUtils
TraceFile == IF "TRACE" \in DOMAIN IOEnv THEN IOEnv.TRACE ELSE "trace.ndjson"
Tr == ndJsonDeserialize(TraceFile)
VARIABLES l, x, cfg, st, viol
vars == <<l, x, cfg, st, viol>>
V(p, r, i) == [prop |-> p, rule |-> r, line |-> l, exec |-> x, info |-> ToString(i)]
Chk(c, p, r, i) == IF c THEN {} ELSE {V(p, r, i)}
Result(s, v) == [s |-> s, v |-> v]
FreshState == [bound |-> <<-1, -1, -1>>, leafLive |-> {}, prop |-> 7, single |-> FALSE]
Pocca == st.prop % 2 = 1
Pocma == (st.prop \div 2) % 2 = 1
Pocs == (st.prop \div 4) % 2 = 1

\* the binding each operation must produce
Expected(b, e) ==
  CASE e.op = "init" -> IF st.single THEN <<0, 0, -1>> ELSE <<0, 1, -1>>
    [] e.op = "new" -> [b EXCEPT ![e.a + 1] = e.c]
    [] e.op \in {"cpy", "mov"} -> [b EXCEPT ![e.c + 1] = b[e.a + 1]]
    [] e.op = "cas" -> IF Pocca THEN [b EXCEPT ![e.c + 1] = b[e.a + 1]] ELSE b
    [] e.op = "mas" -> IF Pocma THEN [b EXCEPT ![e.c + 1] = b[e.a + 1]] ELSE b
    \* without propagation a swap of containers with different allocators is not allowed (the plan never does it)
    [] e.op = "swp" -> IF Pocs THEN [b EXCEPT ![e.a + 1] = b[e.c + 1], ![e.c + 1] = b[e.a + 1]] ELSE b
    [] e.op = "del" -> [b EXCEPT ![e.a + 1] = -1]
    [] OTHER -> b

OnCop(e) ==
  LET exp == Expected(st.bound, e)
  IN Result([st EXCEPT !.bound = exp],
       Chk(e.bind = exp, "C10", "BoundAsPropagationSays", <<e.op, e.a, e.c, e.bind, exp>>)
       \cup Chk(\A i \in 1..3 : e.twin[i], "C10", "ContentsMatchTwin", <<e.op, e.a, e.c, e.twin>>))

OnLeaf(e) ==
  LET rec == [L |-> e.L, b |-> e.b, off |-> e.off, kind |-> IF e.op \in {"an", "dn"} THEN "n" ELSE "a", n |-> e.n, sz |-> e.sz, al |-> e.al]
      mine == {a \in st.leafLive : a.b = e.b /\ a.off = e.off}
  IN IF e.op \in {"an", "aa"}
     THEN Result([st EXCEPT !.leafLive = @ \cup {rec}], {})
     ELSE Result([st EXCEPT !.leafLive = @ \ {a \in mine : a.L = e.L}],
            \* released to the allocator object it came from, exactly once ...
            Chk(e.r = "ok" /\ \E a \in mine : a.L = e.L, "C10", "ReleaseSameLeaf", <<e.L, e.op, {a.L : a \in mine}>>)
            \* ... with the shape it was requested with
            \cup Chk(e.r # "ok" \/ \A a \in mine : a.L # e.L \/ (a.kind = rec.kind /\ a.n = rec.n /\ a.sz = rec.sz /\ a.al = rec.al),
                     "C10", "ReleaseSameShape", <<rec, mine>>))

OnCeq(e) == Result(st, Chk((e.eq = 1) = (e.ba = e.bc), "C10", "EqIffInterchangeable", <<e.eq, e.ba, e.bc>>))

OnCend(e) ==
  Result(st,
    Chk(e.leaf_live = 0 /\ st.leafLive = {}, "C10", "EveryNodeReturned", <<e.name, e.leaf_live>>)
    \cup Chk(e.constant = 0 \/ e.max_node_req <= e.constant, "C10", "NodeRequestWithinConstant", <<e.name, e.max_node_req, e.constant>>))

\* a pool created with the library's node size constant serves the container
\* ... and every element it holds lies at an address its type is aligned for
OnPoolrun(e) == Result(st, Chk(e.r = "ok" /\ e.mis = 0, "C10", "PoolWithNodeSizeConstantServes", <<e.cont, e.pool, e.tsize, e.talign, e.constant, e.r, e.mis>>))

Apply(e) ==
  CASE e.e = "cbox" -> Result([st EXCEPT !.prop = e.prop, !.single = e.single], Chk(e.ok, "X", "UnknownContainer", <<e.name>>))
    [] e.e = "cop" -> OnCop(e)
    [] e.e = "leaf" -> OnLeaf(e)
    [] e.e = "ceq" -> OnCeq(e)
    [] e.e = "cend" -> OnCend(e)
    [] e.e = "poolrun" -> OnPoolrun(e)
    [] e.e \in {"ua", "uf", "ux"} -> Result(st, {})
    [] e.e = "h" -> Result(st, Chk(e.k \notin {"invptr", "overflow", "leak"}, "C10", "NoReportDuringContainerUse", <<e.k>>))
    [] e.e = "died" -> Result(st, {V("ANY", "NoCrash", <<e.how, e.code>>)})
    [] e.e = "terminate" -> Result(st, {V("ANY", "NoTerminate", <<>>)})
    [] OTHER -> Result(st, {V("X", "UnknownEvent", <<e.e>>)})

Init == l = 1 /\ x = -1 /\ cfg = [leak |-> 0] /\ st = FreshState /\ viol = {}
Step ==
  /\ l <= Len(Tr)
  /\ LET e == Tr[l] IN
       IF e.e = "cfg" THEN cfg' = e /\ UNCHANGED <<x, st, viol>>
       ELSE IF e.e = "x" THEN x' = e.n /\ st' = FreshState /\ UNCHANGED <<cfg, viol>>
       ELSE LET res == Apply(e) IN st' = res.s /\ viol' = viol \cup res.v /\ UNCHANGED <<x, cfg>>
  /\ l' = l + 1
  /\ (l' = Len(Tr) + 1) => PrintT(<<"VERDICT", ToJson([lines |-> Len(Tr), viol |-> viol'])>>)
Spec == Init /\ [][Step]_vars
TraceAccepted == TLCGet("stats").diameter - 1 = Len(Tr)
=============================================================================
