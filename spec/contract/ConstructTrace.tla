--------------------------- MODULE ConstructTrace ---------------------------
(***************************************************************************)
(* Contract specification for the object-creating helpers of               *)
(* foonathan/memory (allocate_unique, allocate_unique<T[]>,                *)
(* allocate_shared, joint_ptr creation, clone_joint, the joint_array       *)
(* constructors) and for joint allocations, bound to the implementation    *)
(* by trace validation: the harness driver "construct" records one event   *)
(* per construction / destruction of an instrumented element, per call of  *)
(* an instrumented RawAllocator, per joint object and per helper call;     *)
(* this module replays the trace.                                          *)
(*                                                                         *)
(* Abstract state: the elements constructed and not yet destroyed, the     *)
(* bag of destroyed elements, the live allocations of the allocator the    *)
(* helpers were given (with their shape: node/array, count, size,          *)
(* alignment), the joint objects with the single block each one lives in,  *)
(* and which result slot owns which joint object.  Every action is total;  *)
(* each clause of C20 / C11 is a named guard.  Nothing else is             *)
(* constrained: order of destruction, layout of the pieces inside the      *)
(* block, how much a helper allocates.                                     *)
(***************************************************************************)
EXTENDS Naturals, Integers, Sequences, FiniteSets, TLC, Json, IOUtils

TraceFile == IF "TRACE" \in DOMAIN IOEnv THEN IOEnv.TRACE ELSE "trace.ndjson"
Tr == ndJsonDeserialize(TraceFile)

VARIABLES l,     \* next trace line
          x,     \* current execution number
          cfg,   \* build configuration of the library under observation
          st,    \* abstract state of the current execution
          viol   \* set of false guards found so far

vars == <<l, x, cfg, st, viol>>

-----------------------------------------------------------------------------
V(p, r, i) == [prop |-> p, rule |-> r, line |-> l, exec |-> x, info |-> ToString(i)]
Chk(c, p, r, i) == IF c THEN {} ELSE {V(p, r, i)}
Result(s, v) == [s |-> s, v |-> v]

NoCall == [c |-> -1, op |-> "none", s |-> -1, s2 |-> -1, form |-> -1, n |-> -1, k |-> 0, add |-> -1]

FreshState ==
  [blocks  |-> <<>>,   \* upstream blocks in order of acquisition: [size, al, live]
   leaf    |-> {},     \* live allocations handed to the helpers: [id, k, n, sz, al, b, off, len, c]
   con     |-> {},     \* elements constructed and not destroyed: [id, c] (c = call that built it, -1 driver)
   des     |-> <<>>,   \* bag of destroyed elements: serial -> number of destructions
   jobj    |-> <<>>,   \* joint objects by serial+1: [b, off, osz, lo, hi, la, c, live, copyof]
   own     |-> <<>>,   \* result slot -> joint object owned (-1 none); only joint_ptr slots
   cur     |-> NoCall, \* helper call in progress
   thr     |-> <<>>,   \* ids thrown by the element type during the call in progress
   jdc     |-> {},     \* joint objects destroyed during the call in progress
   foreign |-> 0]      \* elements built before the call and destroyed during it

Creating == {"uniq", "arr", "shared", "joint", "clone", "jmove", "ja"}
Jointish == {"joint", "clone", "jmove", "ja", "jraw", "vpush", "vmove"}
Benign == {"ok", "empty", "kind"}   \* "empty"/"kind": the command found nothing to act on

HasBlk(b) == b >= 0 /\ b < Len(st.blocks)
Blk(b) == st.blocks[b + 1]
HasJ(j) == j >= 0 /\ j < Len(st.jobj)
JObj(j) == st.jobj[j + 1]
Own(s) == IF s \in DOMAIN st.own THEN st.own[s] ELSE -1
LeafIds == {a.id : a \in st.leaf}
Overlap(b1, o1, n1, b2, o2, n2) == b1 = b2 /\ n1 > 0 /\ n2 > 0 /\ o1 < o2 + n2 /\ o2 < o1 + n1

-----------------------------------------------------------------------------
(* upstream of the leaf / of the real allocators *)
OnUa(e) == Result([st EXCEPT !.blocks = Append(@, [size |-> e.sz, al |-> e.al, live |-> TRUE])], {})

OnUf(e) ==
  IF e.b < 0 \/ ~HasBlk(e.b)
  THEN Result(st, {V("C05", "NoUnknownOrDoubleReturn", <<e.s, e.sz>>)})
  ELSE Result([st EXCEPT !.blocks[e.b + 1].live = FALSE], {})

-----------------------------------------------------------------------------
(* the allocator the helpers use *)
OnLa(e) ==
  LET rec == [id |-> e.id, k |-> e.k, n |-> e.n, sz |-> e.sz, al |-> e.al, b |-> e.b,
              off |-> e.off, len |-> e.len, c |-> st.cur.c]
      ok == e.r = "ok"
      \* an allocation of no bytes occupies nothing (and cannot be attributed to a block)
      inside == e.len = 0 \/ (HasBlk(e.b) /\ Blk(e.b).live /\ e.off >= 0 /\ e.off + e.len <= Blk(e.b).size)
      clash == {a \in st.leaf : Overlap(a.b, a.off, a.len, e.b, e.off, e.len)}
  IN Result([st EXCEPT !.leaf = IF ok THEN @ \cup {rec} ELSE @],
       Chk(~ok \/ inside, "C20", "LeafInsideOwned", <<e.k, e.n, e.sz, e.al, e.b, e.off>>)
       \cup Chk(~ok \/ clash = {}, "C20", "LeafDisjoint", <<e.k, e.n, e.sz, e.b, e.off, {a.id : a \in clash}>>)
       \cup Chk(~ok \/ e.mis = 0, "C20", "LeafAligned", <<e.k, e.sz, e.al, e.mis>>))

OnLf(e) ==
  LET m == {a \in st.leaf : a.id = e.id}
  IN IF e.id < 0 \/ m = {}
     THEN Result(st, {V("C20", "MemoryReturnedSameShape", <<"unknown or repeated release", e.k, e.n, e.sz, e.al, e.b, e.off>>),
                      V("C11", "BlockReleasedOnceSameSizeAlign", <<"unknown or repeated release", e.k, e.n, e.sz, e.al, e.b, e.off>>)})
     ELSE LET a == CHOOSE a \in m : TRUE
              same == e.k = a.k /\ e.n = a.n /\ e.sz = a.sz /\ e.al = a.al
              js == {j \in 0..(Len(st.jobj) - 1) : JObj(j).la = a.id}
              alive == {j \in js : JObj(j).live}
          IN Result([st EXCEPT !.leaf = @ \ {a}],
               Chk(same, "C20", "MemoryReturnedSameShape", <<"got", a.k, a.n, a.sz, a.al, "released", e.k, e.n, e.sz, e.al>>)
               \cup (IF js = {} THEN {} ELSE
                       Chk(same, "C11", "BlockReleasedOnceSameSizeAlign", <<"got", a.sz, a.al, "released", e.sz, e.al, e.k>>)
                       \cup Chk(alive = {}, "C11", "ObjectDestroyedOnce", <<"block released while the object is alive", alive>>)))

-----------------------------------------------------------------------------
(* the instrumented element type *)
OnCtor(e) ==
  LET known == e.id \in DOMAIN st.des \/ \E r \in st.con : r.id = e.id
  IN Result([st EXCEPT !.con = @ \cup {[id |-> e.id, c |-> st.cur.c]}],
       Chk(~known, "X", "SerialReused", <<e.id>>)
       \cup Chk(e.dup = -1, "C20", "ConstructedOnceOnSuccess", <<"constructed over live element", e.dup, e.id, st.cur.op>>))

OnDtor(e) ==
  LET m == {r \in st.con : r.id = e.id}
  IN IF e.id < 0 \/ m = {}
     THEN Result([st EXCEPT !.des = IF e.id \in DOMAIN @ THEN [@ EXCEPT ![e.id] = @ + 1] ELSE @],
                 {V("C20", "NoDestroyOfUnconstructed", <<e.id, e.b, e.off, st.cur.op>>)})
     ELSE LET r == CHOOSE r \in m : TRUE
          IN Result([st EXCEPT !.con = @ \ {r}, !.des = (e.id :> 1) @@ @,
                               !.foreign = IF st.cur.op \in Creating /\ r.c # st.cur.c THEN @ + 1 ELSE @],
                    \* the element is destroyed while it still is the object that was constructed, i.e.
                    \* before its storage is given back
                    Chk(e.intact, "C20", "DestroyedBeforeMemoryReturned", <<e.id, e.b, e.off, st.cur.op>>))

OnThrowpt(e) == Result([st EXCEPT !.thr = Append(@, e.id)], {})

-----------------------------------------------------------------------------
(* joint objects *)
OnJctor(e) ==
  LET L == {a \in st.leaf : a.b = e.b /\ a.off <= e.off /\ e.off + e.osz <= a.off + a.len}
      a == CHOOSE a \in L : TRUE
      rec == [b |-> e.b, off |-> e.off, osz |-> e.osz,
              lo |-> IF L = {} THEN 0 ELSE a.off, hi |-> IF L = {} THEN 0 ELSE a.off + a.len,
              la |-> IF L = {} THEN -1 ELSE a.id, c |-> st.cur.c, live |-> TRUE, copyof |-> e.copyof]
  IN Result([st EXCEPT !.jobj = Append(@, rec)],
       Chk(e.j = Len(st.jobj), "X", "JointSerialOutOfOrder", <<e.j>>)
       \cup Chk(L # {}, "C11", "PieceAfterObjectInsideBlock", <<"object not inside an allocation of its allocator", e.b, e.off, e.osz>>)
       \cup Chk(e.omis = 0, "C11", "PieceAligned", <<"object", e.oal, e.omis>>))

OnJdtor(e) ==
  IF ~HasJ(e.j) THEN Result(st, {V("C11", "ObjectDestroyedOnce", <<"unknown object", e.j>>)})
  ELSE Result([st EXCEPT !.jobj[e.j + 1].live = FALSE, !.jdc = @ \cup {e.j}],
              Chk(JObj(e.j).live, "C11", "ObjectDestroyedOnce", <<"destroyed again", e.j>>))

\* ps: sequence of <<tag, offset relative to the object, length, alignment, address mod alignment>>
OnPieces(e) ==
  IF ~HasJ(e.j) THEN Result(st, {V("X", "PiecesOfUnknownObject", <<e.j>>)})
  ELSE
  LET o == JObj(e.j)
      ps == e.ps
      I == 1..Len(ps)
      Abs(i) == o.off + ps[i][2]
      inside(i) == o.la >= 0 /\ Abs(i) >= o.off + o.osz /\ Abs(i) + ps[i][3] <= o.hi
      outs == {i \in I : ~inside(i)}
      clashes == {<<i, k>> \in I \X I : i < k /\ Overlap(0, Abs(i), ps[i][3], 0, Abs(k), ps[k][3])}
      misal == {i \in I : ps[i][5] # 0}
  IN Result(st,
       Chk(outs = {}, "C11", "PieceAfterObjectInsideBlock", <<e.j, {ps[i] : i \in outs}, o.osz, o.hi - o.off>>)
       \cup Chk(outs = {} \/ o.copyof < 0, "C11", "CloneIndependent", <<"piece outside the block of the copy", e.j, {ps[i] : i \in outs}>>)
       \cup Chk(clashes = {}, "C11", "PiecesDisjoint", <<e.j, {<<ps[p[1]], ps[p[2]]>> : p \in clashes}>>)
       \cup Chk(misal = {}, "C11", "PieceAligned", <<e.j, {ps[i] : i \in misal}>>))

-----------------------------------------------------------------------------
(* helper calls *)
OnCall(e) ==
  Result([st EXCEPT !.cur = [c |-> e.c, op |-> e.op, s |-> e.s, s2 |-> e.s2, form |-> e.form,
                             n |-> e.n, k |-> e.k, add |-> e.add],
                    !.thr = <<>>, !.jdc = {}, !.foreign = 0],
         Chk(st.cur.op = "none", "X", "NestedCall", <<st.cur.op, e.op>>))

OnRet(e) ==
  LET c == st.cur
      ok == e.r = "ok"
      injected == e.r = "throw:injected"
      failed == ~(e.r \in Benign)
      creating == e.op \in Creating
      jointish == e.op \in Jointish
      mineE == {r \in st.con : r.c = e.c}
      mineL == {a \in st.leaf : a.c = e.c}
      mineJ == {j \in 0..(Len(st.jobj) - 1) : JObj(j).c = e.c /\ JObj(j).live}
      rolledBack == {j \in st.jdc : JObj(j).c = e.c}
      s == c.s
      s2 == c.s2
      isJ(t) == t \in DOMAIN st.own
      old1 == Own(s)
      old2 == Own(s2)
      acted == ok /\ isJ(s)
      expectDead == IF acted /\ e.op \in {"reset", "drop", "movea"} /\ old1 >= 0 THEN {old1} ELSE {}
      notFreed == {j \in expectDead : JObj(j).la \in LeafIds}
      \* ownership after the call
      own1 == IF ~acted THEN st.own
              ELSE IF e.op \in {"reset", "drop"} THEN (s :> -1) @@ st.own
              ELSE IF e.op = "movec" THEN (s :> -1) @@ (s2 :> old1) @@ st.own
              ELSE IF e.op = "movea" /\ isJ(s2) THEN (s :> old2) @@ (s2 :> -1) @@ st.own
              ELSE IF e.op = "swap" /\ isJ(s2) THEN (s :> old2) @@ (s2 :> old1) @@ st.own
              ELSE st.own
      own2 == IF e.op \in {"joint", "clone", "jmove"} THEN (s :> (IF ok THEN e.j ELSE -1)) @@ st.own ELSE own1
      observed == acted /\ e.op \in {"reset", "drop", "movec", "movea", "swap"}
      seen1 == ~observed \/ e.g1 = own2[s]
      seen2 == ~observed \/ ~(e.op \in {"movec", "movea", "swap"}) \/ ~isJ(s2) \/ e.op = "movec" \/ e.g2 = own2[s2]
      seenMc == ~(observed /\ e.op = "movec") \/ e.g2 = old1
      nst == [st EXCEPT !.cur = NoCall, !.thr = <<>>, !.jdc = {}, !.foreign = 0, !.own = own2]
  IN Result(nst,
       Chk(e.c = c.c /\ e.op = c.op, "X", "RetWithoutCall", <<e.c, e.op, c.c, c.op>>)
       \* ---- C20: the exception seen by the caller is the injected one ----
       \cup Chk(st.thr = <<>> \/ (injected /\ Len(st.thr) = 1 /\ e.inj = st.thr[1]),
                "C20", "ExceptionPropagatesUnchanged", <<e.op, e.r, e.inj, st.thr>>)
       \cup Chk(~injected \/ st.thr # <<>>, "C20", "ExceptionPropagatesUnchanged", <<e.op, "nothing was thrown", e.inj>>)
       \* ---- failures that are not injected: only "does not fit" of joint memory is legitimate ----
       \cup Chk(~failed \/ injected \/ (jointish /\ e.r = "throw:out_of_fixed_memory"),
                IF jointish THEN "C11" ELSE "C20",
                IF jointish THEN "OverflowThrowsFixedMemory" ELSE "AllocatorUsableAfter", <<e.op, e.r, c.n>>)
       \* ---- C20: a failed helper leaves nothing behind ----
       \cup Chk(~(creating /\ failed) \/ mineE = {}, "C20", "EachConstructedDestroyedOnce",
                <<e.op, c.form, c.n, c.k, "left alive", {r.id : r \in mineE}>>)
       \cup Chk(~(creating /\ failed) \/ mineL = {}, "C20", "MemoryReturnedSameShape",
                <<e.op, c.n, c.k, "not returned", {<<a.k, a.n, a.sz, a.al>> : a \in mineL}>>)
       \cup Chk(~(creating /\ failed /\ e.op = "ja" /\ e.cl0 >= 0) \/ e.cl1 = e.cl0, "C20", "JointMemoryReturned",
                <<c.form, c.n, c.k, e.cl0, e.cl1>>)
       \cup Chk(~(creating /\ failed) \/ mineJ = {}, "C11", "ObjectDestroyedOnce", <<e.op, "object of a failed creation left alive", mineJ>>)
       \* ---- C20: on success every element of the result was constructed exactly once ----
       \cup Chk(~(creating /\ ok /\ e.cnt >= 0) \/ Cardinality(mineE) = e.cnt, "C20", "ConstructedOnceOnSuccess",
                <<e.op, c.form, c.n, c.k, e.cnt, Cardinality(mineE)>>)
       \* ---- C11: clone / move with allocator leave the source alone; clone of a valid object succeeds ----
       \* (not for the move with allocator: a container member may clear its moved-from source)
       \cup Chk(e.op # "clone" \/ st.foreign = 0, "C11", "CloneIndependent", <<e.op, "source elements destroyed", st.foreign>>)
       \cup Chk(~(e.op = "clone" /\ e.r # "empty") \/ e.vs0 = e.vs1, "C11", "CloneIndependent", <<"source values changed", e.vs0, e.vs1>>)
       \cup Chk(~(e.op = "clone" /\ failed /\ st.thr = <<>>), "C11", "CloneIndependent", <<"clone of a valid object failed", e.r>>)
       \* ---- C11: who is destroyed / released by this operation ----
       \cup Chk(st.jdc \ rolledBack = expectDead, "C11", "ObjectDestroyedOnce", <<e.op, "destroyed", st.jdc \ rolledBack, "expected", expectDead>>)
       \cup Chk(creating \/ rolledBack = {}, "C11", "ObjectDestroyedOnce", <<e.op, rolledBack>>)
       \cup Chk(notFreed = {}, "C11", "BlockReleasedOnceSameSizeAlign", <<e.op, "block not released", notFreed>>)
       \cup Chk(~(e.op \in {"joint", "clone", "jmove"} /\ ok) \/ (HasJ(e.j) /\ JObj(e.j).live /\ e.g1 = e.j),
                "C11", "OwnershipFollowsOperation", <<e.op, e.j, e.g1>>)
       \cup Chk(seen1 /\ seen2 /\ seenMc, "C11", "OwnershipFollowsOperation", <<e.op, s, s2, e.g1, e.g2, old1, old2>>))

-----------------------------------------------------------------------------
OnFin(e) ==
  LET jl == {j \in 0..(Len(st.jobj) - 1) : JObj(j).live}
  IN Result(st,
       Chk(st.con = {}, "C20", "EachConstructedDestroyedOnce", <<"never destroyed", {r.id : r \in st.con}>>)
       \cup Chk(st.leaf = {}, "C20", "MemoryReturnedSameShape", <<"never returned", {<<a.k, a.n, a.sz, a.al>> : a \in st.leaf}>>)
       \cup Chk(jl = {}, "C11", "ObjectDestroyedOnce", <<"never destroyed", jl>>)
       \cup Chk(e.gd = 0, "C11", "NoWriteOutsideBlock", <<e.gd>>))

OnDied(e) == Result(st, {V("ANY", "NoCrash", <<e.how, e.code>>)})

-----------------------------------------------------------------------------
Apply(e) ==
  CASE e.e = "ua" -> OnUa(e)
    [] e.e = "uf" -> OnUf(e)
    [] e.e = "ux" -> Result(st, {})
    [] e.e = "h" -> Result(st, {})
    [] e.e = "la" -> OnLa(e)
    [] e.e = "lf" -> OnLf(e)
    [] e.e = "ctor" -> OnCtor(e)
    [] e.e = "dtor" -> OnDtor(e)
    [] e.e = "throwpt" -> OnThrowpt(e)
    [] e.e = "jctor" -> OnJctor(e)
    [] e.e = "jdtor" -> OnJdtor(e)
    [] e.e = "pieces" -> OnPieces(e)
    [] e.e = "call" -> OnCall(e)
    [] e.e = "op" -> OnRet(e)
    [] e.e = "fin" -> OnFin(e)
    [] e.e = "end" -> Result(st, {})
    [] e.e = "died" -> OnDied(e)
    [] e.e = "terminate" -> Result(st, {V("ANY", "NoTerminate", <<>>)})
    [] OTHER -> Result(st, {V("X", "UnknownEvent", <<e.e>>)})

Init == l = 1 /\ x = -1 /\ cfg = [fill |-> 0] /\ st = FreshState /\ viol = {}

Step ==
  /\ l <= Len(Tr)
  /\ LET e == Tr[l] IN
       IF e.e = "cfg" THEN cfg' = e /\ UNCHANGED <<x, st, viol>>
       ELSE IF e.e = "x" THEN x' = e.n /\ st' = FreshState /\ UNCHANGED <<cfg, viol>>
       ELSE LET res == Apply(e)
            IN /\ st' = res.s
               /\ viol' = viol \cup (IF "ovf" \in DOMAIN e THEN {V("ANY", "ValueInRange", <<e.e>>)} ELSE {}) \cup res.v
               /\ UNCHANGED <<x, cfg>>
  /\ l' = l + 1
  /\ (l' = Len(Tr) + 1) => PrintT(<<"VERDICT", ToJson([lines |-> Len(Tr), viol |-> viol'])>>)

Spec == Init /\ [][Step]_vars

TraceAccepted == TLCGet("stats").diameter - 1 = Len(Tr)
=============================================================================
