------------------------------ MODULE FenceTrace ------------------------------
(***************************************************************************)
(* Contract specification for the low-level allocators of foonathan/memory *)
(* (heap_allocator, malloc_allocator, new_allocator,                       *)
(* virtual_memory_allocator), bound to the implementation through the      *)
(* harness driver "lowlevel".  The abstract state is: the blocks obtained  *)
(* from the system (malloc / operator new / mmap, observed by linker       *)
(* interposition), the live nodes with the fence bytes found around them,  *)
(* the bytes a script has written outside/inside a node, and the handler   *)
(* invocations since the last API event.  Every action is total and adds   *)
(* one record to `viol' per false guard.                                   *)
(*                                                                         *)
(* C17  OverflowReportedAtFirstDirtyByte, InBoundsNeverReported,           *)
(*      FreshMemoryIsNewPattern, NeighboursUntouched, FencesExistWhenEnabled*)
(* C01  InsideSystemBlock, DisjointFromLive, ContentIntactAtRelease        *)
(* C02  Aligned        C05  SystemBlockReturned, NoSystemBlockLeftAtEnd    *)
(* C15  GlobalNetOnceAtExit, ReportOnlyAtExit                              *)
(*                                                                         *)
(* Which fence bytes exist is taken from what the code did (fpre/fpost =   *)
(* run of fence-pattern bytes found directly before/after the node at      *)
(* allocation), not from a constant of this model.                         *)
(***************************************************************************)
EXTENDS Naturals, Integers, Sequences, FiniteSets, TLC, Json, IOUtils

TraceFile == IF "TRACE" \in DOMAIN IOEnv THEN IOEnv.TRACE ELSE "trace.ndjson"
Tr == ndJsonDeserialize(TraceFile)

VARIABLES l, x, cfg, st, viol
vars == <<l, x, cfg, st, viol>>

FencePattern == 253   \* debug_magic::fence_memory, 0xFD

V(p, r, i) == [prop |-> p, rule |-> r, line |-> l, exec |-> x, info |-> ToString(i)]
Chk(c, p, r, i) == IF c THEN {} ELSE {V(p, r, i)}
Result(s, v) == [s |-> s, v |-> v]

MinOf(S) == CHOOSE m \in S : \A k \in S : m <= k
RECURSIVE SumSz(_)
SumSz(S) == IF S = {} THEN 0 ELSE LET a == CHOOSE a \in S : TRUE IN a.sz + SumSz(S \ {a})
RECURSIVE SumBlk(_, _)
\* (a node that lies in no block obtained from the system counts as 0: the guards report it, the sum stays total)
SumBlk(S, sys) == IF S = {} THEN 0 ELSE LET a == CHOOSE a \in S : TRUE
                                          IN (IF a.sb >= 0 /\ a.sb < Len(sys) THEN sys[a.sb + 1].size ELSE 0) + SumBlk(S \ {a}, sys)

FreshState ==
  [sys     |-> <<>>,    \* blocks obtained from the system, in order: [size, kind, live, rwlo, rwhi]
   live    |-> {},      \* live nodes
   wrs     |-> {},      \* single bytes written by the script: [id, off, val]
   pend    |-> <<>>,    \* handler invocations since the last API event
   freeing |-> 0,       \* id of the node whose deallocation has been announced (probe children)
   snap    |-> [on |-> FALSE],  \* state to return to when the current probe child has ended
   exited  |-> FALSE]   \* the execution has called exit(): static destructors run

PendK(k) == {i \in 1..Len(st.pend) : st.pend[i].k = k}
HasBlk(s, b) == b >= 0 /\ b < Len(s)

-----------------------------------------------------------------------------
(* system calls observed during one library call: fold over the list *)
RECURSIVE ApplySys(_, _, _)
ApplySys(sys, ops, i) ==
  IF i > Len(ops) THEN Result(sys, {})
  ELSE LET o == ops[i]
           op == o[1]  b == o[2]  off == o[3]  len == o[4]  flag == o[5]
           one ==
             IF op = 1 THEN
               Result(Append(sys, [size |-> len, kind |-> flag, live |-> TRUE, rwlo |-> 0,
                                   rwhi |-> IF flag = 3 THEN 0 ELSE len]),
                      Chk(b = Len(sys), "X", "SystemBlockNumbering", <<b, Len(sys)>>))
             ELSE IF op = 2 THEN
               IF ~HasBlk(sys, b) \/ ~sys[b + 1].live
               THEN Result(sys, {V("C05", "SystemReleaseOfUnknownMemory", <<b, off, len>>)})
               ELSE Result([sys EXCEPT ![b + 1].live = ~(off = 0 /\ len = sys[b + 1].size)],
                           Chk(off = 0 /\ len = sys[b + 1].size, "C05", "SystemBlockReleasedWhole", <<b, off, len, sys[b + 1].size>>))
             ELSE IF op = 3 THEN
               IF ~HasBlk(sys, b) THEN Result(sys, {})
               ELSE Result([sys EXCEPT ![b + 1].rwlo = IF flag = 1 THEN off ELSE 0,
                                       ![b + 1].rwhi = IF flag = 1 THEN off + len ELSE 0], {})
             ELSE Result(sys, {V("X", "SystemNotesLost", o)})
           rest == ApplySys(one.s, ops, i + 1)
       IN Result(rest.s, one.v \cup rest.v)

Acquired(ops) == {ops[i][2] : i \in {j \in 1..Len(ops) : ops[j][1] = 1}}

-----------------------------------------------------------------------------
(* the fence bytes of a node and what the script did to them *)
InPre(n, off) == off < 0 /\ off >= 0 - n.fpre
InPost(n, off) == off >= n.sz /\ off < n.sz + n.fpost
Dirty(n) == {w \in st.wrs : w.id = n.id /\ (InPre(n, w.off) \/ InPost(n, w.off)) /\ w.val # FencePattern}
DirtyPre(n) == {w.off : w \in {d \in Dirty(n) : d.off < 0}}
DirtyPost(n) == {w.off : w \in {d \in Dirty(n) : d.off >= 0}}
\* a report is right if it names the lowest dirty byte of the fence it is about
RightOffset(n, woff) ==
  \/ DirtyPre(n) # {} /\ woff = MinOf(DirtyPre(n))
  \/ DirtyPost(n) # {} /\ woff = MinOf(DirtyPost(n))

\* judged when the deallocation of node n is over (returned, or the process ended inside it)
FenceVerdict(n, returned) ==
  LET R == PendK("overflow")
  IN IF Dirty(n) = {}
     THEN Chk(R = {}, "C17", "InBoundsNeverReported", <<n.kind, n.sz, n.fpre, n.fpost, cfg.fence>>)
     ELSE Chk(R # {}, "C17", "OverflowReportedAtFirstDirtyByte",
              <<"not reported", n.kind, n.sz, n.al, DirtyPre(n), DirtyPost(n), returned>>)
          \* the first report names the first corrupted byte of the node: the lowest dirty byte of the fence in front of
          \* it if that fence is dirty at all
          \cup Chk(R = {} \/ st.pend[MinOf(R)].woff = (IF DirtyPre(n) # {} THEN MinOf(DirtyPre(n)) ELSE MinOf(DirtyPost(n))),
                   "C17", "OverflowReportedAtFirstDirtyByte", <<"first report", n.kind, n.sz, DirtyPre(n), DirtyPost(n), st.pend[MinOf(R)].woff>>)
          \cup Chk(R = {} \/ \A i \in R : RightOffset(n, st.pend[i].woff), "C17", "OverflowReportedAtFirstDirtyByte",
                   <<"wrong offset", n.kind, n.sz, n.al, DirtyPre(n), DirtyPost(n), {st.pend[i].woff : i \in R}>>)

NoLeakReportNow(p) == Chk(PendK("leak") = {}, "C15", "ReportOnlyAtExit", <<p>>)

-----------------------------------------------------------------------------
OnAlloc(e) ==
  LET sysr == ApplySys(st.sys, e.sys, 1)
      sys == sysr.s
      ok == e.r = "ok"
      inProbe == e.pr
      snap == IF inProbe /\ ~st.snap.on THEN [on |-> TRUE, sys |-> st.sys, live |-> st.live, wrs |-> st.wrs] ELSE st.snap
      n == [id |-> e.id, kind |-> e.kind, sz |-> e.sz, al |-> e.al, sb |-> e.sb, soff |-> e.soff,
            fpre |-> e.fpre, fpost |-> e.fpost]
      lo == e.soff - e.fpre
      hi == e.soff + e.sz + e.fpost
      inside == HasBlk(sys, e.sb) /\ sys[e.sb + 1].live /\ lo >= sys[e.sb + 1].rwlo /\ hi <= sys[e.sb + 1].rwhi
      clash == {m \in st.live : m.sb = e.sb /\ m.soff - m.fpre < hi /\ lo < m.soff + m.sz + m.fpost}
      fencesOn == cfg.fill = 1 /\ cfg.fence > 0
      nst == [st EXCEPT !.sys = sys, !.live = IF ok THEN @ \cup {n} ELSE @, !.pend = <<>>, !.snap = snap]
  IN Result(nst,
       sysr.v
       \cup Chk(ok, "C03", "UnexpectedAllocationFailure", <<e.kind, e.sz, e.r>>)
       \cup Chk(~ok \/ inside, "C01", "InsideSystemBlock", <<e.kind, e.sz, e.sb, e.soff, e.fpre, e.fpost>>)
       \cup Chk(~ok \/ e.sb \in Acquired(e.sys), "C01", "FromBlockObtainedForIt", <<e.kind, e.sb, Acquired(e.sys)>>)
       \cup Chk(~ok \/ clash = {}, "C01", "DisjointFromLive", <<e.kind, e.sb, e.soff, {m.id : m \in clash}>>)
       \cup Chk(~ok \/ e.mis = 0, "C02", "Aligned", <<e.kind, e.al, e.mis>>)
       \cup Chk(~ok \/ cfg.fill = 0 \/ e.fresh = 0, "C17", "FreshMemoryIsNewPattern", <<e.kind, e.sz, e.fresh>>)
       \cup Chk(~ok \/ ~fencesOn \/ (e.fpre > 0 /\ e.fpost > 0), "C17", "FencesExistWhenEnabled", <<e.kind, e.sz, e.fpre, e.fpost>>)
       \cup Chk(fencesOn \/ (e.fpre = 0 /\ e.fpost = 0), "X", "FenceFoundThoughDisabled", <<e.fpre, e.fpost>>)
       \cup Chk(e.nbad = 0 /\ e.fbad = 0, "C17", "NeighboursUntouched", <<"alloc", e.kind, e.nbad, e.fbad>>)
       \cup Chk(PendK("overflow") = {}, "C17", "InBoundsNeverReported", <<"during allocation", e.kind>>)
       \cup NoLeakReportNow("alloc"))

OnWr(e) ==
  LET m == {n \in st.live : n.id = e.id}
  IN IF m = {} THEN Result(st, {V("X", "WriteToUnknownNode", <<e.id>>)})
     ELSE LET n == CHOOSE n \in m : TRUE
              fenceByte == InPre(n, e.off) \/ InPost(n, e.off)
          IN Result([st EXCEPT !.wrs = IF e.done THEN @ \cup {[id |-> e.id, off |-> e.off, val |-> e.val]} ELSE @],
                    Chk(~e.done \/ ~fenceByte \/ e.old = FencePattern, "X", "FenceByteWasNotFencePattern", <<e.off, e.old>>)
                    \cup Chk(~e.done \/ fenceByte \/ (e.off >= 0 /\ e.off < n.sz), "X", "WriteOutsideNodeAndFences", <<e.off, n.sz>>))

OnFr0(e) == Result([st EXCEPT !.freeing = e.id], {})

OnFree(e) ==
  LET m == {n \in st.live : n.id = e.id}
  IN IF m = {} THEN Result([st EXCEPT !.pend = <<>>, !.freeing = 0], {V("X", "ReleasedUnknownNode", <<e.id>>)})
     ELSE LET n == CHOOSE n \in m : TRUE
              sysr == ApplySys(st.sys, e.sys, 1)
              sys == sysr.s
              nst == [st EXCEPT !.sys = sys, !.live = @ \ {n}, !.wrs = {w \in @ : w.id # e.id},
                                !.pend = <<>>, !.freeing = 0]
          IN Result(nst,
               sysr.v
               \cup Chk(e.r = "ok", "C03", "DeallocNeverThrows", <<n.kind, e.r>>)
               \cup Chk(e.bad = 0, "C01", "ContentIntactAtRelease", <<n.kind, n.sz, e.bad, e.first>>)
               \cup Chk(e.nbad = 0 /\ e.fbad = 0, "C17", "NeighboursUntouched", <<"free", n.kind, e.nbad, e.fbad>>)
               \cup Chk(HasBlk(sys, n.sb) /\ ~sys[n.sb + 1].live, "C05", "SystemBlockReturned", <<n.kind, n.sb>>)
               \cup FenceVerdict(n, TRUE)
               \cup NoLeakReportNow("free"))

\* a probe child has ended
OnPend(e) ==
  LET back == IF st.snap.on
              THEN [st EXCEPT !.sys = st.snap.sys, !.live = st.snap.live, !.wrs = st.snap.wrs,
                              !.snap = [on |-> FALSE], !.pend = <<>>, !.freeing = 0]
              ELSE [st EXCEPT !.pend = <<>>, !.freeing = 0]
      m == {n \in st.live : n.id = st.freeing}
  IN IF st.freeing = 0 \/ m = {}
     THEN \* the deallocation had returned (judged at `free') or never started
          Result(back, Chk(e.how = "exit" /\ e.code = 0, "ANY", "NoCrash", <<"probe", e.how, e.code>>)
                       \cup Chk(PendK("overflow") = {}, "C17", "InBoundsNeverReported", <<"after release">>))
     ELSE \* the child ended inside the deallocation of node n
          LET n == CHOOSE n \in m : TRUE
          IN Result(back,
               Chk(e.how = "exit" /\ e.code = 43, "ANY", "NoCrash", <<"probe, inside deallocation", e.how, e.code>>)
               \cup FenceVerdict(n, FALSE))

OnH(e) == Result([st EXCEPT !.pend = Append(@, e)], {})

OnExit(e) == Result([st EXCEPT !.exited = TRUE, !.pend = <<>>], NoLeakReportNow("before exit"))

KindName == [heap |-> "heap_allocator", malloc |-> "malloc_allocator", new |-> "new_allocator",
             virtual |-> "virtual_memory_allocator"]
Kinds == {"heap", "malloc", "new", "virtual"}

KindVerdict(k) ==
  LET L == {n \in st.live : n.kind = k}
      R == {i \in PendK("leak") : st.pend[i].name = KindName[k]}
      req == SumSz(L)
      got == SumBlk(L, st.sys)
  IN IF cfg.leak = 0 THEN Chk(R = {}, "C15", "NoReportWithoutChecker", <<k>>)
     ELSE IF L = {} THEN Chk(R = {}, "C15", "GlobalNetOnceAtExit", <<"balanced but reported", k, {st.pend[i].amt : i \in R}>>)
     ELSE Chk(Cardinality(R) = 1, "C15", "GlobalNetOnceAtExit", <<"reports", k, Cardinality(R), req>>)
          \cup Chk(\A i \in R : st.pend[i].amt \in {req, got}, "C15", "GlobalNetOnceAtExit",
                   <<"amount", k, {st.pend[i].amt : i \in R}, req, got>>)

OnXend(e) ==
  IF st.exited
  THEN Result(st, UNION {KindVerdict(k) : k \in Kinds}
                  \cup Chk(\A i \in PendK("leak") : \E k \in Kinds : st.pend[i].name = KindName[k], "C15", "GlobalNetOnceAtExit",
                           <<"report for an allocator that was not used", {st.pend[i].name : i \in PendK("leak")}>>))
  ELSE Result(st, NoLeakReportNow("end"))

OnEnd(e) ==
  LET left == {i \in 1..Len(st.sys) : st.sys[i].live}
  IN Result(st, Chk(left = {}, "C05", "NoSystemBlockLeftAtEnd", <<left>>)
                \cup Chk(PendK("overflow") = {}, "C17", "InBoundsNeverReported", <<"end">>))

OnDied(e) == Result(st, {V("ANY", "NoCrash", <<e.how, e.code>>)})

Apply(e) ==
  CASE e.e = "alloc" -> OnAlloc(e)
    [] e.e = "wr" -> OnWr(e)
    [] e.e = "fr0" -> OnFr0(e)
    [] e.e = "free" -> OnFree(e)
    [] e.e = "pend" -> OnPend(e)
    [] e.e = "h" -> OnH(e)
    [] e.e = "exit" -> OnExit(e)
    [] e.e = "xend" -> OnXend(e)
    [] e.e = "end" -> OnEnd(e)
    [] e.e = "died" -> OnDied(e)
    [] e.e = "terminate" -> Result(st, {V("ANY", "NoTerminate", <<>>)})
    [] OTHER -> Result(st, {V("X", "UnknownEvent", <<e.e>>)})

Init == l = 1 /\ x = -1 /\ cfg = [leak |-> 0, fence |-> 0, fill |-> 0] /\ st = FreshState /\ viol = {}

Step ==
  /\ l <= Len(Tr)
  /\ LET e == Tr[l] IN
       IF e.e = "cfg" THEN cfg' = e /\ UNCHANGED <<x, st, viol>>
       ELSE IF e.e = "x" THEN x' = e.n /\ st' = FreshState /\ UNCHANGED <<cfg, viol>>
       ELSE LET res == Apply(e)
            IN /\ st' = res.s
               /\ viol' = viol \cup (IF "ovf" \in DOMAIN e THEN {V("ANY", "ValueInRange", <<e.e>>)} ELSE {}) \cup res.v
               /\ UNCHANGED <<x, cfg>>
  /\ l' = l + 1
  /\ (l' = Len(Tr) + 1) => PrintT(<<"VERDICT", ToJson([lines |-> Len(Tr), viol |-> viol'])>>)

Spec == Init /\ [][Step]_vars

TraceAccepted == TLCGet("stats").diameter - 1 = Len(Tr)
=============================================================================
