------------------------------ MODULE LockTrace ------------------------------
(***************************************************************************)
(* Contract specification for C13 (thread_safe_allocator serialises all    *)
(* access to the wrapped allocator), bound to the driver "threads".        *)
(* Abstract state: which thread holds the mutex of the storage, which      *)
(* threads are inside a member function of the wrapped allocator, and the  *)
(* memory currently handed out (for C01 under concurrency).  The log order *)
(* is a linearisation: `lock' is logged after the mutex was acquired,      *)
(* `unlock' before it is released, `talloc' after the allocation returned, *)
(* `tfree' before the release is requested.                                *)
(***************************************************************************)
EXTENDS Naturals, Integers, Sequences, FiniteSets, TLC, Json, IOUtils
TraceFile == IF "TRACE" \in DOMAIN IOEnv THEN IOEnv.TRACE ELSE "trace.ndjson"
Tr == ndJsonDeserialize(TraceFile)
VARIABLES l, x, cfg, st, viol
vars == <<l, x, cfg, st, viol>>
V(p, r, i) == [prop |-> p, rule |-> r, line |-> l, exec |-> x, info |-> ToString(i)]
Chk(c, p, r, i) == IF c THEN {} ELSE {V(p, r, i)}
Result(s, v) == [s |-> s, v |-> v]

FreshState == [tc |-> [store |-> "", mode |-> "", stateful |-> TRUE, obs |-> TRUE], holder |-> -1, inside |-> {}, live |-> {},
               locks |-> 0, enters |-> 0, leakReports |-> 0]
Overlap(a, b) == a.hi = b.hi /\ a.lo < b.lo + b.len /\ b.lo < a.lo + a.len

OnTcfg(e) == Result([st EXCEPT !.tc = e], {})
OnLock(e) ==
  Result([st EXCEPT !.holder = e.t, !.locks = @ + 1],
    Chk(st.holder = -1, "C13", "MutexIsExclusive", <<st.holder, e.t>>)
    \cup Chk(st.tc.stateful, "C13", "StatelessTakesNoLock", <<st.tc.store>>))
OnUnlock(e) ==
  Result([st EXCEPT !.holder = -1],
    Chk(st.holder = e.t, "C13", "UnlockByHolder", <<st.holder, e.t>>)
    \cup Chk(e.t \notin st.inside, "C13", "UnlockOnlyAfterLeaving", <<e.t>>))
OnEnter(e) ==
  Result([st EXCEPT !.inside = @ \cup {e.t}, !.enters = @ + 1],
    \* (obs: the storage's mutex is the instrumented one; the library's default mutex shows only by its effect)
    Chk(~st.tc.stateful \/ ~st.tc.obs \/ st.holder = e.t, "C13", "EnterHoldsMutex", <<e.op, e.t, st.holder>>)
    \cup Chk(~st.tc.stateful \/ st.inside = {}, "C13", "AtMostOneInside", <<e.op, e.t, st.inside>>))
OnExit(e) ==
  Result([st EXCEPT !.inside = @ \ {e.t}],
    Chk(~st.tc.stateful \/ ~st.tc.obs \/ st.holder = e.t, "C13", "ExitHoldsMutex", <<e.op, e.t, st.holder>>))
OnTalloc(e) ==
  LET rec == [id |-> e.id, hi |-> e.hi, lo |-> e.lo, len |-> e.len]
      clash == {a \in st.live : Overlap(a, rec)}
  IN Result([st EXCEPT !.live = @ \cup {rec}],
       Chk(clash = {}, "C13", "DisjointUnderConcurrency", <<e.t, e.id, {a.id : a \in clash}>>))
OnTfree(e) ==
  Result([st EXCEPT !.live = {a \in @ : a.id # e.id}],
    Chk(e.bad = 0, "C13", "ContentIntactUnderConcurrency", <<e.t, e.id, e.bad>>))
OnTend(e) ==
  Result(st,
    Chk(st.holder = -1 /\ st.inside = {}, "C13", "BalancedLocking", <<st.holder, st.inside>>)
    \cup Chk(st.live = {}, "X", "HarnessLeftAllocations", <<Cardinality(st.live)>>)
    \cup Chk(~(st.tc.stateful /\ st.tc.obs /\ st.enters > 0) \/ st.locks > 0, "C13", "StatefulTakesLock", <<st.locks, st.enters>>))
\* leak reports of the stateless low-level allocators at process exit: the net must be zero
OnH(e) ==
  IF e.k = "leak" /\ ~st.tc.stateful
  THEN Result(st, {V("C13", "StatelessNetExact", <<e.name, e.amt>>)})
  ELSE Result(st, Chk(e.k \notin {"invptr", "overflow"}, "C16", "ValidReleaseNeverReported", <<e.k>>))

Apply(e) ==
  CASE e.e = "tcfg" -> OnTcfg(e)
    [] e.e = "lock" -> OnLock(e)
    [] e.e = "unlock" -> OnUnlock(e)
    [] e.e = "enter" -> OnEnter(e)
    [] e.e = "exit" -> OnExit(e)
    [] e.e = "talloc" -> OnTalloc(e)
    [] e.e = "tfree" -> OnTfree(e)
    [] e.e = "tend" -> OnTend(e)
    [] e.e = "h" -> OnH(e)
    \* (ThreadSanitizer configuration: the child exits with code 66 at the first data race it is told about)
    [] e.e = "died" -> Result(st, IF e.how = "exit" /\ e.code = 66
                                  THEN {V("C13", "NoDataRaceReported", <<"ThreadSanitizer">>)}
                                  ELSE {V("ANY", "NoCrash", <<e.how, e.code>>)})
    [] e.e = "terminate" -> Result(st, {V("ANY", "NoTerminate", <<>>)})
    [] OTHER -> Result(st, {V("X", "UnknownEvent", <<e.e>>)})

Init == l = 1 /\ x = -1 /\ cfg = [leak |-> 0] /\ st = FreshState /\ viol = {}
Step ==
  /\ l <= Len(Tr)
  /\ LET e == Tr[l] IN
       IF e.e = "cfg" THEN cfg' = e /\ UNCHANGED <<x, st, viol>>
       ELSE IF e.e = "x" THEN x' = e.n /\ st' = FreshState /\ UNCHANGED <<cfg, viol>>
       ELSE LET res == Apply(e) IN st' = res.s /\ viol' = viol \cup res.v /\ UNCHANGED <<x, cfg>>
  /\ l' = l + 1
  /\ (l' = Len(Tr) + 1) => PrintT(<<"VERDICT", ToJson([lines |-> Len(Tr), viol |-> viol'])>>)
Spec == Init /\ [][Step]_vars
TraceAccepted == TLCGet("stats").diameter - 1 = Len(Tr)
=============================================================================
