---------------------------- MODULE TablesTrace ----------------------------
(***************************************************************************)
(* Contract specification for the arithmetic building blocks of            *)
(* foonathan/memory (property C19) and for the min_block_size tables       *)
(* (table part of property C18), bound to the implementation: the harness  *)
(* driver "tables" calls the real functions on complete input tables and   *)
(* records the results as aggregated rows; this module replays the rows    *)
(* and checks every single result against the mathematical definition.     *)
(* Every action is total; a false guard adds one record to `viol'.         *)
(*                                                                         *)
(* Definitions used (Arith.tla proves the code's bit tricks equal to the   *)
(* descriptive forms of the same definitions on a complete small machine): *)
(*   least multiple of al >= a:   r is a multiple of al, r >= a and the    *)
(*                                next smaller multiple r - al is < a      *)
(*   least offset aligning a:     0 <= o < al and a + o is a multiple of   *)
(*                                al (aligned offsets are al apart)        *)
(*   largest power of two dividing n, capped at max_alignment (a power of  *)
(*   two): r is a power of two, r | n, r <= cap, and r = cap or 2r does    *)
(*                                not divide n                             *)
(*   floor / ceiling of log2:     2^e <= n < 2^(e+1);  2^(e-1) < n <= 2^e  *)
(*                                                                         *)
(* TLC integers have 32 bits.  Rows of the small domain carry plain        *)
(* integers; rows of the boundary classes 2^k + d carry every 64-bit       *)
(* result as four 16-bit limbs (least significant first) and are checked   *)
(* with limb arithmetic.  An input whose mathematically correct result is  *)
(* not representable in 64 bits (carry out of the top limb) is outside     *)
(* the domain of the property and its row entry is skipped.                *)
(***************************************************************************)
EXTENDS Naturals, Integers, Sequences, FiniteSets, TLC, Json, IOUtils

TraceFile == IF "TRACE" \in DOMAIN IOEnv THEN IOEnv.TRACE ELSE "trace.ndjson"
Tr == ndJsonDeserialize(TraceFile)

VARIABLES l,     \* next trace line
          x,     \* current execution number
          cfg,   \* build configuration of the library under observation
          st,    \* per-execution state: rows seen, abnormal end
          viol   \* set of false guards found so far

vars == <<l, x, cfg, st, viol>>

-----------------------------------------------------------------------------
(* helpers *)
Max(a, b) == IF a > b THEN a ELSE b
Min(a, b) == IF a < b THEN a ELSE b
MinOf(S) == CHOOSE m \in S : \A k \in S : m <= k

V(p, r, i) == [prop |-> p, rule |-> r, line |-> l, exec |-> x, info |-> ToString(i)]
Chk(c, p, r, i) == IF c THEN {} ELSE {V(p, r, i)}
Result(s, v) == [s |-> s, v |-> v]

FreshState == [rows |-> 0, over |-> FALSE]
Seen == [st EXCEPT !.rows = @ + 1]

\* a guard over the entries of a row: one violation record per row, naming how many entries are
\* wrong, the first one, and all of them if they are few
RowChk(Bad, p, r, head, Describe(_)) ==
  IF Bad = {} THEN {}
  ELSE {V(p, r, <<head, Cardinality(Bad), Describe(MinOf(Bad)),
                  IF Cardinality(Bad) <= 16 THEN {Describe(i) : i \in Bad} ELSE {}>>)}

-----------------------------------------------------------------------------
(* C19, small domain: plain integers *)
Pow2Small == {2^j : j \in 0..30}

LeastMultipleGE(r, a, al) == r % al = 0 /\ r >= a /\ r - al < a
LeastOffsetAligning(o, a, al) == o >= 0 /\ o < al /\ (a + o) % al = 0
LargestPow2DividingCapped(r, n, cap) ==
  /\ r \in Pow2Small
  /\ n % r = 0
  /\ r <= cap
  /\ (r = cap \/ n % (2 * r) # 0)
FloorLog2(e, n) == e \in 0..29 /\ 2^e <= n /\ n < 2^(e + 1)
CeilLog2(e, n) == e \in 0..30 /\ n <= 2^e /\ (e = 0 \/ 2^(e - 1) < n)

OnFn(e) ==
  LET n == e.to - e.from + 1
      A(i) == e.from + i - 1
      I == 1..Len(e.r)
      D(i) == <<A(i), e.r[i]>>
      head == <<e.f, e.al>>
      alOk == e.al \in Pow2Small
  IN IF Len(e.r) # n \/ e.from < 0 THEN Result(Seen, {V("X", "RowShape", <<e.f, e.from, e.to, Len(e.r)>>)})
     ELSE Result(Seen,
       CASE e.f = "round_up" ->
              IF ~alOk THEN {V("X", "RowShape", head)}
              ELSE RowChk({i \in I : ~LeastMultipleGE(e.r[i], A(i), e.al)}, "C19", "RoundUpIsLeastMultiple", head, D)
         [] e.f \in {"align_offset", "align_offset_ptr"} ->
              IF ~alOk THEN {V("X", "RowShape", head)}
              ELSE RowChk({i \in I : ~LeastOffsetAligning(e.r[i], A(i), e.al)}, "C19", "AlignOffsetIsLeast", head, D)
         [] e.f = "is_aligned" ->
              IF ~alOk THEN {V("X", "RowShape", head)}
              ELSE RowChk({i \in I : ~(e.r[i] \in {0, 1} /\ ((e.r[i] = 1) <=> LeastOffsetAligning(0, A(i), e.al)))},
                          "C19", "IsAlignedIffOffsetZero", head, D)
         [] e.f = "alignment_for" ->
              RowChk({i \in I : A(i) > 0 /\ ~LargestPow2DividingCapped(e.r[i], A(i), cfg.maxal)},
                     "C19", "AlignmentForIsLargestPow2Capped", <<e.f, cfg.maxal>>, D)
         [] e.f = "ilog2" ->
              RowChk({i \in I : A(i) > 0 /\ ~FloorLog2(e.r[i], A(i))}, "C19", "Ilog2IsFloor", head, D)
         [] e.f = "ilog2_ceil" ->
              RowChk({i \in I : A(i) > 0 /\ ~CeilLog2(e.r[i], A(i))}, "C19", "Ilog2CeilIsCeil", head, D)
         [] OTHER -> {V("X", "UnknownFunction", <<e.f>>)})

-----------------------------------------------------------------------------
(* C19, boundary classes: 64-bit numbers as 4 limbs of 16 bits, least significant first *)
B == 65536
ZeroL == <<0, 0, 0, 0>>
OneL == <<1, 0, 0, 0>>
SmallL(d) == <<d % B, (d \div B) % B, 0, 0>>               \* 0 <= d < 2^31
IsLimbs(v) == Len(v) = 4 /\ \A i \in 1..4 : v[i] \in 0..(B - 1)
Pow2L(k) == [i \in 1..4 |-> IF i - 1 = k \div 16 THEN 2^(k % 16) ELSE 0]   \* 0 <= k <= 63

\* add with carry: [v |-> limbs of (a + b) mod 2^64, c |-> carry out of the top limb]
AddL(a, b) ==
  LET s1 == a[1] + b[1]
      s2 == a[2] + b[2] + s1 \div B
      s3 == a[3] + b[3] + s2 \div B
      s4 == a[4] + b[4] + s3 \div B
  IN [v |-> <<s1 % B, s2 % B, s3 % B, s4 % B>>, c |-> s4 \div B]
\* subtract with borrow: [v |-> limbs of (a - b) mod 2^64, c |-> borrow out of the top limb]
SubL(a, b) ==
  LET d1 == a[1] - b[1]
      b1 == IF d1 < 0 THEN 1 ELSE 0
      d2 == a[2] - b[2] - b1
      b2 == IF d2 < 0 THEN 1 ELSE 0
      d3 == a[3] - b[3] - b2
      b3 == IF d3 < 0 THEN 1 ELSE 0
      d4 == a[4] - b[4] - b3
      b4 == IF d4 < 0 THEN 1 ELSE 0
  IN [v |-> <<d1 + b1 * B, d2 + b2 * B, d3 + b3 * B, d4 + b4 * B>>, c |-> b4]
LtL(a, b) == SubL(a, b).c = 1
LeL(a, b) == ~LtL(b, a)
\* a mod 2^j, 0 <= j <= 64
Mod2jL(a, j) == [i \in 1..4 |-> IF 16 * i <= j THEN a[i]
                                ELSE IF 16 * (i - 1) >= j THEN 0
                                ELSE a[i] % 2^(j - 16 * (i - 1))]

\* the input 2^k + d: [v, c]; c # 0 means it is not a 64-bit unsigned number
InputL(k, d) == IF d >= 0 THEN AddL(Pow2L(k), SmallL(d)) ELSE SubL(Pow2L(k), SmallL(0 - d))

\* guards on limbs; v input, r result, j exponent of the alignment
RoundUpInDomainL(v, j) == AddL(v, SubL(Pow2L(j), OneL).v).c = 0
LeastMultipleGEL(r, v, j) == Mod2jL(r, j) = ZeroL /\ LeL(v, r) /\ LtL(SubL(r, v).v, Pow2L(j))
LeastOffsetAligningL(o, v, j) == LtL(o, Pow2L(j)) /\ Mod2jL(AddL(Mod2jL(v, j), o).v, j) = ZeroL
IsAlignedL(r, v, j) == r \in {ZeroL, OneL} /\ ((r = OneL) <=> LeastOffsetAligningL(ZeroL, v, j))
LargestPow2DividingCappedL(r, v, cap) ==
  \E ex \in 0..63 :
     /\ r = Pow2L(ex)
     /\ Mod2jL(v, ex) = ZeroL
     /\ LeL(r, SmallL(cap))
     /\ (r = SmallL(cap) \/ Mod2jL(v, ex + 1) # ZeroL)
IsSmallL(r) == r[2] = 0 /\ r[3] = 0 /\ r[4] = 0
FloorLog2L(r, v) == IsSmallL(r) /\ r[1] <= 63 /\ LeL(Pow2L(r[1]), v) /\ (r[1] = 63 \/ LtL(v, Pow2L(r[1] + 1)))
CeilLog2L(r, v) == IsSmallL(r) /\ r[1] <= 64 /\ (r[1] = 64 \/ LeL(v, Pow2L(r[1])))
                   /\ (r[1] = 0 \/ LtL(Pow2L(r[1] - 1), v))

OnBnd(e) ==
  LET nd == e.dto - e.dfrom + 1
      nk == e.kto - e.kfrom + 1
      I == 1..(nk * nd)                           \* entry i is the input 2^K(i) + Dl(i)
      K(i) == e.kfrom + (i - 1) \div nd
      Dl(i) == e.dfrom + ((i - 1) % nd)
      In(i) == InputL(K(i), Dl(i))
      unary == e.f \in {"alignment_for", "ilog2", "ilog2_ceil"}
      \* entries the driver had to leave out: not a 64-bit number, or 0 for log2 / alignment_for
      Omitted(i) == In(i).c # 0 \/ (unary /\ In(i).v = ZeroL)
      shapeOk == /\ e.kfrom >= 0 /\ e.kto <= 63 /\ e.kfrom <= e.kto
                 /\ e.dfrom >= -32768 /\ e.dto <= 32767 /\ e.dfrom <= e.dto
                 /\ Len(e.r) = nk * nd
                 /\ (unary \/ e.j \in 0..63)
                 /\ \A i \in I : IF Omitted(i) THEN e.r[i] = <<>> ELSE IsLimbs(e.r[i])
      D(i) == <<K(i), Dl(i), e.r[i]>>
      Live == {i \in I : ~Omitted(i)}
      head == <<e.f, e.j>>
  IN IF ~shapeOk THEN Result(Seen, {V("X", "RowShape", <<e.f, e.j, Len(e.r)>>)})
     ELSE Result(Seen,
       CASE e.f = "round_up" ->
              RowChk({i \in Live : RoundUpInDomainL(In(i).v, e.j) /\ ~LeastMultipleGEL(e.r[i], In(i).v, e.j)},
                     "C19", "RoundUpIsLeastMultiple", head, D)
         [] e.f \in {"align_offset", "align_offset_ptr"} ->
              RowChk({i \in Live : ~LeastOffsetAligningL(e.r[i], In(i).v, e.j)}, "C19", "AlignOffsetIsLeast", head, D)
         [] e.f = "is_aligned" ->
              RowChk({i \in Live : ~IsAlignedL(e.r[i], In(i).v, e.j)}, "C19", "IsAlignedIffOffsetZero", head, D)
         [] e.f = "alignment_for" ->
              RowChk({i \in Live : ~LargestPow2DividingCappedL(e.r[i], In(i).v, cfg.maxal)},
                     "C19", "AlignmentForIsLargestPow2Capped", <<e.f, cfg.maxal>>, D)
         [] e.f = "ilog2" ->
              RowChk({i \in Live : ~FloorLog2L(e.r[i], In(i).v)}, "C19", "Ilog2IsFloor", head, D)
         [] e.f = "ilog2_ceil" ->
              RowChk({i \in Live : ~CeilLog2L(e.r[i], In(i).v)}, "C19", "Ilog2CeilIsCeil", head, D)
         [] OTHER -> {V("X", "UnknownFunction", <<e.f>>)})

-----------------------------------------------------------------------------
(* C19: bucket selection.  idx/sfi: AccessPolicy::index_from_size(s), size_from_index of that;     *)
(* ns: free_list_array<List, Policy>::get(s).node_size(); minel: List::min_element_size            *)
OnBucket(e) ==
  LET S == 1..e.max
      head == <<e.list, e.policy, e.max>>
      D(s) == <<s, e.idx[s], e.sfi[s], e.ns[s]>>
      shapeOk == Len(e.idx) = e.max /\ Len(e.sfi) = e.max /\ Len(e.ns) = e.max
                 /\ e.policy \in {"log2", "identity"} /\ e.max >= e.minel
  IN IF ~shapeOk THEN Result(Seen, {V("X", "RowShape", head)})
     ELSE Result(Seen,
            RowChk({s \in S : ~(e.sfi[s] >= s /\ e.ns[s] >= s)}, "C19", "BucketHoldsSize", head, D)
            \cup (IF e.policy = "log2"
                  THEN RowChk({s \in S : ~(e.sfi[s] < 2 * s /\ (s > e.minel => e.ns[s] < 2 * s))},
                              "C19", "Log2BucketLessThanTwice", head, D)
                  ELSE RowChk({s \in S : ~(e.sfi[s] = s /\ e.ns[s] = Max(s, e.minel))},
                              "C19", "IdentityBucketExact", head, D)))

(* ... over the whole 64-bit range (power-of-two policy): for s = 2^k + (d - 1), k = 3..62, the node size named for   *)
(* s is the power of two 2^k (s <= 2^k) or 2^(k+1) (s = 2^k + 1), and it maps back to its own bucket.                  *)
(* lg = floor(log2(node size)) + 1, p2 = the node size is a power of two (sizes beyond TLC's integers: see the driver)  *)
OnBucketBig(e) ==
  LET I == 1..Len(e.k)
      D(i) == <<e.k[i], e.d[i] - 1, e.lg[i] - 1, e.p2[i], e.rt[i]>>
      want(i) == IF e.d[i] = 2 THEN e.k[i] + 1 ELSE e.k[i]
  IN IF Len(e.d) # Len(e.k) \/ Len(e.lg) # Len(e.k) \/ Len(e.p2) # Len(e.k) \/ Len(e.rt) # Len(e.k) \/ Len(e.k) = 0
     THEN Result(Seen, {V("X", "RowShape", <<"bucketbig">>)})
     ELSE Result(Seen,
            RowChk({i \in I : ~(e.p2[i] = 1 /\ e.lg[i] - 1 >= want(i))}, "C19", "BucketHoldsSize", <<"log2", "64-bit range">>, D)
            \cup RowChk({i \in I : ~(e.lg[i] - 1 <= want(i))}, "C19", "Log2BucketLessThanTwice", <<"log2", "64-bit range">>, D)
            \cup RowChk({i \in I : e.rt[i] # 1}, "C19", "BucketHoldsSize", <<"log2", "node size maps to another bucket">>, D))

-----------------------------------------------------------------------------
(* C18: min_block_size.  mbs[i]: memory_pool<pool>::min_block_size(ns, n), n = n0 + i - 1;          *)
(* got[i]: nodes a pool constructed with that block size handed out before its upstream was asked  *)
(* for another block; the property name to report under is the one the plan put into the script.   *)
OnMbs(e) ==
  LET I == 1..Len(e.got)
      N(i) == e.n0 + i - 1
      D(i) == <<N(i), e.got[i], e.mbs[i], e.cups[i]>>
      shapeOk == Len(e.mbs) = Len(e.got) /\ Len(e.cups) = Len(e.got) /\ e.n0 >= 1
  IN IF ~shapeOk THEN Result(Seen, {V("X", "RowShape", <<e.pool, e.ns>>)})
     ELSE Result(Seen,
            RowChk({i \in I : e.got[i] < N(i)}, e.p, "MinBlockSizeSuffices", <<e.pool, e.ns, e.nsz>>, D))

(* stacks and arenas.  cap[i]: capacity_left() of a memory_stack / size of the block of a          *)
(* memory_arena constructed with min_block_size(b), b = from + i - 1 ("the resulting capacity will  *)
(* be exactly n" in both doc comments); full[i] (stacks): upstream allocations caused by one        *)
(* allocate(b, 1) on that stack, -1 if it failed.  With debug fences an allocation costs           *)
(* 2 * fence more and the doc comment calls the figure "a rough estimate", so the second guard     *)
(* applies to fence-less builds only.                                                              *)
OnStk(e) ==
  LET I == 1..Len(e.cap)
      Bt(i) == e.from + i - 1
      D(i) == <<Bt(i), e.mbs[i], e.cap[i], e.full[i]>>
      head == <<e.kind, e.fence>>
      shapeOk == Len(e.cap) = e.to - e.from + 1 /\ Len(e.mbs) = Len(e.cap) /\ Len(e.full) = Len(e.cap)
                 /\ e.from >= 1 /\ e.kind \in {"stack", "arena"}
  IN IF ~shapeOk THEN Result(Seen, {V("X", "RowShape", head)})
     ELSE Result(Seen,
            RowChk({i \in I : e.cap[i] # Bt(i)}, e.p, "MinBlockSizeCapacityExact", head, D)
            \cup (IF e.kind = "stack" /\ e.fence = 0
                  THEN RowChk({i \in I : e.full[i] # 0}, e.p, "StackMinBlockSizeSuffices", head, D)
                  ELSE {}))

-----------------------------------------------------------------------------
OnDied(e) == Result([st EXCEPT !.over = TRUE], {V("ANY", "NoCrash", <<e.how, e.code>>)})

\* an execution that ended normally must have produced at least one row
OnEnd(e) == Result(st, Chk(st.rows > 0, "X", "NoRows", <<e.what>>))

Apply(e) ==
  CASE e.e = "fn" -> OnFn(e)
    [] e.e = "bnd" -> OnBnd(e)
    [] e.e = "bucket" -> OnBucket(e)
    [] e.e = "bucketbig" -> OnBucketBig(e)
    [] e.e = "mbs" -> OnMbs(e)
    [] e.e = "stk" -> OnStk(e)
    [] e.e = "end" -> OnEnd(e)
    [] e.e = "died" -> OnDied(e)
    [] e.e = "terminate" -> Result(st, {V("ANY", "NoTerminate", <<>>)})
    [] e.e \in {"h", "ua", "uf", "ux"} -> Result(st, {})   \* handler / upstream chatter: not judged here
    [] OTHER -> Result(st, {V("X", "UnknownEvent", <<e.e>>)})

Init == l = 1 /\ x = -1 /\ cfg = [maxal |-> 16, fence |-> 0] /\ st = FreshState /\ viol = {}

Step ==
  /\ l <= Len(Tr)
  /\ LET e == Tr[l] IN
       IF e.e = "cfg" THEN cfg' = e /\ UNCHANGED <<x, st, viol>>
       ELSE IF e.e = "x" THEN x' = e.n /\ st' = FreshState /\ UNCHANGED <<cfg, viol>>
       ELSE LET res == Apply(e)
            IN /\ st' = res.s
               /\ viol' = viol \cup (IF "ovf" \in DOMAIN e THEN {V("ANY", "ValueInRange", <<e.e>>)} ELSE {}) \cup res.v
               /\ UNCHANGED <<x, cfg>>
  /\ l' = l + 1
  /\ (l' = Len(Tr) + 1) => PrintT(<<"VERDICT", ToJson([lines |-> Len(Tr), viol |-> viol'])>>)

Spec == Init /\ [][Step]_vars

TraceAccepted == TLCGet("stats").diameter - 1 = Len(Tr)
=============================================================================
