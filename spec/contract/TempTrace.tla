------------------------------ MODULE TempTrace ------------------------------
(***************************************************************************)
(* Contract specification for C14 (temporary allocations end with their    *)
(* scope; each live thread has its own temporary stack), bound to the      *)
(* driver "temp".  Abstract state: which stack every live thread holds,    *)
(* which stacks have been released (initializer destroyed or thread ended) *)
(* and not been taken over yet, the memory handed out inside open scopes.  *)
(* `release' is logged before the library marks the stack free, `got'      *)
(* after the stack was obtained, so the log order is a linearisation.      *)
(* Temporary stack mode 1 (tmpcfg.mode = "1"): the stack lives in          *)
(* thread-local storage, is created by the first use or by an initializer  *)
(* and destroyed by the initializer's destructor only ("if there is no     *)
(* temporary_stack_initializer, it won't be destroyed"): nothing is taken  *)
(* over between threads, and a leak report at exit is a violation only if  *)
(* every stack was created under or followed by an initializer that was    *)
(* destroyed.                                                              *)
(***************************************************************************)
EXTENDS Naturals, Integers, Sequences, FiniteSets, TLC, Json, IOUtils
TraceFile == IF "TRACE" \in DOMAIN IOEnv THEN IOEnv.TRACE ELSE "trace.ndjson"
Tr == ndJsonDeserialize(TraceFile)
VARIABLES l, x, cfg, st, viol
vars == <<l, x, cfg, st, viol>>
V(p, r, i) == [prop |-> p, rule |-> r, line |-> l, exec |-> x, info |-> ToString(i)]
Chk(c, p, r, i) == IF c THEN {} ELSE {V(p, r, i)}
Result(s, v) == [s |-> s, v |-> v]
TIds == 0..100
FreshState == [holds |-> [t \in TIds |-> -1], alive |-> {}, free |-> {}, known |-> {}, live |-> {},
               inPar |-> FALSE, parRelease |-> FALSE, parFree |-> 0, parAcq |-> 0, parFresh |-> 0, exited |-> FALSE,
               mode |-> "2",
               made |-> {},      \* mode 1: threads whose thread-local stack exists
               guard |-> {}]     \* mode 1: threads with a live temporary_stack_initializer
Overlap(a, b) == a.hi = b.hi /\ a.lo < b.lo + b.len /\ b.lo < a.lo + a.len

Acquire(t, s, fresh, what) ==
  IF st.holds[t] # -1
  THEN Result([st EXCEPT !.guard = IF what = "init" THEN @ \cup {t} ELSE @, !.known = @ \cup {s}],
              Chk(st.holds[t] = s, "C14", "StackStableWhileHeld", <<what, t, st.holds[t], s>>))
  ELSE Result([st EXCEPT !.holds[t] = s, !.free = @ \ {s}, !.known = @ \cup {s},
                         !.made = @ \cup {t}, !.guard = IF what = "init" THEN @ \cup {t} ELSE @,
                         !.parAcq = IF st.inPar THEN @ + 1 ELSE @,
                         !.parFresh = IF st.inPar /\ fresh THEN @ + 1 ELSE @],
         Chk(\A u \in st.alive : u = t \/ st.holds[u] # s, "C14", "NoTwoLiveThreadsShareAStack",
             <<what, t, s, {u \in st.alive : st.holds[u] = s}>>)
         \cup Chk(fresh = (s \notin st.known), "X", "FreshFlagConsistent", <<s, fresh>>)
         \* a new stack is created only if no released one is waiting.  Inside a concurrent block the
         \* log order of two acquisitions is not their order in the list, so the block is judged as
         \* a whole at its end.
         \cup Chk(~fresh \/ st.free = {} \/ st.inPar \/ st.mode = "1", "C14", "AdoptBeforeCreate", <<what, t, s, st.free>>))

OnTstart(e) == Result([st EXCEPT !.alive = @ \cup {e.t}], {})
OnGot(e) == Acquire(e.t, e.s, e.fresh, e.via)
OnScopeBegin(e) == Acquire(e.t, e.s, e.fresh, "scope")
OnRelease(e) ==
  LET s == st.holds[e.t]
      \* mode 1: the initializer's destructor (explicit, or at the end of the thread that owns one) destroys the stack
      destroyed == e.via = "uninit" \/ e.t \in st.guard
  IN Result([st EXCEPT !.holds[e.t] = -1, !.free = IF s = -1 THEN @ ELSE @ \cup {s},
                       !.made = IF destroyed THEN @ \ {e.t} ELSE @, !.guard = @ \ {e.t},
                       !.parRelease = @ \/ st.inPar], {})
OnTexit(e) == Result([st EXCEPT !.alive = @ \ {e.t}], Chk(st.holds[e.t] = -1, "X", "ExitWithoutRelease", <<e.t>>))
OnTalloc(e) ==
  LET rec == [id |-> e.id, t |-> e.t, hi |-> e.hi, lo |-> e.lo, len |-> e.len]
      clash == {a \in st.live : Overlap(a, rec)}
  IN IF e.r # "ok" THEN Result(st, Chk(e.r \in {"throw:out_of_memory", "throw:out_of_fixed_memory", "throw:bad_allocation_size", "throw:bad_node_size", "throw:bad_array_size", "throw:bad_alignment"},
                                     "C03", "ThrowIsLibraryFamily", <<e.r>>))
     ELSE Result([st EXCEPT !.live = @ \cup {rec}],
            Chk(clash = {}, "C14", "TemporaryMemoryDisjoint", <<e.t, e.id, {<<a.t, a.id>> : a \in clash}>>)
            \cup Chk(e.mis = 0, "C02", "Aligned", <<e.mis>>))
OnClosing(e) ==
  LET ids == {e.ids[i] : i \in 1..Len(e.ids)}
  IN Result([st EXCEPT !.live = {a \in @ : a.id \notin ids}],
       Chk(e.bad = 0, "C14", "ContentIntactUntilScopeEnds", <<e.t, e.depth, e.bad>>))
OnScopeEnd(e) == Result(st, Chk(e.same, "C14", "ScopeRestoresStack", <<e.t, e.depth>>))
OnTcheck(e) == Result(st, Chk(e.bad = 0, "C14", "ContentIntactUntilScopeEnds", <<e.t, e.bad>>))
OnH(e) ==
  IF e.k = "leak" THEN Result(st, IF st.exited /\ st.mode = "1" /\ st.made # {} THEN {}      \* documented: not destroyed without an initializer
                                  ELSE {V("C14", IF st.exited THEN "AllFreedAtExit" ELSE "NoLeakReportWhileRunning", <<e.name, e.amt, st.made>>)})
  ELSE Result(st, Chk(e.k \notin {"invptr", "overflow"}, "C16", "ValidReleaseNeverReported", <<e.k>>))

Apply(e) ==
  CASE e.e = "tmpcfg" -> Result([st EXCEPT !.mode = e.mode], {})
    [] e.e = "at" -> Result(st, {})      \* atomic steps of the stack list: judged by TempListTrace
    \* a scope that made the stack take further blocks: they are kept for reuse when it ends (next_capacity() is
    \* again what it was before the scope) unless shrink_to_fit() was requested, in which case they have gone back
    \* (nothing cached: next_capacity() is what the block source delivers next, later than any block taken so far)
    [] e.e = "tpair" -> Result([st EXCEPT !.made = @ \cup {e.t}], Chk(e.r = "ok", "C14", "ScopeRestoresStack", <<"pair", e.r>>)
                               \cup Chk(e.shr \/ e.r # "ok" \/ e.nca = e.nc0, "C14", "BlocksKeptForReuse", <<e.nc0, e.ncm, e.nca>>)
                               \* (blocks cached by earlier scopes go back as well, so the next block can be even later than ncm)
                               \cup Chk(~e.shr \/ e.r # "ok" \/ (e.nca >= e.ncm /\ (e.ncm > e.nc0 => e.nca > e.nc0)),
                                        "C14", "ShrinkRequestReturnsBlocks", <<e.nc0, e.ncm, e.nca>>))
    [] e.e = "tstart" -> OnTstart(e)
    [] e.e = "got" -> OnGot(e)
    [] e.e = "scope_begin" -> OnScopeBegin(e)
    [] e.e = "release" -> OnRelease(e)
    [] e.e = "tls_done" -> Result(st, {})
    [] e.e = "texit" -> OnTexit(e)
    [] e.e = "talloc" -> OnTalloc(e)
    [] e.e = "scope_closing" -> OnClosing(e)
    [] e.e = "scope_end" -> OnScopeEnd(e)
    [] e.e = "tcheck" -> OnTcheck(e)
    [] e.e = "par_begin" -> Result([st EXCEPT !.inPar = TRUE, !.parRelease = FALSE, !.parFree = Cardinality(st.free),
                                              !.parAcq = 0, !.parFresh = 0], {})
    \* of A concurrent acquisitions with F released stacks waiting (and no release during the block)
    \* at least min(A, F) take a stack over, so at most A - min(A, F) create a new one
    [] e.e = "par_end" -> Result([st EXCEPT !.inPar = FALSE],
                            Chk(st.mode = "1" \/ st.parRelease \/ st.parFresh <= st.parAcq - (IF st.parAcq < st.parFree THEN st.parAcq ELSE st.parFree),
                                "C14", "AdoptBeforeCreate", <<"block", st.parAcq, st.parFree, st.parFresh>>))
    [] e.e = "pexit" -> Result([st EXCEPT !.exited = TRUE], {})
    [] e.e = "h" -> OnH(e)
    [] e.e = "died" -> Result(st, {V("ANY", "NoCrash", <<e.how, e.code>>)})
    [] e.e = "terminate" -> Result(st, {V("ANY", "NoTerminate", <<>>)})
    [] OTHER -> Result(st, {V("X", "UnknownEvent", <<e.e>>)})

Init == l = 1 /\ x = -1 /\ cfg = [leak |-> 0] /\ st = FreshState /\ viol = {}
Step ==
  /\ l <= Len(Tr)
  /\ LET e == Tr[l] IN
       IF e.e = "cfg" THEN cfg' = e /\ UNCHANGED <<x, st, viol>>
       ELSE IF e.e = "x" THEN x' = e.n /\ st' = FreshState /\ UNCHANGED <<cfg, viol>>
       ELSE LET res == Apply(e) IN st' = res.s /\ viol' = viol \cup res.v /\ UNCHANGED <<x, cfg>>
  /\ l' = l + 1
  /\ (l' = Len(Tr) + 1) => PrintT(<<"VERDICT", ToJson([lines |-> Len(Tr), viol |-> viol'])>>)
Spec == Init /\ [][Step]_vars
TraceAccepted == TLCGet("stats").diameter - 1 = Len(Tr)
=============================================================================
