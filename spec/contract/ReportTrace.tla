------------------------------ MODULE ReportTrace ------------------------------
(***************************************************************************)
(* Contract specification for property C16 of foonathan/memory: invalid    *)
(* releases that the debug checks cover are reported (or at least stop the *)
(* program) before allocator state changes; valid ones never are.          *)
(*                                                                         *)
(* Bound to the implementation through the harness driver "badcall": each  *)
(* execution is a valid history on a pool, a memory stack or a block       *)
(* source, followed by ONE announced call (`bad').  The driver only records *)
(* what was passed; THIS module decides from the history it has replayed   *)
(* whether that call is invalid and of which class:                        *)
(*   foreign    the pointer lies in no block of the pool (or in the part of *)
(*              a block the arena keeps for itself)                        *)
(*   offstride  strictly inside a live node of the pool                    *)
(*   double     the address of a node the history has released and not got *)
(*              back since                                                 *)
(*   abovetop   a marker taken when more allocations were on the stack than*)
(*              are now                                                    *)
(*   outoforder a block that is outstanding but not the most recent one    *)
(*   noblock    a block given to a fixed source that has none outstanding  *)
(* and whether the build configuration under observation checks that class.*)
(* Guards: BadReleaseReportedOrStopped, ReportedBeforeStateChange,         *)
(* ValidPrefixNeverReported.                                               *)
(***************************************************************************)
EXTENDS Naturals, Integers, Sequences, FiniteSets, TLC, Json, IOUtils

TraceFile == IF "TRACE" \in DOMAIN IOEnv THEN IOEnv.TRACE ELSE "trace.ndjson"
Tr == ndJsonDeserialize(TraceFile)

VARIABLES l, x, cfg, st, viol
vars == <<l, x, cfg, st, viol>>

V(p, r, i) == [prop |-> p, rule |-> r, line |-> l, exec |-> x, info |-> ToString(i)]
Chk(c, p, r, i) == IF c THEN {} ELSE {V(p, r, i)}
Result(s, v) == [s |-> s, v |-> v]

NoBad == [on |-> FALSE, class |-> "none", covered |-> FALSE, s1 |-> -1, s2 |-> -1]
NoEnd == [on |-> FALSE, how |-> "", code |-> 0]

FreshState ==
  [blocks  |-> <<>>,    \* upstream blocks in order of acquisition: [size, src, live]
   obj     |-> [fam |-> "none", type |-> "-", src |-> -1, hdr |-> 0, ns |-> 0],
   live    |-> {},      \* live pool nodes: [id, b, off, len]
   freed   |-> {},      \* addresses <<b, off>> released by the history and not handed out again
   depth   |-> 0,       \* memory stack: allocations currently on the stack
   marks   |-> <<>>,    \* depth at the time marker j+1 was taken
   out     |-> <<>>,    \* block source: outstanding block ids, oldest first
   bad     |-> NoBad,   \* the announced call
   reports |-> <<>>,    \* invalid-pointer reports since the announcement
   ret     |-> FALSE,   \* the announced call returned
   ended   |-> NoEnd]   \* how the process ended, if not normally

HasBlk(b) == b >= 0 /\ b < Len(st.blocks)

-----------------------------------------------------------------------------
OnUa(e) == Result([st EXCEPT !.blocks = Append(@, [size |-> e.sz, src |-> e.s, live |-> TRUE])], {})
OnUf(e) == Result(IF e.b >= 0 /\ HasBlk(e.b) THEN [st EXCEPT !.blocks[e.b + 1].live = FALSE] ELSE st, {})

OnNew(e) == Result([st EXCEPT !.obj = [fam |-> e.fam, type |-> e.type, src |-> e.src, hdr |-> e.hdr, ns |-> e.ns]],
                   Chk(e.r = "ok", "X", "ConstructionFailed", <<e.fam, e.r>>))

Last(s) == s[Len(s)]
Front(s) == SubSeq(s, 1, Len(s) - 1)

OnOp(e) ==
  LET ok == e.r = "ok"
      addr == <<e.b, e.off>>
  IN CASE e.op = "an" ->
            Result([st EXCEPT !.live = IF ok THEN @ \cup {[id |-> e.id, b |-> e.b, off |-> e.off, len |-> e.len]} ELSE @,
                              !.freed = IF ok THEN @ \ {addr} ELSE @],
                   Chk(ok, "X", "PrefixOperationFailed", <<e.op, e.r>>))
       [] e.op = "dn" ->
            Result([st EXCEPT !.live = {n \in @ : n.id # e.id}, !.freed = @ \cup {addr}],
                   Chk(ok /\ \E n \in st.live : n.id = e.id, "X", "PrefixOperationFailed", <<e.op, e.r>>))
       [] e.op = "sa" ->
            Result([st EXCEPT !.depth = IF ok THEN @ + 1 ELSE @], Chk(ok, "X", "PrefixOperationFailed", <<e.op, e.r>>))
       [] e.op = "mk" ->
            Result([st EXCEPT !.marks = Append(@, st.depth)], Chk(e.id = Len(st.marks), "X", "MarkerNumbering", <<e.id>>))
       [] e.op = "uw" ->
            \* a valid unwind: the marker is not above the top
            IF e.id + 1 > Len(st.marks) \/ st.marks[e.id + 1] > st.depth
            THEN Result(st, {V("X", "PrefixUnwindNotValid", <<e.id, st.depth>>)})
            ELSE Result([st EXCEPT !.depth = st.marks[e.id + 1]], Chk(ok, "X", "PrefixOperationFailed", <<e.op, e.r>>))
       [] e.op = "ab" ->
            Result([st EXCEPT !.out = IF ok THEN Append(@, e.id) ELSE @], Chk(ok, "X", "PrefixOperationFailed", <<e.op, e.r>>))
       [] e.op = "db" ->
            IF st.out = <<>> \/ Last(st.out) # e.id
            THEN Result(st, {V("X", "PrefixBlockReturnNotValid", <<e.id, st.out>>)})
            ELSE Result([st EXCEPT !.out = Front(@)], Chk(ok, "X", "PrefixOperationFailed", <<e.op, e.r>>))
       [] OTHER -> Result(st, {V("X", "UnknownOperation", <<e.op>>)})

-----------------------------------------------------------------------------
(* classification of the announced call from the replayed history *)
PoolClass(e) ==
  LET own == HasBlk(e.b) /\ st.blocks[e.b + 1].live /\ st.blocks[e.b + 1].src = st.obj.src
  IN IF \E n \in st.live : n.b = e.b /\ n.off = e.off THEN "valid"
     ELSE IF ~own \/ e.off < st.obj.hdr THEN "foreign"
     ELSE IF \E n \in st.live : n.b = e.b /\ n.off < e.off /\ e.off < n.off + n.len THEN "offstride"
     ELSE IF <<e.b, e.off>> \in st.freed THEN "double"
     \* inside the pool's block but in no node, live or free (the chunk header of a small-node pool): as foreign
     \* as memory of another allocator
     ELSE IF e.kind = "foreign" THEN "foreign"
     ELSE "unknown"

ClassOf(e) ==
  IF st.obj.fam = "pool" /\ e.kind \in {"foreign", "off", "double"} THEN PoolClass(e)
  ELSE IF st.obj.fam = "stack" /\ e.kind = "unwind" THEN
         IF e.id + 1 > Len(st.marks) THEN "unknown"
         ELSE IF st.marks[e.id + 1] > st.depth THEN "abovetop" ELSE "valid"
  ELSE IF st.obj.fam \in {"sblk", "vblk"} /\ e.kind = "block" THEN
         IF \E i \in 1..Len(st.out) : st.out[i] = e.id
         THEN (IF Last(st.out) = e.id THEN "valid" ELSE "outoforder")
         ELSE "unknown"
  ELSE IF st.obj.fam = "fblk" /\ e.kind = "block" THEN
         IF st.out = <<>> THEN "noblock" ELSE "unknown"
  ELSE "unknown"

\* which classes the configuration under observation checks (what the property claims)
Covered(class) ==
  /\ cfg.ptr = 1
  /\ \/ class \in {"foreign", "offstride"} /\ st.obj.type = "small"
     \/ class = "double" /\ cfg.dbl = 1
     \/ class \in {"abovetop", "outoforder", "noblock"}

OnBad(e) ==
  LET c == ClassOf(e)
  IN Result([st EXCEPT !.bad = [on |-> TRUE, class |-> c, covered |-> Covered(c), s1 |-> e.s1, s2 |-> e.s2],
                       !.reports = <<>>],
            Chk(~st.bad.on, "X", "SecondBadCall", <<e.kind>>)
            \cup Chk(c \notin {"valid", "unknown"}, "X", "AnnouncedCallNotClassifiedInvalid", <<e.kind, c, e.b, e.off>>))

OnH(e) ==
  IF e.k # "invptr" THEN Result(st, {})
  ELSE IF st.bad.on THEN Result([st EXCEPT !.reports = Append(@, e)], {})
  ELSE Result(st, {V("C16", "ValidPrefixNeverReported", <<st.obj.fam, st.obj.type, e.name, e.b, e.off>>)})

OnRet(e) == Result([st EXCEPT !.ret = TRUE], {})

OnDied(e) == Result([st EXCEPT !.ended = [on |-> TRUE, how |-> e.how, code |-> e.code]], {})

\* the execution is over: judge the announced call
OnXend(e) ==
  IF ~st.bad.on
  THEN Result(st, Chk(~st.ended.on, "ANY", "NoCrash", <<"during the valid history", st.ended.how, st.ended.code>>))
  ELSE IF ~st.bad.covered THEN Result(st, {})
  ELSE LET stopped == st.ended.on /\ st.ended.how \in {"exit", "signal"}
           outcome == IF st.ended.on THEN <<st.ended.how, st.ended.code>> ELSE <<"returned", 0>>
           viaHandler == st.ended.on /\ st.ended.how = "exit" /\ st.ended.code = 42
       IN Result(st,
            Chk(stopped /\ ~st.ret, "C16", "BadReleaseReportedOrStopped",
                <<st.obj.fam, st.obj.type, st.bad.class, outcome, Len(st.reports)>>)
            \cup Chk(~viaHandler \/ Len(st.reports) >= 1, "C16", "BadReleaseReportedOrStopped",
                     <<"handler exit without a report", st.obj.fam, st.bad.class>>)
            \cup Chk(\A i \in 1..Len(st.reports) : st.reports[i].s1 = st.bad.s1 /\ st.reports[i].s2 = st.bad.s2,
                     "C16", "ReportedBeforeStateChange",
                     <<st.obj.fam, st.obj.type, st.bad.class, st.bad.s1, st.bad.s2,
                       [i \in 1..Len(st.reports) |-> <<st.reports[i].s1, st.reports[i].s2>>]>>))

Apply(e) ==
  CASE e.e = "ua" -> OnUa(e)
    [] e.e = "uf" -> OnUf(e)
    [] e.e = "new" -> OnNew(e)
    [] e.e = "op" -> OnOp(e)
    [] e.e = "bad" -> OnBad(e)
    [] e.e = "h" -> OnH(e)
    [] e.e = "ret" -> OnRet(e)
    [] e.e = "died" -> OnDied(e)
    [] e.e = "xend" -> OnXend(e)
    [] e.e = "end" -> Result(st, {})
    [] e.e = "terminate" -> Result(st, {})
    [] OTHER -> Result(st, {V("X", "UnknownEvent", <<e.e>>)})

Init == l = 1 /\ x = -1 /\ cfg = [ptr |-> 0, dbl |-> 0] /\ st = FreshState /\ viol = {}

Step ==
  /\ l <= Len(Tr)
  /\ LET e == Tr[l] IN
       IF e.e = "cfg" THEN cfg' = e /\ UNCHANGED <<x, st, viol>>
       ELSE IF e.e = "x" THEN x' = e.n /\ st' = FreshState /\ UNCHANGED <<cfg, viol>>
       ELSE LET res == Apply(e)
            IN /\ st' = res.s
               /\ viol' = viol \cup (IF "ovf" \in DOMAIN e THEN {V("ANY", "ValueInRange", <<e.e>>)} ELSE {}) \cup res.v
               /\ UNCHANGED <<x, cfg>>
  /\ l' = l + 1
  /\ (l' = Len(Tr) + 1) => PrintT(<<"VERDICT", ToJson([lines |-> Len(Tr), viol |-> viol'])>>)

Spec == Init /\ [][Step]_vars

TraceAccepted == TLCGet("stats").diameter - 1 = Len(Tr)
=============================================================================
